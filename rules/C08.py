"""C08 — each contract's storage is private to it and is all it can touch (DESIGN.md §5 C08)."""
from vlib import q
from vlib.cfg import cfg_of
from vlib.prov import peel, fmt, is_param, contains, alts, deep_peel, same_origin, is_param_field, root_param, just

LEVEL = "other"
EXPLANATION = (
    "Layering/ownership analysis over MIR facts: module namespace constants are pairwise distinct (evaluated consts); "
    "every prefixed-view constructor call takes the calling module's own namespace constant (who-may-use-which-"
    "namespace); every cw-storage-plus / Storage operation in wasm.rs, bank.rs, staking.rs receives a view of that "
    "module's namespace, directly or through a private helper all of whose callers pass such a view (interprocedural "
    "provenance); the only Deps/DepsMut handed to contract code carry contract_storage[_mut](.., address); Contract "
    "entry points are invoked nowhere else; the contract namespace depends on the address; raw query, dump and App "
    "accessors reach the same window. With C07 this gives non-interference for every key."
)
TRUSTED = ["rustc MIR construction", "cwmt-facts driver", "vlib (provenance, call graph)", "C07 (views touch only their prefix)",
           "cw-storage-plus operations use only the store they are given"]
ASSUMPTIONS = ["prefix-freeness arithmetic of the length-prefixed encoding (not decided, see C07)"]

PS = "prefixed_storage::"
VIEW_CTORS = {PS + "prefixed": 1, PS + "prefixed_read": 1, PS + "prefixed_multilevel": 1, PS + "prefixed_multilevel_read": 1,
              PS + "PrefixedStorage::new": 1, PS + "PrefixedStorage::multilevel": 1,
              PS + "ReadonlyPrefixedStorage::new": 1, PS + "ReadonlyPrefixedStorage::multilevel": 1}
MODULE_NS = {"src/wasm.rs": {"wasm::NAMESPACE_WASM"}, "src/bank.rs": {"bank::NAMESPACE_BANK"},
             "src/staking.rs": {"staking::NAMESPACE_STAKING", "staking::NAMESPACE_DISTRIBUTION"}}
# named exceptions (reason in DESIGN.md §5 C08.R3 / §6 observations)
ROOT_STORE_EXCEPTIONS = {
    ("bank::BankKeeper::set_denom_metadata", "cw_storage_plus::Map::save"): "public admin function, the caller supplies the store",
}
# .. and a stored item that is read where it is written (the recorded observation is about the *item*, whichever read operation of
# cw-storage-plus the query uses for it)
ROOT_ITEM_READS = {
    ("<bank::BankKeeper as module::Module>::query", "bank::DENOM_METADATA"): "DENOM_METADATA read from the root store: read-only, disjoint key space (recorded observation)",
}
READ_OPS = {"may_load", "load", "has", "keys", "keys_raw", "range", "range_raw", "prefix", "sub_prefix", "prefix_range", "prefix_range_raw", "is_empty", "first", "last"}
CONTRACT_METHODS = ("execute", "instantiate", "query", "sudo", "reply", "migrate")


def check(ctx, cfg):
    r1(ctx, cfg)
    r2(ctx, cfg)
    r3(ctx, cfg)
    r4(ctx, cfg)
    r5(ctx, cfg)
    r6(ctx, cfg)
    r7(ctx, cfg)
    r8(ctx, cfg)


def r8(ctx, cfg):
    """premise shared with C07: a contract iterates its storage through a prefixed view; what bounds the iteration to the
    contract's own window is range_with_prefix: start and end handed to the chain store are prefix++bound, or the
    prefix / its upper bound when the contract gives none (an unbounded end only for a namespace that has no upper bound)"""
    from rules import C07
    C07.r3(ctx, cfg, R="C08.R8")
    # ... and what keeps two contracts' windows apart is the view's key arithmetic as a whole: every point access goes to
    # prefix ++ key, the prefix is a prefix-free code of the namespace path, the window's end is the prefix's upper bound
    C07.r2(ctx, cfg, R="C08.R8")
    C07.r4(ctx, cfg, R="C08.R8")
    C07.r5(ctx, cfg, R="C08.R8")


def _run_inside_with_storage(cfg):
    """the closures that run inside the action handed to with_storage: the action itself and, transitively, every closure it
    invokes (`with_storage(.., |c, deps, env| entry(c, deps, env).and_then(verify))` runs `entry` there)"""
    F, P = cfg.facts, cfg.prov
    if getattr(F, "_c08_inside", None) is not None:
        return F._c08_inside
    inside, todo = set(), []
    for g, b, t in q.all_calls(F, "wasm::WasmKeeper::with_storage"):
        a = peel(P.call_args(g, t, b)[-1])
        if a[0] == "closure":
            todo.append(a[1])
    while todo:
        k = todo.pop()
        if k in inside:
            continue
        inside.add(k)
        h = F.fn(k)
        if h is None:
            continue
        for b, t in h.calls():
            c = t["callee"]
            if c.get("trait", "").startswith("std::ops::Fn") and t["args"]:
                o = peel(P.call_args(h, t, b)[0])
                if o[0] == "closure":
                    todo.append(o[1])
    F._c08_inside = inside
    return inside


def r7(ctx, cfg):
    """premise shared with C06: a contract's window [prefix, upper_bound(prefix)) is read through the stack of
    transaction overlays; its upper bound is the raw prefix of the neighbouring namespace, so the overlay must treat
    the end bound as exclusive and must record every write/removal in its read view (otherwise a neighbour's pending
    write, or a value already removed, shows up in the contract's reads)"""
    from rules import C06
    C06.overlay_premise(ctx, cfg, "C08.R7")     # (and what the contract iterates is what the dump lists: merged ranges, point reads)


def r1(ctx, cfg):
    F = cfg.facts
    R = "C08.R1"
    names = ["wasm::NAMESPACE_WASM", "bank::NAMESPACE_BANK"]
    if cfg.has("staking"):
        names += ["staking::NAMESPACE_STAKING", "staking::NAMESPACE_DISTRIBUTION"]
    vals = {}
    for n in names:
        c = F.consts.get(n)
        if c is None or "value" not in c:
            ctx.fail(R, n, "anchor-missing", "namespace constant %s not found / not evaluated" % n)
            continue
        vals[n] = c["value"]
    ks = sorted(vals)
    for i, a in enumerate(ks):
        for b in ks[i + 1:]:
            ctx.ob(R, "-", "distinct:%s!=%s" % (a, b), vals[a] != vals[b] and len(vals[a]) > 0 and len(vals[b]) > 0,
                   "namespace constants %s and %s are equal (%r)" % (a, b, vals[a]), sample="%r != %r" % (vals[a], vals[b]))
    # registry map name vs contract namespace prefix
    c = F.consts.get("wasm::CONTRACTS")
    reg = [l["str"] for l in c["lits"] if l.get("ck") == "str"] if c else []
    f = F.fn("wasm::Wasm::contract_namespace")
    pref = _namespace_prefix(cfg, f) if f is not None else None
    ok = len(reg) == 1 and pref is not None and not reg[0].startswith(pref) and not pref.startswith(reg[0]) and len(pref) > 0
    ctx.ob(R, "wasm::CONTRACTS", "registry-name-vs-contract-namespace", ok,
           "registry map namespace %r must differ from every contract namespace (prefix %r)" % (reg, pref),
           sample="%r vs prefix %r" % (reg[0] if reg else None, pref))
    # storage-plus names inside one module namespace are pairwise distinct
    by_mod = {}
    for k, c in F.consts.items():
        if any(x["key"].startswith("cw_storage_plus::") for x in c.get("calls", [])):
            lits = [l["str"] for l in c["lits"] if l.get("ck") == "str"]
            by_mod.setdefault(k.split("::")[0], []).append((k, lits[0] if lits else None))
    for mod, items in by_mod.items():
        seen = {}
        for k, v in items:
            ctx.ob(R, k, "storage-key-unique-in-module", v is not None and v not in seen,
                   "storage-plus namespace %r of %s collides with %s" % (v, k, seen.get(v)), sample=repr(v))
            seen[v] = k


def _namespace_prefix(cfg, f):
    P = cfg.prov
    from vlib import pipeline
    parts = pipeline.byte_parts(P, cfg.facts, f, P.ret(f))
    if not parts:
        return None
    init = peel(parts[0])
    if init[0] == "const" and init[1] in ("bytes", "str"):
        return init[2]
    return None


def _ns_origin_ok(o, allowed_items):
    o = peel(o)
    return o[0] == "item" and o[1] in allowed_items


def r2(ctx, cfg):
    F, P = cfg.facts, cfg.prov
    R = "C08.R2"
    n = 0
    for f in F.user_fns():
        for bid, t in f.calls():
            k = t["callee"]["key"]
            if k not in VIEW_CTORS:
                continue
            n += 1
            a = P.call_args(f, t, bid)
            ns = peel(a[1])
            file = f.file
            inst = "%s@%s" % (k.rsplit("::", 2)[-2] + "::" + k.rsplit("::", 1)[-1] if "Storage::" in k else k.rsplit("::", 1)[-1], _site_tag(f, t))
            if file.startswith("src/prefixed_storage/"):
                ok = ns[0] == "param"
                want = "alias passes its own parameter"
            elif file == "src/app.rs":
                ok = ns[0] == "param" and f.key.startswith("app::App::prefixed_")
                want = "documented raw accessor passes the caller's namespace"
            elif f.key in ("wasm::Wasm::contract_storage", "wasm::Wasm::contract_storage_mut"):
                ok = ns[0] == "agg" and ns[1] == "array" and len(ns[2]) == 2 and _ns_origin_ok(ns[2][0][1], {"wasm::NAMESPACE_WASM"})
                if ok:
                    second = peel(ns[2][1][1])
                    ok = second[0] == "call" and second[1] == "wasm::Wasm::contract_namespace" and is_param(second[2][1], "address")
                want = "[NAMESPACE_WASM, contract_namespace(address)]"
            elif file in MODULE_NS:
                ok = _ns_origin_ok(ns, MODULE_NS[file])
                want = "the module's own constant %s" % sorted(MODULE_NS[file])
            else:
                ok = False
                want = "no prefixed view expected in this file"
            ctx.ob(R, f.key, "namespace:" + inst, ok, "view over namespace %s in %s, expected %s" % (fmt(ns)[:100], file, want), fn=f,
                   line=t["line"], sample=fmt(ns)[:80])
    ctx.floor(R, "prefixed view constructor calls", n, 14 if not cfg.has("staking") else 28)


def _site_tag(f, t):
    # stable tag without line numbers: ordinal of this callee among the function's calls
    k = t["callee"]["key"]
    i = 0
    for bid, tt in f.calls():
        if tt is t:
            break
        if tt["callee"]["key"] == k:
            i += 1
    return "#%d" % i


def _site_tag_stmt(f, bid, i):
    # ordinal of this Deps aggregate among the function's Deps aggregates (stable without line numbers)
    n = 0
    for b2, i2, st2 in f.stmts():
        rv = st2.get("rv", {})
        if st2["k"] == "assign" and rv.get("k") == "aggregate" and rv.get("adt") in ("cosmwasm_std::DepsMut", "cosmwasm_std::Deps", "cosmwasm_std::OwnedDeps"):
            if (b2, i2) == (bid, i):
                return "#%d" % n
            n += 1
    return "#?"


class ViewAnalysis:
    """status of storage-typed values: ('view', ns items) | ('contract-view',) | ('root',) | ('unknown', text)"""

    def __init__(self, cfg):
        self.cfg = cfg
        self.F, self.P = cfg.facts, cfg.prov
        self.memo = {}
        self.callers = {}
        for f in self.F.fns.values():
            for bid, t in f.calls():
                for key in (t["callee"]["key"], t["callee"].get("resolved")):
                    if key and key in self.F.fns:
                        self.callers.setdefault(key, []).append((f, bid, t))

    def classify(self, f, o, depth=0):
        o = peel(o)
        while o[0] == "upd":
            o = peel(o[1])
        if o[0] == "multi":
            sts = [self.classify(f, x, depth) for x in o[1]]
            if all(s == sts[0] for s in sts):
                return sts[0]
            return ("unknown", "mixed: %s" % sts)
        if o[0] == "call":
            k = o[1]
            if k in VIEW_CTORS:
                ns = peel(o[2][1])
                if ns[0] == "item":
                    return ("view", ns[1])
                if ns[0] == "agg" and ns[1] == "array":
                    return ("view", "+".join(fmt(peel(v))[:40] for _, v in ns[2]))
                return ("unknown", "view over " + fmt(ns)[:60])
            if k in ("wasm::Wasm::contract_storage", "wasm::Wasm::contract_storage_mut"):
                return ("contract-view",)
            from vlib.prov import leaves
            if not any(x[0] in ("param", "env", "upvar", "bound", "cparam", "cycle", "unknown") for x in leaves(o)):
                return ("scratch",)  # a store created locally from nothing: not chain state
            return ("unknown", "result of " + k)
        if o[0] == "bound" and o[1] in ("cache_of", "base_ro"):
            return self.classify(f, o[2], depth)
        if o[0] == "param":
            # inside a closure a `param` leaf is a captured parameter of the enclosing function
            if f.kind == "closure":
                root = self.F.fn(f.key.split("::{closure")[0])
                if root is not None:
                    f = root
            return self.param_status(f, o[1], depth)
        return ("unknown", fmt(o)[:60])

    def param_status(self, f, idx, depth):
        # closures: parameters are resolved by Prov; a plain function parameter
        key = (f.key, idx)
        if key in self.memo:
            return self.memo[key]
        self.memo[key] = ("unknown", "recursive")
        res = self._param_status(f, idx, depth)
        self.memo[key] = res
        return res

    def _param_status(self, f, idx, depth):
        if depth > 6:
            return ("unknown", "depth")
        # public functions and trait methods receive whatever the caller has: the root (or the enclosing cache)
        is_trait_impl = f.d.get("impl_trait") is not None or f.d.get("in_trait") is not None
        if f.vis == "pub" or is_trait_impl:
            return ("root",)
        calls = self.callers.get(f.key, [])
        if not calls:
            return ("unknown", "no callers of private fn %s" % f.key)
        sts = []
        for g, bid, t in calls:
            args = self.P.call_args(g, t, bid)
            if idx - 1 >= len(args):
                return ("unknown", "arity")
            sts.append(self.classify(g, args[idx - 1], depth + 1))
        if all(s == sts[0] for s in sts):
            return sts[0]
        return ("unknown", "callers disagree: %s" % sorted(set(map(str, sts))))


def r3(ctx, cfg, R="C08.R3", files=None, floor=None):
    F, P = cfg.facts, cfg.prov
    va = ViewAnalysis(cfg)
    n = 0
    item_ns = {}
    for f in F.user_fns():
        if f.file not in MODULE_NS or (files is not None and f.file not in files):
            continue
        allowed = MODULE_NS[f.file]
        for bid, t in f.calls():
            c = t["callee"]
            if c["local"] and c.get("trait") != "cosmwasm_std::Storage":
                continue
            is_store_op = c["key"].startswith("cw_storage_plus::") or c.get("trait") == "cosmwasm_std::Storage"
            if not is_store_op:
                continue
            args = P.call_args(f, t, bid)
            for i, ty in enumerate(c.get("inputs", [])):
                if c.get("trait") == "cosmwasm_std::Storage":
                    if i != 0:
                        continue
                elif not q.is_storage_ty(ty) or i >= len(args):
                    continue
                n += 1
                st = va.classify(f, args[i])
                inst = "%s%s" % (c["key"], _site_tag(f, t))
                if st[0] == "view" and args and peel(args[0])[0] == "item":
                    item_ns.setdefault(peel(args[0])[1], {}).setdefault(st[1], []).append("%s:%s" % (f.key.rsplit("::", 1)[-1], t["line"]))
                exc = ROOT_STORE_EXCEPTIONS.get((f.key.split("::{closure")[0], c["key"]))
                if exc is None and args and peel(args[0])[0] == "item" and c["name"] in READ_OPS and c["key"].startswith("cw_storage_plus::"):
                    exc = ROOT_ITEM_READS.get((f.key.split("::{closure")[0], peel(args[0])[1]))
                if st[0] == "view":
                    ok = st[1] in allowed
                    msg = "store operation on a view of %s inside %s" % (st[1], f.file)
                elif st[0] == "contract-view":
                    ok = f.file == "src/wasm.rs"
                    msg = "contract window used outside wasm.rs"
                elif st[0] == "scratch":
                    ok = True
                    msg = "locally created scratch store"
                elif st[0] == "root" and exc:
                    ok = True
                    msg = exc
                else:
                    ok = False
                    msg = "%s operates on %s (%s), expected a view of %s" % (c["key"], st[0], st[1] if len(st) > 1 else "", sorted(allowed))
                ctx.ob(R, f.key, inst, ok, msg, fn=f, line=t["line"], sample="%s on %s" % (c["key"].rsplit("::", 2)[-2] + "::" + c["name"], st))
    # writer and readers of one stored item agree on the namespace it lives in (an item read under another view than the one it
    # is written under is never found: the reader silently gets the default)
    for item, nss in sorted(item_ns.items()):
        ctx.ob(R, item, "item-accessed-under-one-namespace", len(nss) == 1,
               "%s is accessed under different views: %s" % (item, {k: v[:3] for k, v in sorted(nss.items())}), sample=sorted(nss)[0])
    ctx.floor(R, "store operations in module files", n, floor if floor is not None else (8 if not cfg.has("staking") else 45))


def r4(ctx, cfg):
    F, P = cfg.facts, cfg.prov
    R = "C08.R4"
    # every Deps / DepsMut value in the crate is either built by with_storage[_readonly] over the callee's own window, or a
    # re-typing of an existing Deps / DepsMut whose storage is passed through untouched (`deps.storage`) - wherever that
    # re-typing is written (a helper such as decustomize_deps[_mut], or in place inside the lifting closures)
    window = {"wasm::WasmKeeper::with_storage": "wasm::Wasm::contract_storage_mut", "wasm::WasmKeeper::query_smart": "wasm::Wasm::contract_storage"}
    # (with_storage_readonly, query_smart's private wrapper, is always spliced into it: vlib/inline.py ALWAYS_INLINE)
    seen_window = set()
    n_sites = 0
    for f in F.user_fns():
        for bid, i, st in f.stmts():
            rv = st.get("rv", {})
            if not (st["k"] == "assign" and rv.get("k") == "aggregate" and rv.get("adt") in ("cosmwasm_std::DepsMut", "cosmwasm_std::Deps", "cosmwasm_std::OwnedDeps")):
                continue
            n_sites += 1
            root = f.key.split("::{closure")[0]
            o = P.rvalue(f, st["rv"], (bid, i))
            so = peel(dict(o[2]).get("storage", ("unknown", "")))
            if root in window:
                ok = so[0] == "call" and so[1] == window[root] and len(so[2]) == 3 and is_param(so[2][2], "address")
                want = "%s(.., address)" % window[root]
                seen_window.add(root)
            else:
                base = peel(so[1]) if so[0] == "field" and so[2] == "storage" else ("?",)
                ok = so[0] == "field" and so[2] == "storage" and base[0] in ("param", "cparam", "bound") and rv.get("adt") != "cosmwasm_std::OwnedDeps"
                want = "the storage of the Deps / DepsMut it was given (`deps.storage`)"
            ctx.ob(R, root, "storage-is-contract-window%s" % _site_tag_stmt(f, bid, i), ok, "storage handed to the contract in %s is %s, expected %s" % (f.key, fmt(so)[:120], want), fn=f,
                   line=st["line"], sample=fmt(so)[:100])
    # (a re-typing done by cosmwasm-std itself - `deps.into_empty()` - builds no Deps in this crate: it counts as a re-typing site)
    n_retyped = len(q.all_calls(F, lambda c: c["key"] in ("cosmwasm_std::DepsMut::into_empty", "cosmwasm_std::Deps::into_empty")))
    ctx.ob(R, "-", "all-four-sites-present", seen_window == set(window) and n_sites + min(n_retyped, 2) >= 4, "Deps construction sites: %d, window sites %s" % (n_sites, sorted(seen_window)),
           sample="%d sites, windows built by %s" % (n_sites, sorted(x.rsplit("::", 1)[1] for x in seen_window)))
    # Contract entry points are invoked only from the call_* / query_smart closures
    allowed = {"wasm::WasmKeeper::call_execute", "wasm::WasmKeeper::call_instantiate", "wasm::WasmKeeper::call_reply",
               "wasm::WasmKeeper::call_sudo", "wasm::WasmKeeper::call_migrate", "wasm::WasmKeeper::query_smart"}
    n = 0
    for f, bid, t in q.all_calls(F, lambda c: c.get("trait") == "contracts::Contract" and c["name"] in CONTRACT_METHODS):
        n += 1
        root = f.key.split("::{closure")[0]
        ok = root in allowed
        if ok and t["callee"]["name"] == "query":
            # the read-only entry point: runs on the Deps that query_smart builds over the queried contract's own window
            dp = peel(P.call_args(f, t, bid)[1])
            so = peel(dict(dp[2]).get("storage", ("?",))) if dp[0] == "agg" and dp[1].startswith("cosmwasm_std::Deps") else ("?",)
            ok = root == "wasm::WasmKeeper::query_smart" and so[0] == "call" and so[1] == "wasm::Wasm::contract_storage" and is_param(so[2][2], "address")
        elif ok:
            use = P.closure_use(f) if f.kind == "closure" else None
            ok = (use is not None and use[2]["callee"]["key"] == "wasm::WasmKeeper::with_storage") or f.key in _run_inside_with_storage(cfg)
        ctx.ob(R, root, "Contract::%s-only-inside-with_storage" % t["callee"]["name"], ok,
               "Contract::%s is invoked from %s outside the with_storage wrappers" % (t["callee"]["name"], f.key), fn=f, line=t["line"],
               sample="inside closure passed to with_storage[_readonly]")
    ctx.floor(R, "Contract entry-point call sites", n, 6)


def r5(ctx, cfg):
    F, P = cfg.facts, cfg.prov
    R = "C08.R5"
    key = "wasm::Wasm::contract_namespace"
    f = ctx.need_fn(R, key)
    if f is None:
        return
    from vlib import pipeline
    parts = pipeline.byte_parts(P, F, f, P.ret(f))
    d = "unrecognised" if parts is None else " ++ ".join(fmt(x)[:40] for x in parts)
    ok = parts is not None and len(parts) == 2 and peel(parts[0])[0] == "const" and peel(parts[0])[2] == "contract_data/" and is_param(parts[1], "contract")
    ctx.ob(R, key, "namespace='contract_data/'++address", ok, "contract_namespace builds %s" % d, fn=f, sample=d)
    # no override of the provided methods in the default keeper
    over = []
    for imp in F.impls:
        if imp.get("trait") == "wasm::Wasm":
            over += [m["name"] for m in imp["methods"] if m["name"] in ("contract_namespace", "contract_storage", "contract_storage_mut")]
    ctx.ob(R, "<wasm::WasmKeeper as wasm::Wasm>", "provided-storage-methods-not-overridden", not over, "overridden: %s" % over, sample="none overridden")


def r6(ctx, cfg):
    F, P = cfg.facts, cfg.prov
    R = "C08.R6"
    for key, addr_name, st_name in (("wasm::WasmKeeper::query_raw", "address", "storage"),
                                    ("<wasm::WasmKeeper as wasm::Wasm>::dump_wasm_raw", "address", "storage")):
        f = ctx.need_fn(R, key)
        if f is None:
            continue
        cs = q.calls(f, "wasm::Wasm::contract_storage")
        ok = len(cs) == 1
        if ok:
            a = P.call_args(f, cs[0][1], cs[0][0])
            ok = is_param(a[1], st_name) and is_param(a[2], addr_name)
        ctx.ob(R, key, "window-of-own-address", ok, "%s does not read contract_storage(storage, address)" % key, fn=f,
               sample="contract_storage(storage, &address)")
        # all reads go through that window
        reads = [(b, t) for b, t in f.calls() if t["callee"].get("trait") == "cosmwasm_std::Storage"]
        ok = bool(reads) and all(peel(P.call_args(f, t, b)[0])[0] == "call" and peel(P.call_args(f, t, b)[0])[1] == "wasm::Wasm::contract_storage" for b, t in reads)
        ctx.ob(R, key, "reads-only-through-window", ok, "%s reads storage outside the contract window" % key, fn=f, sample="%d reads" % len(reads))
        if key.endswith("query_raw"):
            # ... and the answer is what the window holds under the asked key, for every key (the empty key included): each
            # result either is made from `get(key)` or is produced on the edge where `get(key)` found nothing
            def is_get(x):
                return x[0] == "call" and x[1] == "cosmwasm_std::Storage::get" and len(x[2]) == 2 and is_param(x[2][1], "key")
            bad = []
            for val, conds, site in q.value_cases(P, f, 0):
                if contains(val, is_get):
                    continue
                if any(c[0] == "variant_in" and c[2] == ("None",) and contains(c[1], is_get) for e, c in conds):
                    continue
                bad.append(fmt(val)[:60])
            ctx.ob(R, key, "answer-is-the-window's-value-under-the-key", not bad,
                   "query_raw can answer %s without having looked the key up in the contract's window" % bad, fn=f,
                   sample="Binary::from(window.get(key).unwrap_or_default())")
        else:
            # the dump lists the whole window: one unbounded range over it (both bounds None), nothing filtered or cut,
            # and the collected range is the answer
            from rules.C01 import DENY_ADAPTERS
            rg = [(b, t) for b, t in reads if t["callee"]["name"] == "range"]
            okd = len(rg) == 1 and len(reads) == 1
            if okd:
                a = P.call_args(f, rg[0][1], rg[0][0])
                okd = all(peel(x)[0] == "agg" and peel(x)[1].endswith("Option::None") for x in a[1:3])
            cut = [t["callee"]["name"] for g in F.lexical(key) for b, t in g.calls() if t["callee"]["name"] in DENY_ADAPTERS and not t["callee"]["local"]]
            okd = okd and not cut and contains(P.ret(f), lambda x: x[0] == "call" and x[1] == "cosmwasm_std::Storage::range")
            ctx.ob(R, key, "dump-is-the-whole-window", okd, "dump_wasm_raw does not answer range(None, None, ..) of the contract's window, unfiltered (%s)" % (cut or "bounds"), fn=f,
                   sample="window.range(None, None, Ascending).collect()")
    for key, callee, stmut in (("app::App::contract_storage", "wasm::Wasm::contract_storage", False),
                               ("app::App::contract_storage_mut", "wasm::Wasm::contract_storage_mut", True)):
        f = ctx.need_fn(R, key)
        if f is None:
            continue
        cs = q.calls(f, callee)
        ok = len(cs) == 1
        if ok:
            a = P.call_args(f, cs[0][1], cs[0][0])
            s = peel(a[1])
            ok = s[0] == "field" and s[2] == "storage" and is_param(s[1], "self") and is_param(a[2], "contract_addr")
            w = peel(a[0])
            ok = ok and w[0] == "field" and w[2] == "wasm"
        ctx.ob(R, key, "App-accessor-uses-same-window", ok, "%s does not delegate to %s(self.storage, contract_addr)" % (key, callee), fn=f,
               sample="%s(&self.storage, contract_addr)" % callee.rsplit("::", 1)[1])
    # WasmQuery::Raw -> query_raw(addr_validate(contract_addr)?, storage, key)
    key = "<wasm::WasmKeeper as wasm::Wasm>::query"
    f = ctx.need_fn(R, key)
    if f is not None:
        cs = q.calls(f, "wasm::WasmKeeper::query_raw")
        ok = len(cs) == 1
        d = "?"
        if ok:
            b, t = cs[0]
            a = P.call_args(f, t, b)
            ad = peel(a[1])
            d = fmt(ad)[:120]
            ok = ad[0] == "ok" and contains(ad[1], lambda x: x[0] == "call" and x[1].endswith("Api::addr_validate") and
                                            contains(x[2][1], lambda y: is_param_field(y, "request", "contract_addr")))
            ok = ok and is_param(a[2], "storage") and just(a[3], lambda y: is_param_field(y, "request", "key"))
            conds = q.dominating_conditions(P, f, b)
            ok = ok and any(c[0] == "variant_in" and c[2] == ("Raw",) for e, c in conds)
            # the validated address must come from the Raw variant's own field
            ok = ok and contains(ad[1], lambda x: x[0] == "variant" and x[2] == "Raw")
        ctx.ob(R, key, "raw-query-reads-the-queried-contract", ok, "WasmQuery::Raw reads storage of %s" % d, fn=f, sample=d)
    for key in ("wasm::Wasm::contract_storage", "wasm::Wasm::contract_storage_mut"):
        f = ctx.need_fn(R, key)
        if f is None:
            continue
        ret = P.ret(f)
        ok = contains(ret, lambda x: x[0] == "call" and x[1] in VIEW_CTORS and is_param(x[2][0], "storage"))
        ctx.ob(R, key, "window-over-given-store", ok, "%s does not return a view over its storage parameter" % key, fn=f,
               sample="multilevel(storage, [..])")
