"""C02 — a failed sub-message leaves no trace; caught only per reply_on (DESIGN.md §5 C02)."""
from vlib import q
from vlib.prov import peel, fmt, is_param, contains, alts, deep_peel
from rules import submsg

LEVEL = "other"
EXPLANATION = (
    "Static analysis of MIR facts: the sub-message dispatch in WasmKeeper::execute_submsg runs inside a "
    "`transactional` cache of the parent's storage (provenance of the storage operand), a finite-domain path "
    "enumeration over (outcome of the cache transaction x reply_on) yields the absorb/propagate decision table on all "
    "CFG paths, errors of execute_submsg propagate through the try_fold in process_response, and every contract call "
    "runs in its own cache (with_storage). The recursion execute_submsg -> router.execute -> ... -> process_response "
    "-> execute_submsg is structural, so the table holds for every tree and failure set."
    " (R5) The reply mode acted on is the one the contract chose: lifting of Empty-typed sub-messages carries reply_on/id/payload/gas_limit over unchanged (C17's obligations under C02's id)."
)
TRUSTED = ["rustc type/borrow checker and MIR construction", "cwmt-facts driver", "vlib (provenance, path enumeration)",
           "C01.R3 (transactional commits only on Ok)", "Storage semantics of the overlay (C06)"]
ASSUMPTIONS = ["user-supplied router/modules are opaque; only the default dispatch chain is analysed"]

KEY = submsg.KEY
W = "wasm::WasmKeeper::"
EXEC = ("app::CosmosRouter", "execute")


def _is_param_storage(o):
    return is_param(o, "storage")


def check(ctx, cfg):
    r1(ctx, cfg)
    r2(ctx, cfg)
    r3(ctx, cfg)
    r4(ctx, cfg)
    r5(ctx, cfg)
    r6(ctx, cfg)
    r_overlay(ctx, cfg)


def r_overlay(ctx, cfg):
    """premise shared with C06 (the transaction overlay is faithful), under this property's id: a sub-message's effects are kept or dropped as one by committing or dropping an overlay of this kind; what the next sibling and the reply handler see is read through it"""
    from rules import C06
    C06.overlay_premise(ctx, cfg, "C02.R7")


def r6(ctx, cfg, R="C02.R6"):
    """"absorbed exactly when ... the reply handler succeeds; otherwise the parent fails as a whole" needs two things outside the
    decision table of execute_submsg:
    - a reply that fails is a failure of the sub-message, on the success path as well: the error of every `reply(..)` call in
      execute_submsg leaves the function as an error (an `Err(_) => carry on` arm commits a half-applied reply subtree);
    - a handler that does not exist has not succeeded: `ContractWrapper`'s optional entry points (sudo, reply, migrate) produce
      a success only by calling the closure that was supplied - the `None` arm is an error."""
    F, P = cfg.facts, cfg.prov
    key = W + "execute_submsg"
    n = 0
    for g in F.lexical(key):
        for b, t in g.calls():
            if t["callee"]["key"] == W + "reply":
                n += 1
                ctx.ob(R, key, "reply-error-propagates#%d" % n, q.error_propagates(P, g, b), "the error of reply(..) at line %s does not leave execute_submsg as an error" % t["line"],
                       fn=g, line=t["line"], sample="self.reply(..)? / returned as it is")
    ctx.ob(R, key, "reply-sites", n >= 1, "no reply call found in execute_submsg", sample=str(n))
    for name, fld in (("sudo", "sudo_fn"), ("reply", "reply_fn"), ("migrate", "migrate_fn")):
        k2 = "<contracts::ContractWrapper as contracts::Contract>::%s" % name
        f = ctx.need_fn(R, k2)
        if f is None:
            continue
        def supplied(conds):
            return any(c[0] == "variant_in" and c[2] == ("Some",) and contains(c[1], lambda x: x[0] == "field" and x[2] == fld and is_param(x[1], "self")) for e, c in conds)
        out = q.successes_outside(P, f, supplied)
        ctx.ob(R, k2, "missing-entry-point-is-an-error", not out, "ContractWrapper::%s can produce a success at block(s) %s although no %s closure was supplied" % (name, out, name),
               fn=f, sample="None => bail!(..)")


def r5(ctx, cfg):
    """"absorbed exactly when the sub-message was sent with reply_on Error or Always": the reply mode execute_submsg acts on
    is the one the contract chose - for contracts written against `Empty` the sub-message passes through customize_msg first,
    which must carry reply_on (and id, payload, gas_limit) over unchanged (premise shared with C03 / C17)"""
    from rules import C17
    C17.submsg_fields(ctx, cfg, "C02.R5")


def r1(ctx, cfg, R="C02.R1"):
    F, P = cfg.facts, cfg.prov
    f = ctx.need_fn(R, KEY)
    if f is None:
        return
    ex = q.lexical_calls(F, KEY, EXEC)
    ctx.ob(R, KEY, "one-dispatch-site", len(ex) == 1, "expected exactly one CosmosRouter::execute site, found %d" % len(ex),
           fn=f, sample="1 site")
    for g, bid, t in ex:
        args = P.call_args(g, t, bid)
        inside = g.kind == "closure"
        use = P.closure_use(g) if inside else None
        in_tx = bool(use) and use[2]["callee"]["key"] == submsg.TRANSACTIONAL and use[0].key == KEY
        ctx.ob(R, KEY, "dispatch-inside-transactional-closure", in_tx,
               "router.execute for the sub-message is not inside the closure passed to `transactional`", fn=g,
               line=t["line"], sample="closure passed to transactional")
        st = peel(args[2]) if len(args) > 2 else ("unknown", "")
        ok = st[0] == "bound" and st[1] == "cache_of" and _is_param_storage(st[2])
        ctx.ob(R, KEY, "dispatch-storage-is-cache-of-parent", ok,
               "sub-message executes on %s, expected cache_of(param storage)" % fmt(st), fn=g, line=t["line"],
               sample=fmt(st))
        # what the cache layer commits or drops on, and what the reply logic sees, is the router's verdict and nothing else:
        # no other source of failure (a pre-check consulting the keeper's own tables, say) sits between the sub-message and
        # the module configured for it
        if inside:
            rets = [o for o in alts(peel(P.ret(g)))]
            okr = len(rets) == 1 and rets[0][0] == "call" and len(rets[0]) > 4 and rets[0][4] == (g.key, bid)
            ctx.ob(R, KEY, "dispatch-closure-returns-the-router's-verdict", okr,
                   "the closure passed to `transactional` can return something other than the result of router.execute: %s" % fmt(P.ret(g))[:200],
                   fn=g, line=t["line"], sample="|cache, _| router.execute(api, cache, block, contract, msg)")
        m = peel(args[5]) if len(args) > 5 else ("unknown", "")
        ok = m[0] == "field" and m[2] == "msg" and is_param(m[1], "msg")
        ctx.ob(R, KEY, "dispatch-msg-is-submsg.msg", ok, "dispatched message is %s" % fmt(m), fn=g, line=t["line"],
               sample=fmt(m))
    # who else receives the parent's storage mutably
    others = []
    n_tx = 0
    for g in F.lexical(KEY):
        for bid, t in g.calls():
            c = t["callee"]
            args = P.call_args(g, t, bid)
            for i, ty in enumerate(c.get("inputs", [])):
                if i < len(args) and q.is_storage_ty(ty) and _is_param_storage(args[i]):
                    if c["key"] == submsg.TRANSACTIONAL:
                        n_tx += 1
                    elif c["key"] == submsg.REPLY:
                        pass
                    else:
                        others.append("%s (line %d)" % (c["key"], t["line"]))
    ctx.ob(R, KEY, "parent-storage-only-to-transactional-and-reply", not others and n_tx == 1,
           "parent storage also handed to %s; transactional calls on it: %d" % (others, n_tx), fn=f,
           sample="transactional x1, reply only")


def r2(ctx, cfg, R="C02.R2", only=None):
    a = submsg.analyse(cfg)
    if a is None:
        ctx.fail(R, KEY, "anchor-missing", "execute_submsg not found")
        return
    f = a["fn"]
    for p in a["problems"]:
        ctx.fail(R, KEY, "unrecognised-idiom", p, fn=f)
    for (oc, ro), seqs in sorted(a["table"].items()):
        inst = "cell(%s,%s)" % (oc, ro)
        if only is not None and not only(oc, ro):
            continue
        if not seqs:
            ctx.fail(R, KEY, inst, "no path for this cell (unrecognised idiom)", fn=f)
            continue
        bad = []
        for s in seqs:
            kinds = [e for e in s if isinstance(e, tuple) and e[0] in ("reply", "reply+ret", "ret")]
            nrep = submsg.count_replies(s)
            rets = [e for e in s if isinstance(e, tuple) and e[0] in ("ret", "reply+ret")]
            last = rets[-1] if rets else None
            if "<loop>" in [e[0] if isinstance(e, tuple) else e for e in s]:
                bad.append("loop on path: " + submsg.fmt_seq(s))
                continue
            if oc == "Err" and ro in ("Success", "Never"):
                ok = nrep == 0 and last == ("ret", "Err(e)")
                want = "no reply, return Err(e) with e the sub-message's error"
            elif oc == "Err":
                ok = nrep == 1 and last is not None and last[0] == "reply+ret"
                want = "exactly one reply whose result is the return value"
            else:
                ok = last in (("ret", "Ok(r)"), ("ret", "propagate-reply-error"))
                if last == ("ret", "propagate-reply-error"):
                    ok = ok and nrep == 1
                want = "Ok(r) or the propagated error of reply"
            if not ok:
                bad.append("%s (expected: %s)" % (submsg.fmt_seq(s), want))
        ctx.ob(R, KEY, inst, not bad, "; ".join(bad), fn=f,
               sample="%d paths: %s" % (len(seqs), " || ".join(sorted(submsg.fmt_seq(s) for s in seqs))[:300]))


def r3(ctx, cfg):
    F, P = cfg.facts, cfg.prov
    R = "C02.R3"
    key = "wasm::WasmKeeper::process_response"
    f = ctx.need_fn(R, key)
    if f is None:
        return
    sub = q.lexical_calls(F, key, KEY)
    ctx.ob(R, key, "one-execute_submsg-site", len(sub) == 1, "expected one execute_submsg site, found %d" % len(sub), fn=f,
           sample="1")
    if len(sub) != 1:
        return
    g, bid, t = sub[0]
    args = P.call_args(g, t, bid)
    st = args[3] if len(args) > 3 else ("unknown", "")
    ctx.ob(R, key, "submsg-gets-parent-storage", is_param(st, "storage"),
           "execute_submsg receives %s, expected process_response's own storage" % fmt(st), fn=g, line=t["line"],
           sample=fmt(st))
    # the error of execute_submsg leaves process_response as an error: no Err/Break edge of its result leads back into
    # the loop or to an Ok return (`try_fold(|..| { execute_submsg(..)?; .. })?` and `for m in msgs { execute_submsg(..)?; }`
    # are the same loop after vlib/inline.py A9/A10)
    ef = q.error_fate(P, g, bid)
    ctx.ob(R, key, "submsg-error-propagates-from-fold-closure", bool(ef["edges"]) and not ef["continues"],
           "a failed execute_submsg does not stop the iteration over the sub-messages (error edges: %d, back to the loop: %s)" % (len(ef["edges"]), ef["continues"]),
           fn=g, line=t["line"], sample="%d error edge(s), none reaches next()" % len(ef["edges"]))
    ok = g.key == key and bool(ef["edges"]) and not ef["ok_reachable"]
    ret = P.ret(f)
    ok = ok and contains(ret, lambda x: x[0] == "call" and x[1].endswith("FromResidual::from_residual") and len(x[2]) == 1 and
                         peel(x[2][0])[0] == "err" and peel(peel(x[2][0])[1])[0] == "call" and peel(peel(x[2][0])[1])[1] == KEY)
    ctx.ob(R, key, "fold-error-propagates", ok, "the error of a sub-message is not what process_response returns (Ok reachable from its error edge: %s)" % ef["ok_reachable"], fn=f,
           sample="returns from_residual(err(execute_submsg(..)))")
    # sub_messages iterated in order: no deny-listed adapter in the lexical body
    from rules.C01 import DENY_ADAPTERS
    bad = []
    for h in F.lexical(key):
        for b2, t2 in h.calls():
            c = t2["callee"]
            if c["name"] in DENY_ADAPTERS and not c["local"]:
                bad.append("%s (line %d)" % (c["key"], t2["line"]))
    ctx.ob(R, key, "sub-messages-in-listed-order", not bad, "order-changing adapter: %s" % bad, fn=f, sample="none")


def r4(ctx, cfg):
    F, P = cfg.facts, cfg.prov
    R = "C02.R4"
    key = "wasm::WasmKeeper::with_storage"
    f = ctx.need_fn(R, key)
    if f is None:
        return
    tx = q.lexical_calls(F, key, submsg.TRANSACTIONAL)
    ok = len(tx) == 1 and tx[0][0].key == key and is_param(P.call_args(f, tx[0][2], tx[0][1])[0], "storage")
    ctx.ob(R, key, "contract-call-in-own-cache", ok, "with_storage must wrap its storage parameter in one transactional call",
           fn=f, sample="transactional(param storage, ..)")
    aggs = []
    for g in F.lexical(key):
        for bid, i, st in g.stmts():
            rv = st.get("rv", {})
            if st["k"] == "assign" and rv.get("k") == "aggregate" and rv.get("adt") == "cosmwasm_std::DepsMut":
                aggs.append((g, bid, i, st))
    ctx.ob(R, key, "one-DepsMut", len(aggs) == 1, "expected one DepsMut aggregate, found %d" % len(aggs), fn=f, sample="1")
    for g, bid, i, st in aggs:
        o = P.rvalue(g, st["rv"], (bid, i))
        so = peel(dict(o[2]).get("storage", ("unknown", "")))
        ok = so[0] == "call" and so[1].endswith("Wasm::contract_storage_mut") and len(so[2]) >= 3
        if ok:
            cache = peel(so[2][1])
            ok = cache[0] == "bound" and cache[1] == "cache_of" and is_param(cache[2], "storage")
            ok = ok and is_param(so[2][2], "address")
        ctx.ob(R, key, "DepsMut.storage=contract_storage_mut(cache,address)", ok,
               "DepsMut.storage is %s" % fmt(so)[:200], fn=g, line=st["line"], sample=fmt(so)[:200])
    # the contract closure is invoked inside the transaction closure, and its result is what is returned
    once = [(g, b, t) for (g, b, t) in q.lexical_calls(F, key, ("std::ops::FnOnce", "call_once"))]
    ok = len(once) == 1 and once[0][0].kind == "closure"
    if ok:
        g, b, t = once[0]
        a = P.call_args(g, t, b)
        ok = is_param(a[0], "action") and t["dst"]["l"] == 0
    ctx.ob(R, key, "action-runs-inside-cache-and-is-returned", ok, "contract action is not run inside the cache closure",
           fn=f, sample="action(handler, deps, env) is the closure's result")
