"""C17 — every message and query reaches exactly the module configured for it (DESIGN.md §5 C17)."""
from vlib import q
from vlib.cfg import cfg_of
from vlib.prov import peel, fmt, is_param, contains, alts, deep_peel, same_origin, is_param_field, strip_adapters, just
from vlib.uses import dropped_results

LEVEL = "other"
EXPLANATION = (
    "Static analysis of MIR facts per feature configuration: the execute / query / sudo dispatch tables of Router "
    "(variant -> self.<module>.<method> with the function's own api, storage, block, sender, router = self, the "
    "variant's payload, and the call's result as return value; unrouted variants reach only an error); the querier "
    "round-trip; sibling agreement between routing and the lifting of Empty-typed contracts (customize_msg must map "
    "every routed CosmosMsg variant to the same variant with the same payload, carry id/payload/gas_limit/reply_on, "
    "customize_response must carry messages/events/attributes/data); constant modules return only Err / only Ok; "
    "error discipline in the routing files. User-supplied modules are opaque."
    " (R7) The sender of messages emitted by a contract is that contract (C05.R4 dispatch obligations and C03.R3 under C17's id); (R8) a failed dispatch is returned as it is unless the sub-message asked for a reply on error (the failure cells of the execute_submsg table under C17's id)."
)
TRUSTED = ["rustc MIR construction", "cwmt-facts driver", "vlib (dominators, provenance)", "C01.R2/C02.R1 (a failing module aborts like any error)"]
ASSUMPTIONS = ["user-supplied modules are opaque"]

ROUTER = "<app::Router as app::CosmosRouter>::"


def exec_table(cfg):
    t = {"Wasm": ("wasm", "wasm::Wasm", "execute"), "Bank": ("bank", "module::Module", "execute"), "Custom": ("custom", "module::Module", "execute")}
    if cfg.has("staking"):
        t["Staking"] = ("staking", "module::Module", "execute")
        t["Distribution"] = ("distribution", "module::Module", "execute")
    if cfg.has("stargate"):
        t["Ibc"] = ("ibc", "module::Module", "execute")
        t["Gov"] = ("gov", "module::Module", "execute")
        t["Stargate"] = ("stargate", "stargate::Stargate", "execute_stargate")
    if cfg.has("cosmwasm_2_0"):
        t["Any"] = ("stargate", "stargate::Stargate", "execute_any")
    return t


def query_table(cfg):
    t = {"Wasm": ("wasm", "wasm::Wasm", "query"), "Bank": ("bank", "module::Module", "query"), "Custom": ("custom", "module::Module", "query")}
    if cfg.has("staking"):
        t["Staking"] = ("staking", "module::Module", "query")
    if cfg.has("stargate"):
        t["Ibc"] = ("ibc", "module::Module", "query")
        t["Stargate"] = ("stargate", "stargate::Stargate", "query_stargate")
    if cfg.has("cosmwasm_2_0"):
        t["Grpc"] = ("stargate", "stargate::Stargate", "query_grpc")
    if cfg.has("cosmwasm_1_3"):
        # (a query kind of cosmwasm-std since 1.3; the application is built with a distribution module - known finding: no arm)
        t["Distribution"] = ("distribution", "module::Module", "query")
    return t


def sudo_table(cfg):
    t = {"Wasm": ("wasm", "wasm::Wasm", "sudo"), "Bank": ("bank", "module::Module", "sudo")}
    if cfg.has("staking"):
        t["Staking"] = ("staking", "module::Module", "sudo")
    # (`SudoMsg::Custom` is a variant of the crate's own enum and the custom module has a `sudo` - known finding: no arm)
    t["Custom"] = ("custom", "module::Module", "sudo")
    return t


def check(ctx, cfg):
    r_route(ctx, cfg, "execute", exec_table(cfg), "msg", "C17.R1")
    r_route(ctx, cfg, "query", query_table(cfg), "request", "C17.R2")
    r_route(ctx, cfg, "sudo", sudo_table(cfg), "msg", "C17.R2")
    r3(ctx, cfg)
    r4(ctx, cfg)
    r5(ctx, cfg)
    r6(ctx, cfg)
    r7(ctx, cfg)
    r8(ctx, cfg)
    r9(ctx, cfg)
    r10(ctx, cfg)
    r11(ctx, cfg)
    r12(ctx, cfg)
    r13(ctx, cfg)


WRAPPER_METHODS = (("execute", ("deps", "env", "info"), "msg"), ("instantiate", ("deps", "env", "info"), "msg"), ("query", ("deps", "env"), "msg"),
                   ("sudo", ("deps", "env"), "msg"), ("reply", ("deps", "env"), None), ("migrate", ("deps", "env"), "msg"))


def r13(ctx, cfg, R="C17.R13", only=None):
    """the last hop of every delivery: `ContractWrapper`'s implementation of `Contract` hands over to the function the test author
    supplied.  For each of execute / instantiate / query / sudo / reply / migrate: whatever the method answers on success is the
    answer of `self.<m>_fn` called with the method's own `deps`, `env`, [`info`] and the message - `from_json(msg)?` of its own
    `msg` bytes, resp. the `Reply` it was given - and nothing else (no answer made up for some ids, no entry point skipped)."""
    F, P = cfg.facts, cfg.prov
    for name, fixed, raw in WRAPPER_METHODS:
        if only is not None and name not in only:
            continue
        key = "<contracts::ContractWrapper as contracts::Contract>::%s" % name
        f = ctx.need_fn(R, key)
        if f is None:
            continue
        vals = q.success_payloads(P, f)
        bad = []
        for v in vals:
            o = peel(v)
            c = peel(o[1]) if o[0] == "ok" else ("?",)
            ok = c[0] == "call" and c[1] in ("std::ops::Fn::call", "std::ops::FnMut::call_mut", "std::ops::FnOnce::call_once") and len(c[2]) == 2
            if ok:
                fn_o = peel(c[2][0])
                while fn_o[0] == "some":
                    fn_o = peel(fn_o[1])
                tup = peel(c[2][1])
                ok = is_param_field(fn_o, "self", name + "_fn") and tup[0] == "agg" and tup[1] == "tuple" and len(tup[2]) == len(fixed) + 1
            if ok:
                args = [a for _, a in tup[2]]
                ok = all(is_param(a, n) for a, n in zip(args, fixed))
                last = peel(args[-1])
                if raw is None:
                    ok = ok and just(args[-1], lambda y: y[0] == "param" and y[2] in ("reply_data", "reply", "msg"))
                else:
                    d = peel(last[1]) if last[0] == "ok" else ("?",)
                    while d[0] == "call" and d[1] == "std::result::Result::map_err" and d[2]:
                        d = peel(d[2][0])       # (`from_json(msg).map_err(AnyError::from)`: the same Ok payload)
                    ok = ok and d[0] == "call" and d[1] == "cosmwasm_std::from_json" and len(d[2]) == 1 and is_param(d[2][0], raw)
            if not ok:
                bad.append(fmt(o)[:160])
        ctx.ob(R, key, "answers-what-the-supplied-function-answers", bool(vals) and not bad,
               "ContractWrapper::%s can answer %s" % (name, bad or "nothing"), fn=f,
               sample="self.%s_fn(%s, %s)" % (name, ", ".join(fixed), "from_json(msg)?" if raw else "reply"))


def r12(ctx, cfg):
    """"with its payload intact" down to the contract: the bytes a contract entry point receives are the bytes of the message - the
    `msg` argument of each call_execute / call_instantiate / call_sudo / call_reply / call_migrate is the message's own field
    as it is, and each call_X invokes `Contract::X(handler, deps, env, [info,] msg)` with its own `info` / `msg` parameters"""
    F, P = cfg.facts, cfg.prov
    R = "C17.R12"
    W = "wasm::WasmKeeper::"
    def fld(owner, name, arm=None):
        def pred(y):
            y = peel(y)
            if not (y[0] == "field" and y[2] == name):
                return False
            b = peel(y[1])
            if arm is not None:
                return b[0] == "variant" and b[2] == arm and is_param(b[1], owner)
            return is_param(b, owner)
        return pred
    sites = [(W + "execute_wasm", W + "call_execute", fld("msg", "msg", "Execute")),
             (W + "process_wasm_msg_instantiate", W + "call_instantiate", lambda y: is_param(y, "msg")),
             ("<wasm::WasmKeeper as wasm::Wasm>::sudo", W + "call_sudo", fld("msg", "message")),
             (W + "reply", W + "call_reply", lambda y: is_param(y, "reply")),
             (W + "execute_wasm", W + "call_migrate", fld("msg", "msg", "Migrate"))]
    for caller, callee, pred in sites:
        f = ctx.need_fn(R, caller)
        if f is None:
            continue
        cs = q.calls(f, callee)
        ok = len(cs) == 1 and just(P.call_args(f, cs[0][1], cs[0][0])[-1], pred)
        ctx.ob(R, caller, "%s-gets-the-message-as-it-is" % callee.rsplit("::", 1)[-1], ok,
               "%s does not hand the message's own bytes to %s" % (caller.rsplit("::", 1)[-1], callee.rsplit("::", 1)[-1]), fn=f, sample="msg.to_vec()")
    for name, extra in (("execute", ("info", "msg")), ("instantiate", ("info", "msg")), ("sudo", ("msg",)), ("reply", ("reply",)), ("migrate", ("msg",))):
        key = W + "call_" + name
        f = ctx.need_fn(R, key)
        if f is None:
            continue
        cs = [(g, b, t) for g in F.lexical(key) for b, t in g.calls() if t["callee"]["key"] == "contracts::Contract::" + name]
        ok = len(cs) == 1
        if ok:
            g, b, t = cs[0]
            a = P.call_args(g, t, b)
            ok = len(a) == 3 + len(extra) and all(is_param(x, n) for x, n in zip(a[3:], extra))
        ctx.ob(R, key, "entry-point-invoked-with-own-%s" % "+".join(extra), ok, "call_%s does not invoke Contract::%s(handler, deps, env, %s)" % (name, name, ", ".join(extra)), fn=f,
               sample="handler.%s(deps, env, %s)" % (name, ", ".join(extra)))


def r11(ctx, cfg):
    """the helpers most users send their messages with - the provided methods of `Executor` - build the message from their own
    arguments as they are, send it as the `sender` they were given through `execute`, propagate its verdict, and read their
    answer out of that call's response (the new address from the instantiate envelope, the contract's data from the execute
    envelope): a helper that drops the admin, the funds or the label, or sends as somebody else, breaks what the properties
    are observed through"""
    F, P = cfg.facts, cfg.prov
    R = "C17.R11"
    def p_(name):
        return lambda o: just(o, lambda y: y[0] == "param" and y[2] == name)
    def json_of(name):
        def pred(o):
            o = peel(o)
            return o[0] == "ok" and peel(o[1])[0] == "call" and peel(o[1])[1] == "cosmwasm_std::to_json_binary" and is_param(peel(o[1])[2][0], name)
        return pred
    table = {
        "instantiate_contract": ("cosmwasm_std::WasmMsg::Instantiate", {"admin": p_("admin"), "code_id": p_("code_id"), "msg": json_of("init_msg"), "funds": p_("send_funds"), "label": p_("label")}, "address"),
        "execute_contract": ("cosmwasm_std::WasmMsg::Execute", {"contract_addr": p_("contract_addr"), "msg": json_of("msg"), "funds": p_("send_funds")}, "data"),
        "migrate_contract": ("cosmwasm_std::WasmMsg::Migrate", {"contract_addr": p_("contract_addr"), "msg": json_of("msg"), "new_code_id": p_("new_code_id")}, "as-is"),
        "send_tokens": ("cosmwasm_std::BankMsg::Send", {"to_address": p_("recipient"), "amount": p_("amount")}, "as-is"),
    }
    if cfg.has("cosmwasm_1_2"):
        table["instantiate2_contract"] = ("cosmwasm_std::WasmMsg::Instantiate2", {"admin": p_("admin"), "code_id": p_("code_id"), "msg": json_of("init_msg"), "funds": p_("funds"),
                                                                                  "label": p_("label"), "salt": p_("salt")}, "address")
    for name, (variant, fields, answer) in sorted(table.items()):
        key = "executor::Executor::" + name
        f = ctx.need_fn(R, key)
        if f is None:
            continue
        ex = [(g, b, t) for g in F.lexical(key) for b, t in g.calls() if t["callee"]["key"] == "executor::Executor::execute"]
        ok = len(ex) == 1 and ex[0][0].key == key
        d = "expected one self.execute(..) call, found %d" % len(ex)
        if ok:
            g, b, t = ex[0]
            a = P.call_args(g, t, b)
            m = peel(a[2])
            bad = []
            if not is_param(a[1], "sender"):
                bad.append("sender")
            if not (m[0] == "agg" and m[1] == variant):
                bad.append("message kind %s" % (m[1] if m[0] == "agg" else m[0]))
            else:
                dd = dict(m[2])
                bad += [k for k, pred in fields.items() if k not in dd or not pred(dd[k])]
                bad += ["extra field %s" % k for k in dd if k not in fields]
            if not q.error_propagates(P, g, b):
                bad.append("verdict not propagated")
            ok = not bad
            d = "%s is not self.execute(sender, %s { %s }): %s" % (name, variant.rsplit("::", 2)[-2] + "::" + variant.rsplit("::", 1)[-1], ", ".join(fields), bad)
        ctx.ob(R, key, "sends-its-own-arguments-as-its-sender", ok, d, fn=f, sample="%s{%s} from sender" % (variant.rsplit("::", 1)[-1], ", ".join(fields)))
        if ok:
            def from_exec(o):
                return contains(o, lambda x: x[0] == "call" and x[1] == "executor::Executor::execute")
            vals = [v for site, v in q.success_return_sites(P, f)]
            if answer == "as-is":
                oka = bool(vals) and all(peel(v)[0] == "call" and peel(v)[1] == "executor::Executor::execute" or
                                         (peel(v)[0] == "agg" and peel(v)[1].endswith("Result::Ok") and peel(peel(v)[2][0][1])[0] == "ok" and from_exec(peel(v)[2][0][1])) for v in vals)
                want = "self.execute(..) as it is"
            elif answer == "address":
                oka = bool(vals) and all(contains(v, lambda x: x[0] == "field" and x[2] == "contract_address" and
                                                  contains(x[1], lambda y: y[0] == "call" and y[1] == "cw_utils::parse_instantiate_response_data" and
                                                           contains(y[2][0], lambda z: z[0] == "field" and z[2] == "data" and from_exec(z[1])))) for v in vals)
                want = "the contract_address of the instantiate envelope in the response's data"
            else:
                oka = bool(vals) and all(from_exec(v) and contains(v, lambda x: x[0] == "field" and x[2] == "data" and
                                                                   contains(x[1], lambda y: y[0] == "call" and y[1] == "cw_utils::parse_execute_response_data")) for v in vals)
                want = "the response with its data unwrapped from the execute envelope"
            ctx.ob(R, key, "answers-from-that-call's-response", oka, "%s does not answer %s" % (name, want), fn=f, sample=want)


def r10(ctx, cfg):
    """"each kind of ... query ... is handed, with its payload intact, to the module ... for that kind" - and on to the contract: the
    Smart arm of the wasm module's query hands (validated contract_addr, api, storage, querier, block, msg as it is) to
    query_smart, which runs `handler.query(deps, env, msg)` with that very message on the window / Env of that address"""
    F, P = cfg.facts, cfg.prov
    R = "C17.R10"
    key = "<wasm::WasmKeeper as wasm::Wasm>::query"
    f = ctx.need_fn(R, key)
    if f is not None:
        def reqf(o, name):
            o = peel(o)
            return o[0] == "field" and o[2] == name and peel(o[1])[0] == "variant" and peel(o[1])[2] == "Smart" and is_param(peel(o[1])[1], "request")
        cs = q.calls(f, "wasm::WasmKeeper::query_smart")
        ok = len(cs) == 1
        if ok:
            a = P.call_args(f, cs[0][1], cs[0][0])
            ad = peel(a[1])
            # the Ok payload of addr_validate(contract_addr), possibly with its error converted on the way (`.map_err(..)`, `?`)
            calls = []
            contains(ad, lambda x: calls.append(x[1]) if x[0] == "call" else False)
            ok = ad[0] == "ok" and contains(ad[1], lambda x: x[0] == "call" and x[1].endswith("Api::addr_validate") and just(x[2][1], lambda y: reqf(y, "contract_addr"))) and \
                all(c.endswith("Api::addr_validate") or c.rsplit("::", 1)[-1] in ("map_err", "from", "into") for c in calls) and \
                is_param(a[2], "api") and is_param(a[3], "storage") and is_param(a[4], "querier") and is_param(a[5], "block") and just(a[6], lambda y: reqf(y, "msg"))
        ctx.ob(R, key, "Smart-query-handed-on-intact", ok, "the Smart arm does not call query_smart(validated contract_addr, api, storage, querier, block, msg)", fn=f,
               sample="query_smart(addr, api, storage, querier, block, msg.into())")
    k2 = "wasm::WasmKeeper::query_smart"
    g = ctx.need_fn(R, k2)
    if g is not None:
        qs = [(h, b, t) for h in F.lexical(k2) for b, t in h.calls() if t["callee"]["key"] == "contracts::Contract::query"]
        ok = len(qs) == 1
        if ok:
            # (called in place or in a closure handed to a wrapper: what it receives is what counts)
            h, b, t = qs[0]
            a = P.call_args(h, t, b)
            dp, ev = peel(a[1]), peel(a[2])
            dd = dict(dp[2]) if dp[0] == "agg" and dp[1].startswith("cosmwasm_std::Deps") else {}
            ed = dict(ev[2]) if ev[0] == "agg" and ev[1].startswith("cosmwasm_std::Env") else {}
            so, qo, ci = peel(dd.get("storage", ("?",))), peel(dd.get("querier", ("?",))), peel(ed.get("contract", ("?",)))
            ok = is_param(a[3], "msg") and \
                so[0] == "call" and so[1] == "wasm::Wasm::contract_storage" and is_param(so[2][1], "storage") and is_param(so[2][2], "address") and \
                qo[0] == "call" and qo[1] == "cosmwasm_std::QuerierWrapper::new" and is_param(qo[2][0], "querier") and \
                is_param(ed.get("block", ("?",)), "block") and ci[0] == "agg" and is_param(dict(ci[2]).get("address", ("?",)), "address")
        ctx.ob(R, k2, "contract-queried-with-the-message", ok,
               "query_smart does not run handler.query(deps, env, msg) on the window, querier, block and address it was given", fn=g,
               sample="handler.query(Deps{contract_storage(storage, address), api, querier}, Env{block, address}, msg)")


def r9(ctx, cfg):
    """"with its payload intact ... the module's success or failure is what the caller sees" for the one bank message the wasm module
    emits itself - the transfer of attached funds: `BankMsg::Send { to_address: recipient, amount }` with exactly the funds
    given goes to the router, is skipped only when there are none, and its error propagates (the C05.R2 obligations on
    WasmKeeper::send under C17's id; a "tidied" amount is a different message for a user-supplied bank module)"""
    from rules import C05
    C05.r2_send(ctx, cfg, R="C17.R9")


def r8(ctx, cfg):
    """"the module's success or failure is what the caller sees, and a failing module aborts the transaction like any other
    error" for messages emitted by contracts: the failure cells of the execute_submsg decision table (C02.R2) under C17's id -
    a failed dispatch is returned as it is unless the sub-message asked for a reply on error"""
    from rules import C02
    C02.r2(ctx, cfg, R="C17.R8", only=lambda oc, ro: oc == "Err")
    # ... and the dispatch itself hands the message to the router unconditionally and returns the router's verdict (C02.R1)
    C02.r1(ctx, cfg, R="C17.R8")


def r7(ctx, cfg):
    """"handed with sender ... intact" for messages emitted by a contract: the sender the module sees is the emitting
    contract - the callee whose response is being processed is the contract handed to process_response (C05.R4's dispatch
    obligations), which hands it to execute_submsg, which hands it to the router (C03.R3's) - under C17's id"""
    from rules import C03, C05
    C05.r4_dispatch(ctx, cfg, "C17.R7")
    C03.r3(ctx, cfg, R="C17.R7")


def _self_field(o, name):
    o = peel(o)
    return o[0] == "field" and o[2] == name and is_param(o[1], "self")


def r_route(ctx, cfg, method, table, pname, R):
    F, P = cfg.facts, cfg.prov
    key = ROUTER + method
    f = ctx.need_fn(R, key)
    if f is None:
        return
    cf = cfg_of(f)
    seen = {}
    module_traits = ("wasm::Wasm", "module::Module", "stargate::Stargate")
    for bid, t in f.calls():
        c = t["callee"]
        if c.get("trait") not in module_traits:
            continue
        conds = q.dominating_conditions(P, f, bid)
        arms = [cc[2][0] for e, cc in conds if cc[0] == "variant_in" and len(cc[2]) == 1 and is_param(cc[1], pname)]
        arm = arms[0] if len(arms) == 1 else None
        a = P.call_args(f, t, bid)
        if arm is None or arm not in table:
            ctx.fail(R, key, "unexpected-dispatch:%s.%s" % (c.get("trait"), c["name"]),
                     "%s::%s is called outside a known arm (arms: %s)" % (c.get("trait"), c["name"], arms), fn=f, line=t["line"])
            continue
        fld, tr, meth = table[arm]
        seen[arm] = seen.get(arm, 0) + 1
        ok_target = _self_field(a[0], fld) and c["trait"] == tr and c["name"] == meth
        ctx.ob(R, key, "%s->%s.%s" % (arm, fld, meth), ok_target,
               "%s is handed to %s via %s::%s, expected self.%s.%s" % (arm, fmt(a[0])[:40], c["trait"], c["name"], fld, meth), fn=f, line=t["line"],
               sample="self.%s.%s(..)" % (fld, meth))
        # arguments: own api / storage / block / sender, router = self (or querier over the same store), payload of that variant
        ins = [i["s"] for i in c.get("inputs", [])]
        ok = True
        why = []
        for i, (o, ty) in enumerate(zip(a, c.get("inputs", []))):
            if i == 0:
                continue
            s = ty["s"]
            if s.endswith("dyn cosmwasm_std::Api"):
                good = is_param(o, "api")
            elif q.is_storage_ty(ty):
                good = is_param(o, "storage")
            elif ty.get("pointee") == "cosmwasm_std::BlockInfo":
                good = is_param(o, "block")
            elif "dyn app::CosmosRouter" in s:
                good = is_param(o, "self")
            elif s.endswith("dyn cosmwasm_std::Querier"):
                rq = q.router_querier(o)
                good = rq is not None and is_param(rq["router"], "self") and is_param(rq["api"], "api") and \
                    is_param(rq["storage"], "storage") and is_param(rq["block_info"], "block")
            elif s == "cosmwasm_std::Addr":
                good = is_param(o, "sender")
            else:
                # payload: the variant's own field(s)
                good = contains(o, lambda x: x[0] in ("variant",) and x[2] == arm and is_param(x[1], pname)) or \
                    (peel(o)[0] == "field" and contains(o, lambda x: x[0] == "variant" and x[2] == arm))
                good = good and not contains(o, lambda x: x[0] == "variant" and x[2] != arm and is_param(x[1], pname))
            if not good:
                ok = False
                why.append("arg %d (%s) is %s" % (i, s[:40], fmt(o)[:60]))
        ctx.ob(R, key, "%s-arguments-intact" % arm, ok, "; ".join(why), fn=f, line=t["line"], sample="own api/storage/block%s, router=self, payload of %s" % ("/sender" if method == "execute" else "", arm))
        ctx.ob(R, key, "%s-result-is-return-value" % arm, t["dst"]["l"] == 0 and not t["dst"]["p"],
               "the result of the %s module call is not returned directly" % arm, fn=f, line=t["line"], sample="_0 = call")
    for arm in table:
        ctx.ob(R, key, "arm-present:%s" % arm, seen.get(arm, 0) == 1, "variant %s is dispatched %d times in config %s" % (arm, seen.get(arm, 0), cfg.name), fn=f,
               sample="1 dispatch")
    # every other way out: Err / diverge — no Ok aggregate is built here
    oks = []
    for bid, i, st in f.stmts():
        if st["k"] == "assign" and st["dst"]["l"] == 0 and not st["dst"]["p"]:
            o = peel(P.rvalue(f, st["rv"], (bid, i)))
            if not (o[0] == "agg" and o[1].endswith("Result::Err")):
                oks.append(fmt(o)[:80])
    ctx.ob(R, key, "unrouted-variants-only-fail", not oks, "Router::%s fabricates a result itself: %s" % (method, oks), fn=f, sample="only Err(..) besides module results")


def r3(ctx, cfg):
    F, P = cfg.facts, cfg.prov
    R = "C17.R3"
    key = "<app::RouterQuerier as cosmwasm_std::Querier>::raw_query"
    f = ctx.need_fn(R, key)
    if f is None:
        return
    qs = q.calls(f, ("app::CosmosRouter", "query"))
    ctx.ob(R, key, "one-router.query", len(qs) == 1, "expected one router.query call", fn=f, sample="1")
    if len(qs) != 1:
        return
    bid, t = qs[0]
    # result converted without dropping the error: flows into the returned SystemResult::Ok(contract_result)
    ret = P.ret(f)
    # the payload is the router's result converted with Into (value-preserving), nothing else in between
    def is_q(x):
        x = peel(x)
        return x[0] == "call" and x[1] == "app::CosmosRouter::query"

    def converted(pl):
        """the router's Result turned into a ContractResult: by `.into()` (value-preserving) or by the match it abbreviates -
        Ok(b) => ContractResult::Ok(b), Err(e) => ContractResult::Err(e.to_string())"""
        pl = peel(pl)
        if is_q(pl):
            return True
        xs = alts(pl)
        oks = [x for x in xs if x[0] == "agg" and x[1].endswith("ContractResult::Ok") and peel(x[2][0][1])[0] == "ok" and is_q(peel(x[2][0][1])[1])]
        ers = [x for x in xs if x[0] == "agg" and x[1].endswith("ContractResult::Err") and
               contains(x[2][0][1], lambda y: y[0] == "err" and is_q(y[1])) and
               contains(x[2][0][1], lambda y: (y[0] == "call" and y[1].endswith("to_string")) or (y[0] == "vp" and y[1] == "to_string"))]
        return len(xs) == 2 and len(oks) == 1 and len(ers) == 1
    ok = contains(ret, lambda x: x[0] == "agg" and x[1].endswith("SystemResult::Ok") and converted(x[2][0][1]))
    ctx.ob(R, key, "module-answer-or-error-is-what-the-caller-sees", ok, "raw_query returns %s" % fmt(ret)[:200], fn=f,
           sample="SystemResult::Ok(router.query(..).into())")
    ctx.ob(R, key, "no-dropped-result", not dropped_results(f), "a result is dropped in raw_query", fn=f, sample="none")
    # a request that cannot be parsed is an InvalidRequest error, not silently answered
    errs = [st for g in F.lexical(key) for b, i, st in g.stmts() if st["k"] == "assign" and st["rv"].get("k") == "aggregate" and st["rv"].get("adt") == "cosmwasm_std::SystemError"]
    ctx.ob(R, key, "unparsable-request-is-an-error", len(errs) == 1 and errs[0]["rv"]["variant"] == "InvalidRequest", "expected an InvalidRequest error for parse failures", fn=f,
           sample="SystemError::InvalidRequest")


def routed_exec_variants(cfg):
    return set(exec_table(cfg))


def submsg_fields(ctx, cfg, R):
    """lifting a sub-message of an Empty-typed contract keeps its id, payload, gas limit and reply mode (shared with C03:
    `reply` is decided by the reply_on the contract chose)"""
    F, P = cfg.facts, cfg.prov
    key = "contracts::customize_msg"
    f = F.fn(key)
    if f is None:
        ctx.fail(R, key, "anchor-missing", "customize_msg not found")
        return
    aggs = [(b, i, st) for b, i, st in f.stmts() if st["k"] == "assign" and st["rv"].get("k") == "aggregate" and st["rv"].get("adt") == "cosmwasm_std::SubMsg"]
    ok = len(aggs) == 1
    if ok:
        b, i, st = aggs[0]
        d = dict(P.rvalue(f, st["rv"], (b, i))[2])
        for fld in ("id", "payload", "gas_limit", "reply_on"):
            ctx.ob(R, key, "SubMsg.%s-carried" % fld, is_param_field(d[fld], "msg", fld), "SubMsg.%s is %s" % (fld, fmt(d[fld])[:60]), fn=f, line=st["line"],
                   sample="msg.%s" % fld)
    else:
        ctx.fail(R, key, "SubMsg-aggregate", "expected one SubMsg aggregate, found %d" % len(aggs), fn=f)


def r4(ctx, cfg):
    msg_lift(ctx, cfg, "C17.R4")
    response_lift(ctx, cfg, "C17.R4")


def msg_lift(ctx, cfg, R):
    F, P = cfg.facts, cfg.prov
    key = "contracts::customize_msg"
    f = ctx.need_fn(R, key)
    if f is not None:
        # pass-through aggregates CosmosMsg::V{0: (msg.msg as V).0} dominated by the V edge
        mapped = set()
        for bid, i, st in f.stmts():
            rv = st.get("rv", {})
            if st["k"] == "assign" and rv.get("k") == "aggregate" and rv.get("adt") == "cosmwasm_std::CosmosMsg":
                v = rv["variant"]
                o = P.rvalue(f, rv, (bid, i))
                pays = [pv for _, pv in o[2]]
                ok = bool(pays) and all(contains(pv, lambda x: x[0] == "variant" and x[2] == v and contains(x[1], lambda y: y[0] == "field" and y[2] == "msg" and is_param(y[1], "msg")))
                                        for pv in pays)
                conds = q.dominating_conditions(P, f, bid)
                ok = ok and any(c[0] == "variant_in" and c[2] == (v,) for e, c in conds)
                if ok:
                    mapped.add(v)
                else:
                    ctx.fail(R, key, "lift-changes-message:%s" % v, "customize_msg builds CosmosMsg::%s from %s" % (v, [fmt(p)[:60] for p in pays]), fn=f, line=st["line"])
        # (`Custom(Empty {})` is a value a contract written against `Empty` can emit; on a chain whose custom message type is
        # `Empty` it is an ordinary custom message - known finding: the arm is `unreachable!()`)
        routed = routed_exec_variants(cfg)
        for v in sorted(routed):
            ctx.ob(R, key, "routed-variant-is-lifted:%s" % v, v in mapped,
                   "CosmosMsg::%s is routed by Router::execute in config %s but customize_msg has no pass-through arm for it "
                   "(a contract built with new_with_empty that emits it panics with \"unknown message variant\")" % (v, cfg.name), fn=f,
                   sample="CosmosMsg::%s(x) => CosmosMsg::%s(x)" % (v, v))
        submsg_fields(ctx, cfg, R)


def response_lift(ctx, cfg, R):
    """what a contract written against `Empty` answers reaches the chain as it is: `customize_response` carries the data (absent
    stays absent), every event, every attribute and every sub-message (through customize_msg) of the response over, in order"""
    F, P = cfg.facts, cfg.prov
    key = "contracts::customize_response"
    f = ctx.need_fn(R, key)
    if f is not None:
        ret = P.ret(f)

        def carries(name, how):
            return contains(ret, how)
        # every sub-message of the response goes through customize_msg, none dropped, in order - whether written as
        # `.into_iter().map(customize_msg)` or as a loop pushing `customize_msg(m)` (vlib/pipeline.py)
        from vlib import pipeline
        msgs = False
        for g0 in [f]:
            for b0, t0 in g0.calls():
                if t0["callee"]["key"].endswith("Response::add_submessages"):
                    it0 = P.call_args(g0, t0, b0)[1]
                    while peel(it0)[0] == "call" and peel(it0)[1] in pipeline.COLLECT and peel(it0)[2]:
                        it0 = peel(it0)[2][0]      # `let v: Vec<_> = iter.collect(); add_submessages(v)` hands over the same elements
                    cs = pipeline.iter_contribs(P, F, g0, it0)
                    if len(cs) == 1 and cs[0].kind == "expr" and not cs[0].conds and not cs[0].adapters and is_param_field(cs[0].src, "resp", "messages"):
                        e0 = peel(cs[0].expr)
                        msgs = e0[0] == "call" and e0[1] == "contracts::customize_msg" and peel(e0[2][0])[0] == "bound"
                    elif len(cs) == 1 and cs[0].kind == "opaque":
                        # `.map(customize_msg)` with the function passed by path: not a closure the pipeline reader can open
                        a1 = peel(it0)
                        msgs = a1[0] == "call" and a1[1] == "std::iter::Iterator::map" and is_param_field(a1[2][0], "resp", "messages") and \
                            peel(a1[2][1]) == ("fn", "contracts::customize_msg")
                elif t0["callee"]["key"].endswith("Response::add_submessage"):
                    # `for m in resp.messages { out = out.add_submessage(customize_msg(m)) }`: the builder is the loop's accumulator
                    a0 = P.call_args(g0, t0, b0)
                    e0 = peel(a0[1])
                    lp = q.enclosing_loops(P, g0, b0)
                    here = (g0.key, b0)
                    accs = peel(a0[0])
                    accs = list(accs[1]) if accs[0] == "multi" else [accs]
                    acc = all((peel(x)[0] == "call" and peel(x)[1].endswith("Response::new")) or (peel(x)[0] == "call" and len(peel(x)) > 4 and peel(x)[4] == here)
                              for x in accs)
                    msgs = e0[0] == "call" and e0[1] == "contracts::customize_msg" and peel(e0[2][0])[0] == "bound" and len(lp) == 1 and \
                        not q.chain_adapters(lp[0][1]) and is_param_field(strip_adapters(lp[0][1]), "resp", "messages") and acc and \
                        not pipeline._elem_conds(q.conditions_at(P, F, g0, b0)) and \
                        contains(ret, lambda x: x[0] == "call" and len(x) > 4 and x[4] == here)
        evs = contains(ret, lambda x: x[0] == "call" and x[1].endswith("Response::add_events") and is_param_field(x[2][1], "resp", "events"))
        attrs = contains(ret, lambda x: x[0] == "call" and x[1].endswith("Response::add_attributes") and is_param_field(x[2][1], "resp", "attributes"))
        r0 = ret
        while r0[0] == "vp":
            r0 = r0[2]
        # `.data = resp.data` may come before or after the builder calls: anywhere in the chain that makes up the result
        data = contains(ret, lambda x: x[0] == "upd" and any(p == ("data",) and is_param_field(v, "resp", "data") for p, v in x[2]))
        if not data:
            # `resp.data.into_iter().fold(out, Response::set_data)` / `if let Some(d) = resp.data { out = out.set_data(d) }`: the
            # payload of resp.data (when there is one) goes through set_data; a fresh Response has no data otherwise
            def payload_of_resp_data(v):
                v = peel(v)
                return (v[0] == "bound" and v[1] == "elem" and is_param_field(strip_adapters(v[2]), "resp", "data")) or \
                    (v[0] == "some" and is_param_field(v[1], "resp", "data"))
            data = contains(ret, lambda x: x[0] == "call" and x[1].endswith("Response::set_data") and len(x[2]) == 2 and payload_of_resp_data(x[2][1]))
            # (with the library function passed by path the fold stays a call: fold(resp.data.into_iter(), out, Response::set_data))
            r1 = peel(ret)
            if not data and r1[0] == "call" and r1[1] == "std::iter::Iterator::fold" and len(r1[2]) == 3:
                f2 = peel(r1[2][2])
                data = is_param_field(strip_adapters(r1[2][0]), "resp", "data") and f2[0] == "fn" and f2[1].endswith("Response::set_data")
        # the fields of a fresh Response set one by one (`out.events = resp.events; out.messages = resp.messages.into_iter().map(customize_msg).collect()`):
        # the same vectors, moved instead of appended to empty ones
        sets = {}
        rr = ret
        while rr[0] in ("vp", "upd"):
            if rr[0] == "upd":
                for p0, v0 in rr[2]:
                    if len(p0) == 1 and isinstance(p0[0], str):
                        sets.setdefault(p0[0], v0)
                rr = rr[1]
            else:
                rr = rr[2]
        fresh = peel(rr)[0] == "call" and peel(rr)[1].endswith(("Response::new", "Default::default"))
        if fresh:
            evs = evs or ("events" in sets and is_param_field(sets["events"], "resp", "events"))
            attrs = attrs or ("attributes" in sets and is_param_field(sets["attributes"], "resp", "attributes"))
            if not msgs and "messages" in sets:
                cs = pipeline.contents(P, F, f, sets["messages"])
                if len(cs) == 1 and cs[0].kind in ("all-of", "expr") and not cs[0].conds and not cs[0].adapters and is_param_field(cs[0].src, "resp", "messages"):
                    e0 = peel(cs[0].expr)
                    msgs = e0[0] == "call" and e0[1] == "contracts::customize_msg" and peel(e0[2][0])[0] == "bound"
                elif len(cs) == 1 and cs[0].kind == "opaque":
                    m0 = peel(sets["messages"])
                    a1 = peel(m0[2][0]) if m0[0] == "call" and m0[2] else ("?",)
                    msgs = a1[0] == "call" and a1[1] == "std::iter::Iterator::map" and is_param_field(a1[2][0], "resp", "messages") and \
                        peel(a1[2][1]) == ("fn", "contracts::customize_msg")
        for name, ok in (("messages(through customize_msg)", msgs), ("events", evs), ("attributes", attrs), ("data", data)):
            ctx.ob(R, key, "carries-%s" % name, ok, "customize_response does not carry %s: %s" % (name, fmt(ret)[:200]), fn=f, sample=name)


def _returns(P, f):
    """(kinds of every value assigned to the return place)"""
    kinds = []
    for bid, i, kind, item in q.assigns_to_local(f, 0):
        if item["dst"]["p"]:
            continue
        if kind == "call":
            c = item["callee"]
            if c.get("trait") == "std::ops::FromResidual":
                kinds.append(("propagate", bid))
            else:
                o = peel(P.call_origin(f, item, bid))
                # serialisation of the constant `Empty {}` answer (cannot fail): to_json_binary(&Empty{})[.map_err(Into::into)]
                inner = o
                if inner[0] == "call" and inner[1] == "std::result::Result::map_err":
                    inner = peel(inner[2][0])
                if inner[0] == "call" and inner[1] == "cosmwasm_std::to_json_binary" and peel(inner[2][0])[0] == "agg" and \
                        peel(inner[2][0])[1].startswith("cosmwasm_std::Empty"):
                    kinds.append(("Ok", bid))
                else:
                    kinds.append(("call:" + c["key"], bid))
        else:
            o = peel(P.rvalue(f, item["rv"], (bid, i)))
            if o[0] == "call" and o[1].endswith("FromResidual::from_residual"):
                kinds.append(("propagate", bid))      # `Err(e) => Err(e.into())` is `?`
            elif o[0] == "agg" and o[1].endswith("Result::Err") and contains(o, lambda x: x[0] == "err" and peel(x[1])[0] == "call"):
                kinds.append(("propagate", bid))      # `Err(e) => Err(e)`: the callee's error handed on
            elif o[0] == "agg" and o[1].endswith("Result::Err"):
                kinds.append(("Err", bid))
            elif o[0] == "agg" and o[1].endswith("Result::Ok"):
                kinds.append(("Ok", bid))
            else:
                kinds.append(("other:" + fmt(o)[:40], bid))
    return kinds


def r5(ctx, cfg):
    F, P = cfg.facts, cfg.prov
    R = "C17.R5"
    failing = ["<module::FailingModule as module::Module>::execute", "<module::FailingModule as module::Module>::query",
               "<module::FailingModule as module::Module>::sudo", "stargate::Stargate::execute_stargate", "stargate::Stargate::query_stargate",
               "stargate::Stargate::execute_any", "stargate::Stargate::query_grpc"]
    for key in failing:
        f = ctx.need_fn(R, key)
        if f is None:
            continue
        ks = [k for k, b in _returns(P, f)]
        ctx.ob(R, key, "always-fails", bool(ks) and all(k == "Err" for k in ks), "%s returns %s" % (key, ks), fn=f, sample="only Err(..)")
    accepting = ["<module::AcceptingModule as module::Module>::execute", "<module::AcceptingModule as module::Module>::query",
                 "<module::AcceptingModule as module::Module>::sudo", "<stargate::StargateAccepting as stargate::Stargate>::execute_stargate",
                 "<stargate::StargateAccepting as stargate::Stargate>::query_stargate", "<stargate::StargateAccepting as stargate::Stargate>::execute_any",
                 "<stargate::StargateAccepting as stargate::Stargate>::query_grpc"]
    for key in accepting:
        f = ctx.need_fn(R, key)
        if f is None:
            continue
        ks = [k for k, b in _returns(P, f)]
        ok = bool(ks) and all(k == "Ok" or k in ("call:cosmwasm_std::to_json_binary",) or k == "propagate" for k in ks) and any(k == "Ok" or k.startswith("call:cosmwasm_std::to_json_binary") for k in ks)
        errs = [c for b, c in f.calls() if c["callee"]["key"].startswith("anyhow::") and "format_err" in c["callee"]["key"] or c["callee"]["key"] == "anyhow::Error::msg"]
        # `propagate` only for the serialisation of the constant Empty answer
        if "propagate" in ks:
            ok = ok and len(q.calls(f, "cosmwasm_std::to_json_binary")) >= 1
        ctx.ob(R, key, "always-accepts", ok and not errs, "%s returns %s (error constructors: %d)" % (key, ks, len(errs)), fn=f, sample="only Ok(..)")
    # the failing defaults are not overridden into something else by StargateFailing
    over = []
    for imp in F.impls:
        if imp.get("trait") == "stargate::Stargate" and imp["self_name"] == "stargate::StargateFailing":
            over = [m["name"] for m in imp["methods"]]
    ctx.ob(R, "stargate::StargateFailing", "uses-failing-defaults", over == [], "StargateFailing overrides %s" % over, sample="no overrides")
    # Gov/Ibc/Staking default modules are the constant modules (type aliases resolve to FailingModule / AcceptingModule impls)
    for tr in ("gov::Gov", "ibc::Ibc"):
        selfs = sorted(imp["self_name"] for imp in F.impls if imp.get("trait") == tr)
        ctx.ob(R, tr, "implemented-by-constant-modules", selfs == ["module::AcceptingModule", "module::FailingModule"], "%s is implemented for %s" % (tr, selfs),
               sample=str(selfs))


def r6(ctx, cfg):
    F = cfg.facts
    R = "C17.R6"
    n = 0
    for f in F.user_fns():
        if f.file in ("src/app.rs", "src/module.rs", "src/stargate.rs", "src/gov.rs", "src/ibc.rs", "src/contracts.rs", "src/custom_handler.rs"):
            n += 1
            for bid, t, why in dropped_results(f):
                ctx.fail(R, f.key, "dropped-result:%s" % t["callee"]["key"], "%s (line %d)" % (why, t["line"]), fn=f, line=t["line"])
    ctx.ob(R, "-", "functions-scanned", n >= 60, "only %d functions scanned" % n, sample="%d functions in routing files, no dropped Result" % n)
