"""C20 — builders keep every configured component regardless of call order (DESIGN.md §5 C20)."""
from vlib import q
from vlib.cfg import cfg_of
from vlib.prov import peel, fmt, is_param, contains, alts, deep_peel, same_origin, is_param_field, leaves

LEVEL = "proof"
LEVEL_TEXT = (
    "Proof relative to the stated trusted base, by a frame rule: for every builder step (method taking the builder by "
    "value and returning the same type) each field of the result is either the same field of `self` or an expression "
    "that depends on the step's own argument, and the set of fields of the second kind is exactly the step's declared "
    "field. Steps with disjoint write sets that preserve all other fields commute, so every subset of steps in every "
    "order yields the supplied components and defaults elsewhere (one obligation per step and field, discharged by "
    "provenance over MIR). build() wires every builder field to the App field of the same name and runs init_fn "
    "exactly once on the built app (FnOnce by type); constructors are the only other producers; lifting wrappers "
    "forward their arguments and results unchanged. Compile-fail witnesses (thorough tier) show that builders are "
    "consumed by each step."
)
EXPLANATION = LEVEL_TEXT
TRUSTED = ["rustc type checker (generic component fields cannot be cross-wired; FnOnce is called at most once) and MIR construction",
           "cwmt-facts driver", "vlib provenance (field-sensitive origins)"]
ASSUMPTIONS = ["component constructors supplied by the user are opaque values"]

AB = "app_builder::AppBuilder"
CW = "contracts::ContractWrapper"

APP_STEPS = {"with_wasm": "wasm", "with_bank": "bank", "with_api": "api", "with_storage": "storage", "with_custom": "custom",
             "with_staking": "staking", "with_distribution": "distribution", "with_ibc": "ibc", "with_gov": "gov",
             "with_stargate": "stargate", "with_block": "block"}
WRAPPER_STEPS = {"with_sudo": "sudo_fn", "with_sudo_empty": "sudo_fn", "with_reply": "reply_fn", "with_reply_empty": "reply_fn",
                 "with_migrate": "migrate_fn", "with_migrate_empty": "migrate_fn", "with_checksum": "checksum"}


def check(ctx, cfg):
    r1(ctx, cfg, AB, APP_STEPS)
    r1(ctx, cfg, CW, WRAPPER_STEPS)
    r2(ctx, cfg)
    r3(ctx, cfg)
    r4(ctx, cfg)
    r5(ctx, cfg)
    r6(ctx, cfg)


def r6(ctx, cfg):
    """"builders keep every configured component regardless of call order" for the third builder of the crate, the wasm keeper's:
    `with_address_generator` and `with_checksum_generator` each return the keeper they were given with exactly their own field
    replaced - a step that rebuilds the keeper from `Self::new()` silently drops the other generator and every code stored so far,
    and does so only in one of the two call orders (the C11.R9 obligations under C20's id)"""
    from rules import C11
    C11.r9(ctx, cfg, R="C20.R6")


def _fields_of(F, adt):
    a = F.adts.get(adt)
    return [x["name"] for x in a["variants"][0]["fields"]] if a else []


def _composed_fields(P, f, adt_fields, steps, adt, depth=0):
    """_result_fields, looking through a tail call to a declared step: `self.with_x(v)` is `self` with field x := v"""
    rf = _result_fields(P, f, adt_fields)
    if rf is not None:
        return rf
    ret = peel(P.ret(f))
    if ret[0] == "call" and ret[1].startswith(adt + "::") and ret[1].rsplit("::", 1)[1] in steps and len(ret[2]) == 2 and depth < 3:
        inner = peel(ret[2][0])
        if inner[0] == "param" and inner[2] == "self":
            base = {n: ("field", inner, n) for n in adt_fields}
        else:
            return None
        base[steps[ret[1].rsplit("::", 1)[1]]] = ret[2][1]
        return base
    return None


def _result_fields(P, f, adt_fields):
    """{field: origin} of the value returned by a by-value builder step"""
    ret = P.ret(f)
    while ret[0] == "vp":
        ret = ret[2]
    out = {}
    if ret[0] == "agg":
        return dict(ret[2])
    if ret[0] == "upd" and peel(ret[1])[0] == "param" and peel(ret[1])[2] == "self":
        for n in adt_fields:
            out[n] = ("field", peel(ret[1]), n)
        for path, v in ret[2]:
            if path and path[0] == "&mut":
                n = path[1] if len(path) > 1 else None
                if n is None:
                    for k in out:
                        out[k] = ("unknown", "self mutated through &mut")
                else:
                    out[n] = ("unknown", "field mutated through &mut")
            elif path:
                out[path[0]] = v if len(path) == 1 else ("unknown", "partial write")
        return out
    if ret[0] == "param" and ret[2] == "self":
        return {n: ("field", ret, n) for n in adt_fields}
    return None


def r1(ctx, cfg, adt, steps):
    F, P = cfg.facts, cfg.prov
    R = "C20.R1"
    fields = _fields_of(F, adt)
    if not fields:
        ctx.fail(R, adt, "anchor-missing", "type %s not found" % adt)
        return
    # every by-value method returning the same ADT is a step and must be declared
    found = []
    for imp in F.impls:
        if imp["self_name"] != adt or "trait" in imp:
            continue
        for m in imp["methods"]:
            if m["inputs"] and m["inputs"][0].get("adt") == adt and m["output"].startswith(adt):
                found.append(m["name"])
                if m["name"] in steps:
                    ctx.ob(R, m["key"], "step-is-declared", True, "-", sample=steps.get(m["name"]))
                else:
                    # a step added later needs no declaration when its effect can be read off: every field of the result is the
                    # field of `self` it came from, except at most one, and that one is made from the step's arguments and the
                    # same field of `self` only (`with_block_height(h)` = `self.with_block(BlockInfo { height: h, ..self.block })`)
                    g = F.fn(m["key"])
                    rf = _composed_fields(P, g, fields, steps, adt) if g is not None else None
                    okn, d = rf is not None, "cannot see the returned %s as a per-field value" % adt
                    if okn:
                        changed = []
                        for fld in fields:
                            po = peel(rf.get(fld, ("?",)))
                            if po[0] == "field" and po[2] == fld and is_param(po[1], "self"):
                                continue
                            changed.append(fld)
                            if contains(rf[fld], lambda x: x[0] in ("call", "agg") and any(is_param(a if x[0] == "call" else a[1], "self") for a in x[2])):
                                okn = False            # (the whole builder flows into one field)
                            if contains(rf[fld], lambda x: x[0] == "field" and is_param(x[1], "self") and x[2] != fld):
                                okn = False
                        okn = okn and len(changed) <= 1
                        d = "new step %s changes %s" % (m["name"], changed)
                    ctx.ob(R, m["key"], "step-is-declared", okn, "builder step %s::%s is not declared and its effect is not a single-field update: %s" % (adt, m["name"], d),
                           sample="derived: %s" % d)
    ctx.floor(R, "%s steps" % adt, len(found), len(steps))
    for name, declared in sorted(steps.items()):
        key = "%s::%s" % (adt, name)
        f = ctx.need_fn(R, key)
        if f is None:
            continue
        rf = _result_fields(P, f, fields)
        if rf is None:
            ctx.fail(R, key, "unrecognised-idiom", "cannot see the returned %s as a per-field value: %s" % (adt, fmt(P.ret(f))[:120]), fn=f)
            continue
        written = set()
        for fld in fields:
            o = rf.get(fld)
            if o is None:
                ctx.fail(R, key, "field:%s" % fld, "field %s of the result has no origin" % fld, fn=f)
                continue
            po = peel(o)
            kept = po[0] == "field" and po[2] == fld and is_param(po[1], "self")
            lv = leaves(o)
            from_arg = any(x[0] == "param" and x[2] != "self" for x in lv)
            if kept:
                ok = True
                d = "kept (self.%s)" % fld
            elif from_arg and not any(x[0] == "param" and x[2] == "self" for x in lv):
                written.add(fld)
                ok = fld == declared
                d = "supplied by the step's argument: %s" % fmt(o)[:80]
            else:
                ok = False
                d = "neither self.%s nor derived from the step's argument: %s" % (fld, fmt(o)[:80])
            ctx.ob(R, key, "field:%s" % fld, ok,
                   "%s::%s returns %s = %s (a component configured earlier is lost or cross-wired)" % (adt.rsplit("::", 1)[1], name, fld, d), fn=f,
                   sample=d)
        ctx.ob(R, key, "write-set={%s}" % declared, written == {declared}, "%s writes %s, declared {%s}" % (name, sorted(written), declared), fn=f,
               sample="{%s}" % declared)


def r2(ctx, cfg):
    F, P = cfg.facts, cfg.prov
    R = "C20.R2"
    key = AB + "::build"
    f = ctx.need_fn(R, key)
    if f is None:
        return
    aggs = [(b, i, st) for b, i, st in f.stmts() if st["k"] == "assign" and st["rv"].get("k") == "aggregate" and st["rv"].get("adt") == "app::App"]
    ctx.ob(R, key, "one-App-aggregate", len(aggs) == 1, "expected one App aggregate in build, found %d" % len(aggs), fn=f, sample="1")
    if len(aggs) != 1:
        return
    b, i, st = aggs[0]
    o = P.rvalue(f, st["rv"], (b, i))
    d = dict(o[2])
    for fld in ("api", "block", "storage"):
        ctx.ob(R, key, "App.%s=builder.%s" % (fld, fld), is_param_field(d[fld], "self", fld), "App.%s is %s" % (fld, fmt(d[fld])[:60]), fn=f, line=st["line"],
               sample="self.%s" % fld)
    router = peel(d["router"])
    ok = router[0] == "agg" and router[1].startswith("app::Router")
    ctx.ob(R, key, "Router-aggregate", ok, "App.router is %s" % fmt(router)[:80], fn=f, sample="Router{..}")
    if ok:
        for fld, v in router[2]:
            ctx.ob(R, key, "Router.%s=builder.%s" % (fld, fld), is_param_field(v, "self", fld), "Router.%s is %s" % (fld, fmt(v)[:60]), fn=f, line=st["line"],
                   sample="self.%s" % fld)
        ctx.ob(R, key, "all-modules-wired", len(router[2]) == 8, "Router has %d fields" % len(router[2]), fn=f, sample="8 modules")
    # init_modules(init_fn) on the built app, on every path, once
    im = q.calls(f, "app::App::init_modules")
    cf = cfg_of(f)
    ok = len(im) == 1
    if ok:
        ib, it = im[0]
        a = P.call_args(f, it, ib)
        app_o = peel(a[0])
        ok = app_o[0] == "agg" and app_o[1].startswith("app::App") and is_param(a[1], "init_fn") and all(cf.must_pass(ib, r) for r in cf.return_blocks())
        ok = ok and ib not in cf.reachable_from(ib)
    elif not im:
        # the same step written out: `init_fn(&mut app.router, &app.api, &mut app.storage)` on the App being built
        once = [(b2, t2) for b2, t2 in q.calls(f, ("std::ops::FnOnce", "call_once")) if is_param(P.call_args(f, t2, b2)[0], "init_fn")]
        if len(once) == 1:
            ib, it = once[0]
            tup = peel(P.call_args(f, it, ib)[1])

            # (the provenance of `&mut app.router` is the value the App aggregate was built with)
            ok = tup[0] == "agg" and len(tup[2]) == 3 and same_origin(tup[2][0][1], d["router"]) and same_origin(tup[2][1][1], d["api"]) and \
                same_origin(tup[2][2][1], d["storage"]) and all(cf.must_pass(ib, r) for r in cf.return_blocks()) and ib not in cf.reachable_from(ib) and \
                cf.dominates(b, ib)
    ctx.ob(R, key, "init_fn-runs-once-on-built-app", ok, "build does not call app.init_modules(init_fn) exactly once on every path", fn=f,
           sample="app.init_modules(init_fn) dominates return, not in a loop")
    ret = peel(P.ret(f))
    ctx.ob(R, key, "returns-that-app", ret[0] == "agg" and ret[1].startswith("app::App"), "build returns %s" % fmt(ret)[:80], fn=f, sample="app")
    key = "app::App::init_modules"
    f = ctx.need_fn(R, key)
    if f is not None:
        once = q.calls(f, ("std::ops::FnOnce", "call_once"))
        ok = len(once) == 1
        if ok:
            a = P.call_args(f, once[0][1], once[0][0])
            tup = peel(a[1])
            ok = is_param(a[0], "init_fn") and tup[0] == "agg" and len(tup[2]) == 3 and \
                is_param_field(tup[2][0][1], "self", "router") and is_param_field(tup[2][1][1], "self", "api") and is_param_field(tup[2][2][1], "self", "storage")
        ctx.ob(R, key, "init_fn(&mut router, &api, &mut storage)", ok, "init_modules does not hand (router, api, storage) of this app to init_fn", fn=f,
               sample="init_fn(&mut self.router, &self.api, &mut self.storage)")


def r3(ctx, cfg):
    F, P = cfg.facts, cfg.prov
    R = "C20.R3"
    for adt, allowed in ((AB, {AB + "::new", AB + "::new_custom"} | {AB + "::" + s for s in APP_STEPS}),
                         (CW, {CW + "::new", CW + "::new_with_empty"} | {CW + "::" + s for s in WRAPPER_STEPS})):
        sites = {}
        for f in F.user_fns():
            for b, i, st in f.stmts():
                if st["k"] == "assign" and st["rv"].get("k") == "aggregate" and st["rv"].get("adt") == adt:
                    sites.setdefault(f.key.split("::{closure")[0], []).append(st["line"])
        extra = sorted(set(sites) - allowed)
        ctx.ob(R, adt, "constructed-only-by-constructors-and-steps", not extra, "%s is also constructed in %s" % (adt, extra), sample="%d producers" % len(sites))
    # constructors: defaults everywhere except the supplied components
    for key, nones in ((CW + "::new", ("sudo_fn", "reply_fn", "migrate_fn", "checksum")), (CW + "::new_with_empty", ("sudo_fn", "reply_fn", "migrate_fn", "checksum"))):
        f = ctx.need_fn(R, key)
        if f is None:
            continue
        ret = peel(P.ret(f))
        ok = ret[0] == "agg"
        if ok:
            d = dict(ret[2])
            ok = all(peel(d[n])[0] == "agg" and peel(d[n])[1].endswith("Option::None") for n in nones)
            for n, pn in (("execute_fn", "execute_fn"), ("instantiate_fn", "instantiate_fn"), ("query_fn", "query_fn")):
                lv = leaves(d[n])
                ok = ok and {x[2] for x in lv if x[0] == "param"} == {pn}
        ctx.ob(R, key, "entry-points-from-arguments-rest-default", ok, "%s builds %s" % (key, fmt(ret)[:200]), fn=f,
               sample="execute/instantiate/query from arguments, optional entry points None")
    for key in (AB + "::new", AB + "::new_custom"):
        f = ctx.need_fn(R, key)
        if f is None:
            continue
        # (`new()` may be written as `Self::new_custom()`: pure forwarding is looked through)
        ret = peel(q.returned_value(F, P, f))
        ok = ret[0] == "agg" and len(ret[2]) == 11 and not any(x[0] == "param" for x in leaves(ret))
        ctx.ob(R, key, "all-eleven-defaults", ok, "%s builds %s" % (key, fmt(ret)[:160]), fn=f, sample="11 default components")


def r4(ctx, cfg):
    F, P = cfg.facts, cfg.prov
    R = "C20.R4"
    for key, with_info, lifted in (("contracts::customize_contract_fn", True, True), ("contracts::customize_permissioned_fn", False, True),
                                   ("contracts::customize_query_fn", False, False)):
        f = ctx.need_fn(R, key)
        if f is None:
            continue
        clos = [g for g in F.lexical(key) if g.kind == "closure"]
        ok = len(clos) == 1
        ctx.ob(R, key, "one-closure", ok, "expected one wrapping closure", fn=f, sample="1")
        if not ok:
            continue
        g = clos[0]
        calls = [(b, t) for b, t in g.calls() if t["callee"]["key"] == "<indirect>" or (t["callee"].get("trait", "").startswith("std::ops::Fn"))]
        ok = len(calls) == 1
        d = "?"
        if ok:
            b, t = calls[0]
            a = P.call_args(g, t, b)
            fnv = a[0] if t["callee"]["key"] != "<indirect>" else P.operand(g, t["callee"]["indirect"], (b, "t"))
            args = a[1:] if t["callee"]["key"] != "<indirect>" else a
            if len(args) == 1 and peel(args[0])[0] == "agg" and peel(args[0])[1] == "tuple":
                args = [v for _, v in peel(args[0])[2]]
            d = "raw_fn(%s)" % ", ".join(fmt(x)[:40] for x in args)
            ok = is_param(fnv, "raw_fn") or contains(fnv, lambda x: x[0] == "param" and x[2] == "raw_fn")
            dec = peel(args[0])
            # closure parameters by position (closure-local names are free to change): _2 deps, then env[, info], msg
            # the Deps / DepsMut handed on is the closure's own (re-typed by decustomize_deps[_mut] or in place: its storage
            # and api are those of closure parameter _2)
            if dec[0] == "call" and dec[1] in ("contracts::decustomize_deps_mut", "contracts::decustomize_deps",
                                               "cosmwasm_std::DepsMut::into_empty", "cosmwasm_std::Deps::into_empty"):
                # (cosmwasm-std's own re-typing: `deps.into_empty()` keeps storage, api and the wrapped querier)
                ok = ok and contains(dec[2][0], lambda x: x[0] == "cparam" and x[1] == 2)
            else:
                dd0 = dict(dec[2]) if dec[0] == "agg" and dec[1].startswith(("cosmwasm_std::Deps", "cosmwasm_std::DepsMut")) else {}
                ok = ok and all(peel(dd0.get(fl, ("?",)))[0] == "field" and peel(dd0[fl])[2] == fl and peel(peel(dd0[fl])[1])[0] == "cparam" and peel(peel(dd0[fl])[1])[1] == 2
                                for fl in ("storage", "api"))
            npos = 2 + (1 if with_info else 0)
            ok = ok and len(args) == 1 + npos and all(peel(x)[0] == "cparam" and peel(x)[1] == 3 + i for i, x in enumerate(args[1:]))
        ctx.ob(R, key, "wrapped-fn-gets-own-arguments", ok, "the wrapper calls %s" % d, fn=g, sample=d)
        ret = peel(P.ret(g))
        if lifted:
            # `raw_fn(..).map(customize_response)` or `Ok(customize_response(raw_fn(..)?))`: same alternatives
            al = [peel(x) for x in alts(ret)]
            oks = [x for x in al if x[0] == "agg" and x[1].endswith("Result::Ok")]
            errs = [x for x in al if x[0] == "call" and x[1].endswith("FromResidual::from_residual")]

            def is_raw(o):
                o = peel(o)
                return o[0] == "call" and (o[1] == "<indirect>" or "Fn" in o[1])
            ok = len(oks) == 1 and len(errs) == 1 and len(al) == 2
            if ok:
                p0 = peel(oks[0][2][0][1])
                ok = p0[0] == "call" and p0[1] == "contracts::customize_response" and peel(p0[2][0])[0] == "ok" and is_raw(peel(p0[2][0])[1]) and \
                    peel(errs[0][2][0])[0] == "err" and is_raw(peel(errs[0][2][0])[1])
        else:
            ok = ret[0] == "call" and (ret[1] == "<indirect>" or "Fn" in ret[1])
        ctx.ob(R, key, "result-forwarded", ok, "the wrapper returns %s" % fmt(ret)[:120], fn=g,
               sample="raw_fn(..).map(customize_response)" if lifted else "raw_fn(..)")
    # ContractWrapper's Contract impl dispatches each entry point to its own field
    exp = {"execute": "execute_fn", "instantiate": "instantiate_fn", "query": "query_fn", "sudo": "sudo_fn", "reply": "reply_fn", "migrate": "migrate_fn"}
    for m, fld in exp.items():
        key = "<contracts::ContractWrapper as contracts::Contract>::%s" % m
        f = ctx.need_fn(R, key)
        if f is None:
            continue
        used = set()
        for g in F.lexical(key):
            for b, i, st in g.stmts():
                if st["k"] == "assign":
                    for pl in _places(st["rv"]):
                        for e in pl["p"]:
                            if e["k"] == "field" and e.get("of") == CW:
                                used.add(e["name"])
        ctx.ob(R, key, "uses-only-%s" % fld, used == {fld}, "Contract::%s of ContractWrapper reads fields %s" % (m, sorted(used)), fn=f, sample=fld)
    key = "<contracts::ContractWrapper as contracts::Contract>::checksum"
    f = ctx.need_fn(R, key)
    if f is not None:
        ctx.ob(R, key, "returns-self.checksum", is_param_field(P.ret(f), "self", "checksum"), "checksum() returns %s" % fmt(P.ret(f))[:60], fn=f, sample="self.checksum")


def _places(rv):
    out = []
    if rv["k"] in ("ref", "rawptr", "discriminant"):
        out.append(rv["place"])
    for k in ("op", "a", "b"):
        o = rv.get(k)
        if isinstance(o, dict) and o.get("k") in ("copy", "move"):
            out.append(o["place"])
    for o in rv.get("ops", []):
        if o.get("k") in ("copy", "move"):
            out.append(o["place"])
    return out


def post(ctx, thorough):
    if not thorough:
        return {}
    from vlib import witness
    res = witness.run(["c20"])
    ctx.cur = None
    for name, ok, detail in res:
        ctx.ob("C20.W", "witness", name, ok, detail, sample=detail[:160])
    return {"witnesses": [r[0] for r in res]}


def r5(ctx, cfg):
    """"(defaults for the rest)": the two constructors of the builder agree on every default - `new()` and `new_custom()` build
    the same value field by field (they differ only in the message types of the chain), `Default` is `new()`, and the block
    both start from is `mock_env().block` as it is"""
    F, P = cfg.facts, cfg.prov
    R = "C20.R5"
    a, b = ctx.need_fn(R, AB + "::new"), ctx.need_fn(R, AB + "::new_custom")
    if a is None or b is None:
        return
    ra, rb = peel(P.ret(a)), peel(P.ret(b))
    # (one constructor written as a call of the other agrees with it by construction)
    if ra[0] == "call" and ra[1] == AB + "::new_custom" and rb[0] == "agg":
        ra = rb
    if rb[0] == "call" and rb[1] == AB + "::new" and ra[0] == "agg":
        rb = ra
    ok = ra[0] == "agg" and rb[0] == "agg"
    diff = []
    if ok:
        da, db = dict(ra[2]), dict(rb[2])
        for fld in sorted(set(da) | set(db)):
            x, y = fmt(deep_peel(da.get(fld, ("?",)))), fmt(deep_peel(db.get(fld, ("?",))))
            if x != y:
                diff.append("%s: %s vs %s" % (fld, x[:50], y[:50]))
    ctx.ob(R, AB + "::new_custom", "same-defaults-as-new", ok and not diff, "new() and new_custom() disagree on %s" % (diff or "their shape"), fn=b,
           sample="identical field by field")
    if ok:
        blk = peel(dict(ra[2]).get("block", ("?",)))
        okb = blk[0] == "field" and blk[2] == "block" and peel(blk[1])[0] == "call" and peel(blk[1])[1] == "cosmwasm_std::testing::mock_env"
        ctx.ob(R, AB + "::new", "default-block-is-mock_env().block", okb, "the default block is %s" % fmt(blk)[:80], fn=a, sample="mock_env().block")
    d = F.fn("<%s as std::default::Default>::default" % AB)
    if d is not None:
        rd = peel(P.ret(d))
        ctx.ob(R, d.key, "default-is-new", rd[0] == "call" and rd[1] == AB + "::new", "Default for AppBuilder returns %s" % fmt(rd)[:80], fn=d, sample="Self::new()")
