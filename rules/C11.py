"""C11 — code ids and contract addresses are unique, stable and usable (DESIGN.md §5 C11)."""
from vlib import q
from vlib.cfg import cfg_of
from vlib.prov import (peel, fmt, is_param, contains, alts, deep_peel, same_origin, is_param_field, leaves, root_param, just)

LEVEL = "other"
EXPLANATION = (
    "Static analysis of MIR facts: guards of store_code_with_id (dominance); the contradiction rule 'code-id "
    "membership is a map lookup, never a comparison with the number of stored codes'; membership tests dominate every "
    "use of a code id in instantiate and migrate; the duplicate-address guard dominates the registry write on the same "
    "address; recorded ContractData fields originate from the supplied values; the salted address depends only on "
    "checksum, creator and salt (taint closure), the classic one on (code_id, instance count); id allocation is "
    "max-key + 1 (checked) and duplicate_code copies the looked-up entry. Collision-freeness of SHA-256 is not decided "
    "(irrelevant to uniqueness thanks to the duplicate guard)."
    " Success results of store_code_with_id and register_contract are bounded as well as their writes: every non-Err result is dominated by the guarded save (q.successes_outside)."
)
TRUSTED = ["rustc MIR construction", "cwmt-facts driver", "vlib (provenance, dominators)", "std BTreeMap semantics",
           "cosmwasm-std instantiate2_address / Api"]
ASSUMPTIONS = ["user-supplied address/checksum generators are opaque"]

W = "wasm::WasmKeeper::"
WT = "<wasm::WasmKeeper as wasm::Wasm>::"


def check(ctx, cfg):
    r1(ctx, cfg)
    r2(ctx, cfg)
    r3(ctx, cfg)
    r4(ctx, cfg)
    r5(ctx, cfg)
    r6(ctx, cfg)
    r7(ctx, cfg)
    r8(ctx, cfg)
    r9(ctx, cfg)
    r10(ctx, cfg)
    r11(ctx, cfg)
    r_overlay(ctx, cfg)


def r_overlay(ctx, cfg):
    """premise shared with C06 (the transaction overlay is faithful), under this property's id: the next instance id is the number of contract records counted through the transaction's merged range, and code / contract records written earlier in the transaction are read back through it"""
    from rules import C06
    C06.overlay_premise(ctx, cfg, "C11.R12")


def r8(ctx, cfg):
    """who may change the code registry"""
    F, P = cfg.facts, cfg.prov
    R = "C11.R8"
    writers = {}
    for f in F.user_fns():
        if f.file != "src/wasm.rs":
            continue
        for bid, t in f.calls():
            c = t["callee"]
            if c.get("inputs") and c["inputs"][0].get("ref") == "mut" and t["args"]:
                o = peel(P.operand(f, t["args"][0], (bid, "t")))
                if o[0] == "field" and o[2] in ("code_data", "code_base") and is_param(o[1], "self"):
                    writers.setdefault(o[2], set()).add(f.key.split("::{closure")[0])
    ctx.ob(R, "wasm::WasmKeeper.code_data", "writers", writers.get("code_data") == {W + "save_code", WT + "duplicate_code"},
           "code_data is mutated by %s" % sorted(writers.get("code_data", [])), sample=str(sorted(writers.get("code_data", []))))
    ctx.ob(R, "wasm::WasmKeeper.code_base", "writers", writers.get("code_base") == {W + "save_code"},
           "code_base is mutated by %s" % sorted(writers.get("code_base", [])), sample=str(sorted(writers.get("code_base", []))))
    q.who_may_call(ctx, R, F, W + "save_code", {WT + "store_code", WT + "store_code_with_id"}, "codes are stored by store_code[_with_id] only")
    q.who_may_call(ctx, R, F, W + "register_contract", {W + "process_wasm_msg_instantiate"}, "contracts are registered by instantiation only")


def _is_code_data_field(o):
    o = peel(o)
    return o[0] == "field" and o[2] == "code_data" and is_param(o[1], "self")


def _membership_conds(P, f, node, id_pred):
    """conditions dominating `node` that establish `id ∈ code_data`"""
    out = []
    for e, c in q.dominating_conditions(P, f, node):
        if c[0] == "bool":
            pred, args, pol = c[1]
            if pred == "contains_key" and pol is True and len(args) == 2 and _is_code_data_field(args[0]) and id_pred(args[1]):
                out.append(("contains_key", e))
        if c[0] == "variant_in" and c[2] in (("Continue",), ("Ok",), ("Some",)):
            o = peel(c[1])
            if o[0] == "call" and o[1] == W + "code_data" and id_pred(o[2][1]):
                out.append(("code_data()?", e))
            if o[0] == "call" and o[1] == "std::collections::BTreeMap::get" and _is_code_data_field(o[2][0]) and id_pred(o[2][1]):
                out.append(("get", e))
    return out


def r1(ctx, cfg):
    F, P = cfg.facts, cfg.prov
    R = "C11.R1"
    key = WT + "store_code_with_id"
    f = ctx.need_fn(R, key)
    if f is None:
        return
    sc = q.calls(f, W + "save_code")
    ctx.ob(R, key, "one-save_code", len(sc) == 1, "expected one save_code call, found %d" % len(sc), fn=f, sample="1")
    if len(sc) != 1:
        return
    bid, t = sc[0]
    conds = q.dominating_conditions(P, f, bid)
    dup = q.has_cond(conds, "contains_key", pol=False, arg_pred=lambda a: _is_code_data_field(a[0]) and is_param(a[1], "code_id"))
    zero = q.has_cond(conds, "eq", pol=False, arg_pred=lambda a: any(is_param(x, "code_id") for x in a) and any(peel(x) == ("const", "int", 0) for x in a))
    # accepted alternative spelling of the zero guard: code_id < 1  false
    zero = zero or q.has_cond(conds, "lt", pol=False, arg_pred=lambda a: is_param(a[0], "code_id") and peel(a[1]) == ("const", "int", 1))
    ctx.ob(R, key, "duplicate-id-rejected", dup, "save_code is reachable for an id that is already stored", fn=f, line=t["line"],
           sample="guard: !code_data.contains_key(&code_id)")
    ctx.ob(R, key, "zero-id-rejected", zero, "save_code is reachable for code id 0", fn=f, line=t["line"], sample="guard: code_id != 0")
    # "zero and duplicates are rejected": no success result that did not go through the guarded save_code
    cf0 = cfg_of(f)
    out = [b for (b, i), v in q.success_return_sites(P, f) if not cf0.dominates(bid, b)]
    ctx.ob(R, key, "succeeds-only-by-storing", not out, "store_code_with_id can produce a success at block(s) %s without having stored the code" % sorted(set(out)),
           fn=f, sample="every non-Err result dominated by the guarded save_code")
    a = P.call_args(f, t, bid)
    ctx.ob(R, key, "stored-under-requested-id", is_param(a[1], "code_id") and is_param(a[2], "creator") and is_param(a[3], "code"),
           "save_code(%s)" % ", ".join(fmt(x) for x in a[1:]), fn=f, line=t["line"], sample="save_code(code_id, creator, code)")
    ret = P.ret(f)
    ctx.ob(R, key, "returns-that-id", contains(ret, lambda x: x[0] == "agg" and x[1].endswith("Result::Ok") and peel(x[2][0][1])[0] == "call" and peel(x[2][0][1])[1] == W + "save_code"),
           "store_code_with_id returns %s" % fmt(ret)[:120], fn=f, sample="Ok(save_code(..))")
    # save_code inserts under the given id and returns it
    key = W + "save_code"
    f = ctx.need_fn(R, key)
    if f is not None:
        ins = q.calls(f, "std::collections::BTreeMap::insert")
        ok = len(ins) == 1
        d = "?"
        if ok:
            a = P.call_args(f, ins[0][1], ins[0][0])
            cd = peel(a[2])
            d = fmt(cd)[:200]
            ok = _is_code_data_field(a[0]) and is_param(a[1], "code_id") and cd[0] == "agg" and cd[1].startswith("wasm::CodeData")
            if ok:
                dd = dict(cd[2])
                src = peel(dd["source_id"])
                ok = is_param(dd["creator"], "creator") and src[0] == "call" and src[1] == "std::vec::Vec::len" and \
                    contains(src[2][0], lambda x: x[0] == "field" and x[2] == "code_base")
        ctx.ob(R, key, "code_data[code_id]=CodeData{creator, checksum, index}", ok, "save_code inserts %s" % d, fn=f, sample=d[:160])
        push = q.calls(f, "std::vec::Vec::push")
        ok = len(push) == 1 and is_param(P.call_args(f, push[0][1], push[0][0])[1], "code")
        if ok:
            # source_id is taken before the push
            ln = [b for b, t in f.calls() if t["callee"]["key"] == "std::vec::Vec::len"]
            ok = bool(ln) and cfg_of(f).dominates(ln[0], push[0][0]) and ln[0] != push[0][0]
        ctx.ob(R, key, "code-pushed-after-index-taken", ok, "save_code does not push the code after reading code_base.len()", fn=f,
               sample="source_id = code_base.len(); code_base.push(code)")
        ctx.ob(R, key, "returns-code_id", is_param(P.ret(f), "code_id"), "save_code returns %s" % fmt(P.ret(f)), fn=f, sample="code_id")
    # App delegates unchanged
    key = "app::App::store_code_with_id"
    f = ctx.need_fn(R, key)
    if f is not None:
        cs = q.calls(f, ("wasm::Wasm", "store_code_with_id"))
        ok = len(cs) == 1
        if ok:
            a = P.call_args(f, cs[0][1], cs[0][0])
            ok = is_param(a[1], "creator") and is_param(a[2], "code_id") and is_param(a[3], "code")
            ret = peel(P.ret(f))
            ok = ok and ret[0] == "call" and ret[1] == "wasm::Wasm::store_code_with_id"
        ctx.ob(R, key, "App-delegates-unchanged", ok, "App::store_code_with_id does not delegate (creator, code_id, code) unchanged", fn=f,
               sample="self.router.wasm.store_code_with_id(creator, code_id, code)")


def _len_of_code_data(o):
    return contains(o, lambda x: x[0] == "call" and x[1] in ("std::collections::BTreeMap::len", "std::vec::Vec::len") and
                    contains(x[2][0], lambda y: y[0] == "field" and y[2] in ("code_data", "code_base")))


def _is_code_id_value(o):
    return contains(o, lambda x: (x[0] == "param" and x[2] in ("code_id", "new_code_id")) or
                    (x[0] == "field" and x[2] in ("code_id", "new_code_id")))


def r2(ctx, cfg):
    """contradiction rule: membership of a code id is decided by a map lookup; a comparison of a code id with the
    number of stored codes contradicts store_code_with_id (arbitrary ids) and code_data() (lookup by key)"""
    F, P = cfg.facts, cfg.prov
    R = "C11.R2"
    n = 0
    for f in F.user_fns():
        if f.file != "src/wasm.rs":
            continue
        for bid, i, st in f.stmts():
            if st["k"] != "assign" or st["rv"]["k"] != "binop" or st["rv"]["op"] not in ("lt", "le", "gt", "ge", "eq", "ne"):
                continue
            n += 1
            a = P.operand(f, st["rv"]["a"], (bid, i))
            b = P.operand(f, st["rv"]["b"], (bid, i))
            bad = (_len_of_code_data(a) and _is_code_id_value(b)) or (_len_of_code_data(b) and _is_code_id_value(a))
            if bad:
                arm = _arm_of(P, f, bid)
                ctx.fail(R, f.key, "len-based-code-id-check" + (":" + arm if arm else ""),
                         "code id compared with the number of stored codes (%s %s %s): ids registered with store_code_with_id "
                         "above the count are unusable, gaps below it pass the check" % (fmt(a)[:60], st["rv"]["op"], fmt(b)[:60]),
                         fn=f, line=st["line"])
    ctx.count_sites(n)
    ctx.ob(R, "-", "comparisons-scanned", n >= 3, "only %d comparisons scanned in wasm.rs" % n, sample="%d integer comparisons in wasm.rs scanned, none pairs a code id with a collection length" % n)


def _arm_of(P, f, bid):
    arms = [c[2][0] for e, c in q.dominating_conditions(P, f, bid) if c[0] == "variant_in" and len(c[2]) == 1 and is_param(c[1], "msg")]
    return arms[0] if arms else ""


def r3(ctx, cfg):
    F, P = cfg.facts, cfg.prov
    R = "C11.R3"
    key = W + "register_contract"
    f = ctx.need_fn(R, key)
    if f is not None:
        for bid, t in q.calls(f, W + "save_contract"):
            ms = _membership_conds(P, f, bid, lambda o: is_param(o, "code_id"))
            ctx.ob(R, key, "instantiate-requires-stored-code", bool(ms),
                   "the registry write in register_contract is not dominated by a membership test of code_id in code_data", fn=f,
                   line=t["line"], sample="dominated by %s" % [m[0] for m in ms])
    key = W + "execute_wasm"
    f = ctx.need_fn(R, key)
    if f is not None:
        n = 0
        for callee in (W + "save_contract", W + "call_migrate"):
            for bid, t in q.calls(f, callee):
                if _arm_of(P, f, bid) != "Migrate":
                    continue
                n += 1
                ms = _membership_conds(P, f, bid, lambda o: is_param_field(o, "msg", "new_code_id"))
                ctx.ob(R, key, "migrate-requires-stored-code:%s" % callee.rsplit("::", 1)[1], bool(ms),
                       "%s in the Migrate arm is not dominated by a membership test of new_code_id in code_data" % callee, fn=f,
                       line=t["line"], sample="dominated by %s" % [m[0] for m in ms])
        ctx.ob(R, key, "migrate-sites", n == 2, "expected save_contract and call_migrate in the Migrate arm, found %d" % n, fn=f, sample="2")
    # code_data(): lookup by key, zero rejected
    key = W + "code_data"
    f = ctx.need_fn(R, key)
    if f is not None:
        g = q.calls(f, "std::collections::BTreeMap::get")
        ok = len(g) == 1
        if ok:
            a = P.call_args(f, g[0][1], g[0][0])
            ok = _is_code_data_field(a[0]) and is_param(a[1], "code_id")
        ctx.ob(R, key, "lookup-by-key", ok, "code_data() does not look the id up in the map", fn=f, sample="self.code_data.get(&code_id)")
    key = W + "contract_code"
    f = ctx.need_fn(R, key)
    if f is not None:
        ok = contains(P.ret(f), lambda x: x[0] == "index" and contains(x[1], lambda y: y[0] == "field" and y[2] == "code_base")) and \
            contains(P.ret(f), lambda x: x[0] == "call" and x[1] == W + "code_data" and is_param(x[2][1], "code_id"))
        idx_ok = False
        for bid, t in f.calls():
            if t["callee"]["name"] == "index":
                a = P.call_args(f, t, bid)
                idx_ok = contains(a[1], lambda x: x[0] == "field" and x[2] == "source_id" and contains(x[1], lambda y: y[0] == "call" and y[1] == W + "code_data"))
        ctx.ob(R, key, "handler=code_base[code_data(id).source_id]", ok or idx_ok, "contract_code does not index code_base by the looked-up source_id", fn=f,
               sample="code_base[code_data(code_id)?.source_id]")


def r4(ctx, cfg):
    F, P = cfg.facts, cfg.prov
    R = "C11.R4"
    key = W + "register_contract"
    f = ctx.need_fn(R, key)
    if f is None:
        return
    sc = q.calls(f, W + "save_contract")
    ctx.ob(R, key, "one-registry-write", len(sc) == 1, "expected one save_contract, found %d" % len(sc), fn=f, sample="1")
    for bid, t in sc:
        a = P.call_args(f, t, bid)
        addr = a[2]
        conds = q.dominating_conditions(P, f, bid)
        ok = q.has_cond(conds, "is_ok", pol=False, arg_pred=lambda args: peel(args[0])[0] == "call" and peel(args[0])[1] == "wasm::Wasm::contract_data" and
                        same_origin(peel(args[0])[2][2], addr) and is_param(peel(args[0])[2][1], "storage"))
        ctx.ob(R, key, "no-existing-contract-at-address", ok, "save_contract(addr) is reachable when a contract already exists at addr", fn=f,
               line=t["line"], sample="guard: !contract_data(storage, &addr).is_ok()")
        out = q.successes_outside(P, f, lambda cs: q.succeeded(cs, W + "save_contract"))
        ctx.ob(R, key, "succeeds-only-by-registering", not out,
               "register_contract can produce a success at block(s) %s without the guarded save_contract having succeeded (a duplicate would be reported as created)" % out,
               fn=f, sample="every non-Err result dominated by Continue(save_contract(..))")
        ctx.ob(R, key, "same-store", is_param(a[1], "storage"), "registry written to %s" % fmt(a[1]), fn=f, sample="storage")
        # the returned address is the registered one
        ret = P.ret(f)
        ok = contains(ret, lambda x: x[0] == "agg" and x[1].endswith("Result::Ok") and same_origin(x[2][0][1], addr))
        ctx.ob(R, key, "returns-registered-address", ok, "register_contract returns another address than it registered", fn=f, sample="Ok(addr)")


def record_io(ctx, cfg, R):
    """the registry record is written and read as it is: `save_contract(storage, address, contract)` saves exactly the record it
    is given under exactly that address, and `contract_data(storage, address)` is that entry.  Whoever changes one field of a
    record and saves it (a new admin, the code id of a migration) relies on both."""
    F, P = cfg.facts, cfg.prov
    key = W + "save_contract"
    f = ctx.need_fn(R, key)
    if f is not None:
        sv = q.calls(f, "cw_storage_plus::Map::save")
        ok = len(sv) == 1
        if ok:
            a = P.call_args(f, sv[0][1], sv[0][0])
            ok = peel(a[0]) == ("item", "wasm::CONTRACTS") and is_param(a[2], "address") and is_param(a[3], "contract")
        ctx.ob(R, key, "CONTRACTS[address]=contract", ok, "save_contract does not save the record under the address", fn=f,
               sample="CONTRACTS.save(.., address, contract)")
    cd = ctx.need_fn(R, "<wasm::WasmKeeper as wasm::Wasm>::contract_data")
    if cd is not None:
        def is_load(x):
            if not (x[0] == "call" and x[1] in ("cw_storage_plus::Map::load", "cw_storage_plus::Map::may_load") and peel(x[2][0]) == ("item", "wasm::CONTRACTS")):
                return False
            st = peel(x[2][1])
            return st[0] == "call" and st[1] == "prefixed_storage::prefixed_read" and is_param(st[2][0], "storage") and peel(st[2][1]) == ("item", "wasm::NAMESPACE_WASM") and \
                is_param(x[2][2], "address")
        vals = q.success_payloads(P, cd)
        ctx.ob(R, cd.key, "contract_data-is-the-registry-entry-of-that-address", bool(vals) and all(contains(v, is_load) for v in vals),
               "contract_data answers %s" % [fmt(peel(v))[:100] for v in vals], fn=cd, sample="CONTRACTS.load(prefixed_read(storage, NAMESPACE_WASM), address)")


def r5(ctx, cfg):
    F, P = cfg.facts, cfg.prov
    R = "C11.R5"
    key = W + "register_contract"
    f = ctx.need_fn(R, key)
    if f is not None:
        aggs = [(b, i, st) for b, i, st in f.stmts() if st["k"] == "assign" and st["rv"].get("k") == "aggregate" and st["rv"].get("adt") == "wasm::ContractData"]
        ok = len(aggs) == 1
        ctx.ob(R, key, "one-ContractData", ok, "expected one ContractData aggregate", fn=f, sample="1")
        if ok:
            b, i, st = aggs[0]
            d = dict(P.rvalue(f, st["rv"], (b, i))[2])
            for fld in ("code_id", "creator", "admin", "label", "created"):
                ctx.ob(R, key, "ContractData.%s=%s" % (fld, fld), is_param(d[fld], fld), "ContractData.%s is %s" % (fld, fmt(d[fld])[:80]), fn=f,
                       line=st["line"], sample=fmt(d[fld])[:60])
            sc = q.calls(f, W + "save_contract")
            if sc:
                a = P.call_args(f, sc[0][1], sc[0][0])
                ctx.ob(R, key, "that-record-is-saved", peel(a[3])[0] == "agg" and peel(a[3])[1].startswith("wasm::ContractData"),
                       "save_contract stores %s" % fmt(a[3])[:80], fn=f, sample="save_contract(storage, &addr, &info)")
    key = W + "save_contract"
    f = ctx.need_fn(R, key)
    if f is not None:
        sv = q.calls(f, "cw_storage_plus::Map::save")
        ok = len(sv) == 1
        if ok:
            a = P.call_args(f, sv[0][1], sv[0][0])
            ok = peel(a[0]) == ("item", "wasm::CONTRACTS") and is_param(a[2], "address") and is_param(a[3], "contract")
        ctx.ob(R, key, "CONTRACTS[address]=contract", ok, "save_contract does not save the record under the address", fn=f,
               sample="CONTRACTS.save(.., address, contract)")
    key = W + "process_wasm_msg_instantiate"
    f = ctx.need_fn(R, key)
    if f is not None:
        rc = q.calls(f, W + "register_contract")
        ok = len(rc) == 1
        ctx.ob(R, key, "one-register_contract", ok, "expected one register_contract call", fn=f, sample="1")
        if ok:
            bid, t = rc[0]
            a = P.call_args(f, t, bid)
            checks = [("code_id", is_param(a[3], "code_id")), ("creator=sender", is_param(a[4], "sender")),
                      ("admin", contains(a[5], lambda x: x[0] == "param" and x[2] == "admin") and not contains(a[5], lambda x: x[0] == "param" and x[2] != "admin")),
                      ("label", is_param(a[6], "label")),
                      ("created=block.height", peel(a[7])[0] == "field" and peel(a[7])[2] == "height" and is_param(peel(a[7])[1], "block")),
                      ("salt", is_param(a[8], "salt"))]
            for name, okc in checks:
                ctx.ob(R, key, "register(%s)" % name, okc, "register_contract argument %s is not the message's value" % name, fn=f, line=t["line"],
                       sample=name)
            conds = q.dominating_conditions(P, f, bid)
            ctx.ob(R, key, "empty-label-rejected", q.has_cond(conds, "is_empty", pol=False, arg_pred=lambda args: is_param(args[0], "label")),
                   "register_contract is reachable with an empty label", fn=f, line=t["line"], sample="guard: !label.is_empty()")
    # execute_wasm passes the message fields to process_wasm_msg_instantiate
    key = W + "execute_wasm"
    f = ctx.need_fn(R, key)
    if f is not None:
        n = 0
        for bid, t in q.calls(f, W + "process_wasm_msg_instantiate"):
            n += 1
            a = P.call_args(f, t, bid)
            names = ["sender", "admin", "code_id", "msg", "funds", "label"]
            ok = is_param(a[5], "sender") and all(is_param_field(a[6 + j], "msg", nm) for j, nm in enumerate(names[1:]))
            arm = _arm_of(P, f, bid)
            if arm == "Instantiate2":
                ok = ok and contains(a[11], lambda x: is_param_field(x, "msg", "salt"))
            else:
                ok = ok and peel(a[11])[0] == "agg" and peel(a[11])[1].endswith("Option::None")
            ctx.ob(R, key, "instantiate-fields-forwarded:%s" % arm, ok, "arm %s forwards %s" % (arm, [fmt(x)[:30] for x in a[5:]]), fn=f, line=t["line"],
                   sample="(sender, admin, code_id, msg, funds, label, salt)")
        ctx.ob(R, key, "instantiate-arms", n == (2 if cfg.has("cosmwasm_1_2") else 1), "instantiate arms found: %d" % n, fn=f, sample=str(n))


def r6(ctx, cfg):
    F, P = cfg.facts, cfg.prov
    R = "C11.R6"
    key = "addresses::AddressGenerator::predictable_contract_address"
    f = ctx.need_fn(R, key)
    if f is not None:
        lv = leaves(P.ret(f))
        params = {x[2] for x in lv if x[0] == "param"}
        ctx.ob(R, key, "depends-only-on(api,checksum,creator,salt)", params <= {"api", "checksum", "creator", "salt"} and {"checksum", "creator", "salt"} <= params,
               "salted address depends on %s" % sorted(params), fn=f, sample=str(sorted(params)))
        i2 = q.calls(f, "cosmwasm_std::instantiate2_address")
        ok = len(i2) == 1
        if ok:
            a = P.call_args(f, i2[0][1], i2[0][0])
            ok = is_param(a[0], "checksum") and is_param(a[1], "creator") and is_param(a[2], "salt")
        ctx.ob(R, key, "instantiate2_address(checksum, creator, salt)", ok, "arguments of instantiate2_address are not (checksum, creator, salt)", fn=f,
               sample="instantiate2_address(checksum, creator, salt)")
    key = "addresses::AddressGenerator::contract_address"
    f = ctx.need_fn(R, key)
    if f is not None:
        lv = leaves(P.ret(f))
        params = {x[2] for x in lv if x[0] == "param"}
        ctx.ob(R, key, "depends-only-on(api,code_id,instance_id)", params <= {"api", "code_id", "instance_id"} and {"code_id", "instance_id"} <= params,
               "classic address depends on %s" % sorted(params), fn=f, sample=str(sorted(params)))
    # (the private helper instantiate_address is always spliced into the default method - vlib/inline.py ALWAYS_INLINE - so that it
    # does not matter whether the hashing lives in a helper or in the method itself)
    key = "addresses::AddressGenerator::contract_address"
    f = ctx.need_fn(R, key)
    if f is not None:
        # key = b"wasm\0" ++ code_id.to_be_bytes() ++ instance_id.to_be_bytes()
        # the hashed key: the Vec that receives extend_from_slice calls (however they are written: three calls, a loop
        # over the three parts, concat)
        from vlib import pipeline
        # the key is what is fed last into the hash: Sha256::new().chain(module).chain(KEY)
        # the key is what is fed last into the hash: `Sha256::new().chain(module).chain(KEY)` or `hasher.update(module);
        # hasher.update(KEY)` - the feeding calls in execution order
        feeds = [(b0, t0) for b0, t0 in f.calls() if t0["callee"]["name"] in ("chain", "chain_update", "update") and len(t0["args"]) == 2 and
                 not t0["callee"]["key"].startswith("std::iter::")]      # (the hasher's chain / update, not Iterator::chain)
        cf0 = cfg_of(f)
        rank0 = {id(x): sum(1 for y in feeds if y is not x and cf0.dominates(y[0], x[0])) for x in feeds}
        feeds.sort(key=lambda x: rank0[id(x)])
        parts = None
        if len(feeds) >= 2:
            # (the key may be fed in one piece or piece by piece - a streaming hash sees the same bytes: everything after the
            #  first feed, the module digest, in order)
            parts = []
            for b1, t1 in feeds[1:]:
                ps = pipeline.byte_parts(P, F, f, P.call_args(f, t1, b1)[1])
                if ps is None:
                    parts = None
                    break
                parts += ps
        ok = parts is not None and len(parts) == 3
        d = "?"
        if ok:
            a0, a1, a2 = [peel(x) for x in parts]
            d = "[%s, %s, %s]" % (fmt(a0)[:30], fmt(a1)[:40], fmt(a2)[:40])
            ok = a0[0] == "const" and a0[2] == "wasm\x00" and a1[0] == "call" and a1[1].endswith("to_be_bytes") and is_param(a1[2][0], "code_id") and \
                a2[0] == "call" and a2[1].endswith("to_be_bytes") and is_param(a2[2][0], "instance_id")
        ctx.ob(R, key, "key=wasm\\0++code_id++instance_id", ok, "classic address key is %s" % d, fn=f, sample=d)
    key = W + "register_contract"
    f = ctx.need_fn(R, key)
    if f is not None:
        pc = q.calls(f, ("addresses::AddressGenerator", "predictable_contract_address"))
        ok = len(pc) == 1
        ctx.ob(R, key, "one-salted-site", ok, "expected one predictable_contract_address call", fn=f, sample="1")
        if ok:
            bid, t = pc[0]
            a = P.call_args(f, t, bid)
            # (the code's record: looked up by the accessor `code_data(code_id)` or in the map itself, `self.code_data.get(&code_id)`)
            def the_code(y):
                return (y[0] == "call" and y[1] == W + "code_data" and is_param(y[2][1], "code_id")) or \
                    (y[0] == "call" and y[1] == "std::collections::BTreeMap::get" and peel(y[2][0])[0] == "field" and peel(y[2][0])[2] == "code_data" and
                     is_param(peel(y[2][0])[1], "self") and is_param(y[2][1], "code_id"))
            chk = contains(a[5], lambda x: x[0] == "field" and x[2] == "checksum" and contains(x[1], the_code))
            cr = contains(a[6], lambda x: x[0] == "call" and x[1].endswith("Api::addr_canonicalize") and contains(x[2][1], lambda y: y[0] == "param" and y[2] == "creator"))
            sl = contains(a[7], lambda x: x[0] == "param" and x[2] == "salt") and not contains(a[7], lambda x: x[0] == "param" and x[2] != "salt")
            ctx.ob(R, key, "salted(checksum of code, canonical creator, salt)", chk and cr and sl,
                   "salted address built from (%s, %s, %s)" % (fmt(a[5])[:60], fmt(a[6])[:60], fmt(a[7])[:60]), fn=f, line=t["line"],
                   sample="(code_data(code_id).checksum, addr_canonicalize(creator), salt)")
            conds = q.dominating_conditions(P, f, bid)
            ok = any(c[0] == "variant_in" and c[2] == ("Some",) and contains(c[1], lambda x: x[0] == "param" and x[2] == "salt") for e, c in conds)
            # .. and by nothing else about the salt (an empty salt is a salt: instantiate2_address rejects it, the classic
            # address must not be used for it)
            extra = [c[1] for e, c in conds if c[0] == "bool" and not q.is_derived(c) and any(contains(x, lambda y: y[0] == "param" and y[2] == "salt") for x in c[1][1])]
            ctx.ob(R, key, "salted-iff-salt-given", ok and not extra, "predictable_contract_address is not selected by `salt` being Some alone (%s)" % [(e1[0], e1[2]) for e1 in extra], fn=f, line=t["line"],
                   sample="under Some(salt)")
        cc = q.calls(f, ("addresses::AddressGenerator", "contract_address"))
        ok = len(cc) == 1
        if ok:
            bid, t = cc[0]
            a = P.call_args(f, t, bid)
            inst = peel(a[4])
            # the instance number is the number of registered contracts: CONTRACTS.range_raw(wasm view of this storage).count()
            # (the private helper instance_count is always spliced - vlib/inline.py ALWAYS_INLINE)
            def is_count(x):
                if not (x[0] == "call" and x[1].endswith("Iterator::count")):
                    return False
                # (every record counts once whether its keys, its raw pairs or its decoded pairs are walked; the walk is unbounded)
                def none(z):
                    z = peel(z)
                    return z[0] == "agg" and z[1].endswith("Option::None")
                return contains(x[2][0], lambda y: y[0] == "call" and y[1] in ("cw_storage_plus::Map::range_raw", "cw_storage_plus::Map::keys_raw", "cw_storage_plus::Map::range",
                                                                                "cw_storage_plus::Map::keys") and peel(y[2][0]) == ("item", "wasm::CONTRACTS") and
                                len(y[2]) >= 4 and none(y[2][2]) and none(y[2][3]) and
                                contains(y[2][1], lambda z: z[0] == "call" and z[1] == "prefixed_storage::prefixed_read" and is_param(z[2][0], "storage") and
                                         peel(z[2][1]) == ("item", "wasm::NAMESPACE_WASM")))
            ok = is_param(a[3], "code_id") and contains(inst, is_count)
            if not ok and is_param(a[3], "code_id"):
                # `let mut n = 0; for _ in CONTRACTS.range_raw(..) { n += 1 }`: the same count, written as a loop
                src = q.counted_loop(P, F, f, inst)
                ok = src is not None and not [n for n in q.chain_adapters(src) if n not in ("into_iter", "iter")] and \
                    is_count(("call", "std::iter::Iterator::count", (src,)))
        if len(cc) == 1:
            cconds = q.dominating_conditions(P, f, cc[0][0])
            none_only = any(c[0] == "variant_in" and c[2] == ("None",) and contains(c[1], lambda x: x[0] == "param" and x[2] == "salt") for e, c in cconds) and \
                not any(c[0] == "bool" and not q.is_derived(c) and any(contains(x, lambda y: y[0] == "param" and y[2] == "salt") for x in c[1][1]) for e, c in cconds)
            ctx.ob(R, key, "classic-iff-no-salt", none_only, "the classic (code id, instance) address is used although a salt was given (it must be selected by `salt` being None)", fn=f,
                   line=cc[0][1]["line"], sample="under None")
        ctx.ob(R, key, "classic(code_id, instance_count(storage))", ok, "classic address arguments are not (code_id, instance_count(storage))", fn=f,
               sample="contract_address(api, storage, code_id, instance_count(storage))")


MAX_KEY_IDIOMS = {
    ("keys", "last"), ("keys", "next_back"), ("keys", "max"), ("last_key_value",), ("iter", "next_back"), ("iter", "last"),
    ("into_keys", "max"), ("keys", "copied", "max"), ("keys", "cloned", "max"),
}


def r7(ctx, cfg):
    F, P = cfg.facts, cfg.prov
    R = "C11.R7"
    key = W + "next_code_id"
    f = ctx.need_fn(R, key)
    if f is not None:
        ret = peel(P.ret(f))
        # (`match last { None => Some(1), Some(k) => k.checked_add(1) }` is the same function as `last.unwrap_or(0).checked_add(1)`)
        rets = [peel(x) for x in alts(ret)]
        first = [x for x in rets if x[0] == "agg" and x[1].endswith("Option::Some") and len(x[2]) == 1 and peel(x[2][0][1]) == ("const", "int", 1)]
        if first and len(rets) - len(first) == 1:
            ret = [x for x in rets if x not in first][0]
        ok = ret[0] == "call" and ret[1].endswith("checked_add") and peel(ret[2][1]) == ("const", "int", 1)
        chain = []
        if ok:
            o = peel(ret[2][0])
            if first:
                chain.append("unwrap_or")
            # `x.unwrap_or(&0)` / `match x { Some(v) => v, None => 0 }`: alternatives {0, some(x)}
            al = [peel(x) for x in alts(o)]
            if len(al) == 2 and any(x == ("const", "int", 0) for x in al):
                o = [x for x in al if x != ("const", "int", 0)][0]
                if o[0] == "field" and o[2] == "0" and peel(o[1])[0] == "some" and peel(peel(o[1])[1])[0] == "call" and \
                        peel(peel(o[1])[1])[1].rsplit("::", 1)[1] in ("last_key_value", "first_key_value"):
                    o = peel(o[1])          # (the key of the pair `last_key_value()` yields)
                if o[0] == "some":
                    o = peel(o[1])
                chain.append("unwrap_or")
            while o[0] == "call" or (o[0] == "bound" and o[1] == "elem"):
                if o[0] == "bound":
                    # `Some(k) = it.next_back()` outside a loop: which end of the iterator it is decides
                    nx = [t for b, t in f.calls() if t["callee"]["key"] in ("std::iter::Iterator::next", "std::iter::DoubleEndedIterator::next_back")]
                    chain.append(nx[0]["callee"]["key"].rsplit("::", 1)[1] if len(nx) == 1 else "?")
                    o = peel(o[2])
                    continue
                name = o[1].rsplit("::", 1)[1]
                chain.append(name)
                nxt = peel(o[2][0])
                if name in ("unwrap_or", "map_or"):
                    dflt = [peel(x) for x in o[2][1:]]
                    ok = ok and any(d == ("const", "int", 0) for d in dflt)
                # (`unwrap_or_default()` of an integer is `unwrap_or(0)`)
                o = nxt
            ok = ok and _is_code_data_field(o)
            idiom = tuple(reversed([c for c in chain if c not in ("unwrap_or", "map_or", "unwrap_or_default", "map", "copied", "cloned")]))
            ok = ok and (idiom in MAX_KEY_IDIOMS or tuple(reversed(chain[1:])) in MAX_KEY_IDIOMS)
        ctx.ob(R, key, "next=max_key_or_0 checked_add 1", ok, "next_code_id is %s (chain %s)" % (fmt(ret)[:160], chain), fn=f,
               sample="code_data.keys().last().unwrap_or(&0).checked_add(1)")
    key = WT + "store_code"
    f = ctx.need_fn(R, key)
    if f is not None:
        sc = q.calls(f, W + "save_code")
        ok = len(sc) == 1
        if ok:
            a = P.call_args(f, sc[0][1], sc[0][0])
            # (the id next_code_id() yields, as it is: unwrapped in whatever way, but not computed on)
            cs0 = []
            contains(a[1], lambda x: cs0.append(x[1]) if x[0] == "call" else False)
            ok = contains(a[1], lambda x: x[0] == "call" and x[1] == W + "next_code_id") and \
                all(c == W + "next_code_id" or c.rsplit("::", 1)[-1] in ("unwrap_or_else", "unwrap", "expect", "ok_or_else", "ok_or", "into", "from") for c in cs0) and \
                not contains(a[1], lambda x: x[0] in ("binop", "unop")) and is_param(a[2], "creator") and is_param(a[3], "code")
        ctx.ob(R, key, "auto-id=next_code_id()", ok, "store_code does not store under next_code_id()", fn=f, sample="save_code(next_code_id()?, creator, code)")
    key = WT + "duplicate_code"
    f = ctx.need_fn(R, key)
    if f is not None:
        ins = q.calls(f, "std::collections::BTreeMap::insert")
        ok = len(ins) == 1
        d = "?"
        if ok:
            bid, t = ins[0]
            a = P.call_args(f, t, bid)
            cd = peel(a[2])
            d = fmt(cd)[:200]
            src = lambda x: contains(x, lambda y: y[0] == "call" and y[1] == W + "code_data" and is_param(y[2][1], "code_id"))
            # field by field, or the looked-up record cloned as a whole (`self.code_data(code_id)?.clone()`)
            whole = just(a[2], lambda y: y[0] == "ok" and peel(y[1])[0] == "call" and peel(y[1])[1] == W + "code_data" and is_param(peel(y[1])[2][1], "code_id"))
            ok = _is_code_data_field(a[0]) and contains(a[1], lambda x: x[0] == "call" and x[1] == W + "next_code_id") and \
                (whole or (cd[0] == "agg" and all(src(v) and contains(v, lambda y, nm=nm: y[0] == "field" and y[2] == nm) for nm, v in cd[2])))
            conds = q.dominating_conditions(P, f, bid)
            ok = ok and any(c[0] == "variant_in" and c[2] in (("Continue",), ("Ok",)) and peel(c[1])[0] == "call" and peel(c[1])[1] == W + "code_data" for e, c in conds)
        ctx.ob(R, key, "copy-of-looked-up-entry-under-next-id", ok, "duplicate_code inserts %s" % d, fn=f, sample=d[:160])
        ret = P.ret(f)
        ok = contains(ret, lambda x: x[0] == "agg" and x[1].endswith("Result::Ok") and contains(x[2][0][1], lambda y: y[0] == "call" and y[1] == W + "next_code_id"))
        ctx.ob(R, key, "returns-new-id", ok, "duplicate_code does not return the new id", fn=f, sample="Ok(new_code_id)")


def r9(ctx, cfg, R="C11.R9"):
    """"with a salt, the address is a function of only the code checksum, creator and salt" - of the generators the keeper was
    given: `with_address_generator` / `with_checksum_generator` return the keeper with exactly that field replaced by the
    generator supplied (a builder that drops it silently leaves the default generators in place)"""
    F, P = cfg.facts, cfg.prov
    for name, fld, prm in (("with_address_generator", "address_generator", "address_generator"), ("with_checksum_generator", "checksum_generator", "checksum_generator")):
        key = W + name
        f = ctx.need_fn(R, key)
        if f is None:
            continue
        rv = peel(P.ret(f))
        ok = False
        d = fmt(rv)[:120]
        if rv[0] == "upd" and is_param(rv[1], "self"):
            ch = {pth: v for pth, v in rv[2]}
            ok = set(ch) == {(fld,)} and is_param(ch[(fld,)], prm)
        elif rv[0] == "agg":
            dd = dict(rv[2])
            ok = is_param(dd.get(fld, ("?",)), prm) and all(peel(v)[0] == "field" and peel(v)[2] == k and is_param(peel(v)[1], "self") for k, v in dd.items() if k != fld)
        ctx.ob(R, key, "keeps-the-generator-supplied", ok, "%s returns %s" % (name, d), fn=f, sample="self with {%s: Box::new(%s)}" % (fld, prm))


def r10(ctx, cfg):
    """"every stored or duplicated code can be ... queried under its id ... a contract's recorded code id, creator, admin and label are
    exactly what was supplied": what the registry queries answer is the record itself -
    ContractInfo { contract_addr } -> (code_id, creator, admin) of contract_data(storage, validated contract_addr);
    CodeInfo { code_id } -> (that code_id, creator and checksum of code_data(that code_id))."""
    F, P = cfg.facts, cfg.prov
    R = "C11.R10"
    key = "<wasm::WasmKeeper as wasm::Wasm>::query"
    f = ctx.need_fn(R, key)
    if f is None:
        return

    def reqf(o, arm, name):
        o = peel(o)
        return o[0] == "field" and o[2] == name and peel(o[1])[0] == "variant" and peel(o[1])[2] == arm and is_param(peel(o[1])[1], "request")

    def field_of_contract(o, name):
        def pred(x):
            if not (x[0] == "field" and x[2] == name):
                return False
            r = peel(x[1])
            if not (r[0] == "ok" and peel(r[1])[0] == "call" and peel(r[1])[1] == "wasm::Wasm::contract_data"):
                return False
            a = peel(r[1])[2]
            ad = peel(a[2])
            return is_param(a[1], "storage") and ad[0] == "ok" and peel(ad[1])[0] == "call" and peel(ad[1])[1].endswith("Api::addr_validate") and \
                just(peel(ad[1])[2][1], lambda y: reqf(y, "ContractInfo", "contract_addr"))
        return just(o, pred)

    def field_of_code(o, name):
        def pred(x):
            if not (x[0] == "field" and x[2] == name):
                return False
            r = peel(x[1])
            return r[0] == "ok" and peel(r[1])[0] == "call" and peel(r[1])[1] == W + "code_data" and just(peel(r[1])[2][1], lambda y: reqf(y, "CodeInfo", "code_id"))
        return just(o, pred)
    # the record itself: contract_data(storage, address) is CONTRACTS.load on the wasm read view of that store under that address
    cd = F.fn("<wasm::WasmKeeper as wasm::Wasm>::contract_data")
    if cd is not None:
        def is_load(x):
            if not (x[0] == "call" and x[1] in ("cw_storage_plus::Map::load", "cw_storage_plus::Map::may_load") and peel(x[2][0]) == ("item", "wasm::CONTRACTS")):
                return False
            st = peel(x[2][1])
            return st[0] == "call" and st[1] == "prefixed_storage::prefixed_read" and is_param(st[2][0], "storage") and peel(st[2][1]) == ("item", "wasm::NAMESPACE_WASM") and \
                is_param(x[2][2], "address")
        vals = q.success_payloads(P, cd)
        cs = []
        for v in vals:
            contains(v, lambda x: cs.append(x[1]) if x[0] == "call" else False)
        okc = bool(vals) and all(contains(v, is_load) for v in vals) and \
            all(c.startswith("cw_storage_plus::Map::") or c == "prefixed_storage::prefixed_read" or c.rsplit("::", 1)[-1] in ("map_err", "into", "from", "ok_or_else", "ok_or") for c in cs)
        ctx.ob(R, cd.key, "contract_data-is-the-registry-entry-of-that-address", okc, "contract_data answers %s" % [fmt(peel(v))[:100] for v in vals], fn=cd,
               sample="CONTRACTS.load(prefixed_read(storage, NAMESPACE_WASM), address)")
    ci = [(b, t) for b, t in f.calls() if t["callee"]["key"] == "cosmwasm_std::ContractInfoResponse::new"]
    ok = len(ci) == 1
    if ok:
        a = P.call_args(f, ci[0][1], ci[0][0])
        ok = field_of_contract(a[0], "code_id") and field_of_contract(a[1], "creator") and field_of_contract(a[2], "admin")
    ctx.ob(R, key, "ContractInfo-answers-the-stored-record", ok, "the ContractInfo query does not answer (code_id, creator, admin) of contract_data(validated contract_addr)", fn=f,
           sample="ContractInfoResponse::new(contract.code_id, contract.creator, contract.admin, ..)")
    if cfg.has("cosmwasm_1_2"):
        co = [(b, t) for b, t in f.calls() if t["callee"]["key"] == "cosmwasm_std::CodeInfoResponse::new"]
        ok = len(co) == 1
        if ok:
            a = P.call_args(f, co[0][1], co[0][0])
            ok = just(a[0], lambda y: reqf(y, "CodeInfo", "code_id")) and field_of_code(a[1], "creator") and field_of_code(a[2], "checksum")
        ctx.ob(R, key, "CodeInfo-answers-the-stored-record", ok, "the CodeInfo query does not answer (code_id, creator and checksum of code_data(code_id))", fn=f,
               sample="CodeInfoResponse::new(code_id, code_data.creator, code_data.checksum)")


def r11(ctx, cfg):
    """"explicitly chosen ids are honoured ... a contract's recorded ... creator ... exactly what was supplied": App's code-registry
    entry points hand their own arguments, as they are and in order, to the wasm module's method of the same kind and answer
    with its result (`store_code` supplies the fixed default creator and nothing of its own)"""
    F, P = cfg.facts, cfg.prov
    R = "C11.R11"
    table = {"store_code": ("wasm::Wasm::store_code", [None, "code"]), "store_code_with_creator": ("wasm::Wasm::store_code", ["creator", "code"]),
             "store_code_with_id": ("wasm::Wasm::store_code_with_id", ["creator", "code_id", "code"]), "duplicate_code": ("wasm::Wasm::duplicate_code", ["code_id"])}
    for name, (callee, params) in sorted(table.items()):
        key = "app::App::" + name
        f = ctx.need_fn(R, key)
        if f is None:
            continue
        vals = [peel(v) for v in q.success_payloads(P, f)]
        ok = bool(vals)
        for v in vals:
            while v[0] in ("ok",):
                v = peel(v[1])
            # (`store_code` may also be written as `self.store_code_with_creator(<default creator>, code)`: that one is held to its own row)
            via_sibling = name == "store_code" and v[0] == "call" and v[1] == "app::App::store_code_with_creator" and len(v[2]) == 3 and is_param(v[2][0], "self")
            if not via_sibling and not (v[0] == "call" and v[1] == callee and len(v[2]) == len(params) + 1):
                ok = False
                continue
            recv = peel(v[2][0])
            ok = ok and (via_sibling or (recv[0] == "field" and recv[2] == "wasm" and contains(recv[1], lambda x: is_param(x, "self"))))
            for a, pn in zip(v[2][1:], params):
                if pn is None:
                    ok = ok and not contains(a, lambda x: x[0] == "param")
                else:
                    ok = ok and just(a, lambda y, pn=pn: y[0] == "param" and y[2] == pn)
        ctx.ob(R, key, "hands-its-arguments-to-the-wasm-module", ok, "%s does not answer self.router.wasm.%s(%s)" % (name, callee.rsplit("::", 1)[-1], ", ".join(p or "<default creator>" for p in params)),
               fn=f, sample="%s(%s)" % (callee.rsplit("::", 1)[-1], ", ".join(p or "<default creator>" for p in params)))
