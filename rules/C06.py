"""C06 — the transactional overlay behaves like an ordered map: decided structural clauses (DESIGN.md §5 C06)."""
from vlib import q
from vlib.cfg import cfg_of
from vlib.paths import decision_table
from vlib.prov import peel, fmt, is_param, contains, alts, deep_peel, same_origin, root_param, just

LEVEL = "other"
LEVEL_TEXT = (
    "Partial: decides the clauses of C06 whose truth is in the shape of the code, each a necessary condition of the "
    "ordered-map behaviour: base borrowed shared while the cache lives (type facts), dual recording of every set/remove "
    "in overlay and replay log, replay in log order with the Set/Delete table, the point-lookup table, inverted bounds "
    "never reaching BTreeMap::range, and the complete merge-step decision tables (order x Ordering, Some/None x "
    "Some/None, Set/Delete). Full equivalence with a reference ordered map for all contents and stacking depths is NOT "
    "decided (needs induction over two sorted inputs)."
)
EXPLANATION = LEVEL_TEXT
TRUSTED = ["rustc type/borrow checker and MIR construction", "cwmt-facts driver", "vlib (provenance, path enumeration)",
           "std BTreeMap / Peekable / Vec semantics", "cosmwasm-std MemoryStorage"]
ASSUMPTIONS = ["the base store's own range() is sorted and duplicate-free"]

T = "transactions::"
ST = "<transactions::StorageTransaction as cosmwasm_std::Storage>::"
STORAGE = "cosmwasm_std::Storage"


def check(ctx, cfg):
    r1(ctx, cfg)
    r2(ctx, cfg)
    r3(ctx, cfg)
    r4(ctx, cfg)
    r5(ctx, cfg)
    r6(ctx, cfg)
    r7(ctx, cfg)
    r8(ctx, cfg)


def r8(ctx, cfg):
    """"committing makes the base equal to that ordered map": the replay of the log cannot stop half-way.  The base the crate
    ships (cosmwasm-std's MemoryStorage) panics on an empty value, `Op::apply` hands the logged values on one by one, so an
    empty value must be refused where it is written - in `StorageTransaction::set`, before it enters view and log - or the
    transaction that wrote it is applied up to that entry and then dies.  (Stated under C06 only.)"""
    F, P = cfg.facts, cfg.prov
    R = "C06.R8"
    key = "<transactions::StorageTransaction as cosmwasm_std::Storage>::set"
    f = ctx.need_fn(R, key)
    if f is None:
        return
    sites = [(b, t) for b, t in f.calls() if t["callee"]["name"] in ("insert", "append", "push")]
    guarded = bool(sites) and all(any(c[0] == "bool" and c[1][0] == "is_empty" and c[1][2] is False and is_param(c[1][1][0], "value")
                                      for e, c in q.dominating_conditions(P, f, b)) for b, t in sites)
    ctx.ob(R, key, "empty-values-refused-where-written", guarded,
           "StorageTransaction::set records an empty value like any other; the root store refuses it only when the log is replayed: "
           "execute_multi([bank send, contract call doing set(before,1); set(empty,\"\"); set(after,1)]) panics in commit with both bank transfers and "
           "`before` applied and `after` lost", fn=f, sample="recorded only under !value.is_empty()")


def r7(ctx, cfg):
    """"answers ... range ... exactly as a plain ordered map would": the merge iterator answers at all - it does not go on to the next
    entry by calling itself.  One stack frame (three, through pick_match and take_left) per consecutive deleted key means that a
    run of a few thousand tombstones - a contract that clears a map of 5000 entries and then iterates - ends the process with a
    stack overflow instead of an answer.  Decided on the call graph of the functions of transactions.rs: `Iterator::next` of
    MergeOverlay is not reachable from itself.  (Stated under C06 only, not as part of the shared overlay premise.)"""
    F = cfg.facts
    R = "C06.R7"
    nxt = "<transactions::MergeOverlay as std::iter::Iterator>::next"
    f = ctx.need_fn(R, nxt)
    if f is None:
        return
    def callees(g):
        out = set()
        for h in F.lexical(g.key):
            for b, t in h.calls():
                c = t["callee"]
                k = c.get("resolved") or c["key"]
                if k.startswith("<transactions::") or k.startswith("transactions::"):
                    out.add(k)
        return out
    seen, todo, cyc = set(), [nxt], False
    path = {}
    while todo:
        k = todo.pop()
        g = F.fn(k)
        if g is None:
            continue
        for c in callees(g):
            if c == nxt:
                cyc = True
                path[c] = k
            if c not in seen:
                seen.add(c)
                path.setdefault(c, k)
                todo.append(c)
    ctx.ob(R, nxt, "skipped-entries-do-not-cost-a-stack-frame", not cyc,
           "MergeOverlay::next is reached again from %s: every consecutive deleted key adds stack frames, a run of a few thousand tombstones "
           "overflows the stack (5001 entries, 5000 removed in the same transaction, then a range: the process aborts)" % path.get(nxt, "?"), fn=f,
           sample="no call path from next back to next")


def _self_field(o, name):
    o = peel(o)
    return o[0] == "field" and o[2] == name and is_param(o[1], "self")


def r1(ctx, cfg):
    F, P = cfg.facts, cfg.prov
    R = "C06.R1"
    adt = F.adts.get(T + "StorageTransaction")
    if adt is None:
        ctx.fail(R, T + "StorageTransaction", "anchor-missing", "type not found")
        return
    fl = {x["name"]: x for x in adt["variants"][0]["fields"]}
    ok = "storage" in fl and fl["storage"]["ty"].get("ref") == "shared" and fl["storage"]["ty"].get("dyn")
    ctx.ob(R, T + "StorageTransaction", "base-held-by-shared-reference", ok,
           "StorageTransaction.storage must be `&dyn Storage` (a shared borrow keeps the base frozen while the cache lives)",
           sample=fl.get("storage", {}).get("ty", {}).get("s"))
    # prepare consumes the cache; commit needs the base mutably
    for imp in F.impls:
        if imp["self_name"] == T + "StorageTransaction" and "trait" not in imp:
            for m in imp["methods"]:
                if m["name"] == "prepare":
                    ctx.ob(R, m["key"], "prepare-consumes-cache", m["inputs"][0].get("ref") is None,
                           "prepare must take `self` by value", sample="prepare(self)")
        if imp["self_name"] == T + "RepLog" and "trait" not in imp:
            for m in imp["methods"]:
                if m["name"] == "commit":
                    ok = m["inputs"][0].get("ref") is None and q.is_storage_mut_ty(m["inputs"][1])
                    ctx.ob(R, m["key"], "commit(self, &mut base)", ok, "commit signature changed: %s" % [i["s"] for i in m["inputs"]],
                           sample="commit(self, &mut dyn Storage)")
    # the cache never hands its base to a mutating callee; set/remove do not touch the base at all
    for name in ("get", "range", "set", "remove"):
        f = ctx.need_fn(R, ST + name)
        if f is None:
            continue
        uses = []
        for bid, t in f.calls():
            args = P.call_args(f, t, bid)
            for i, a in enumerate(args):
                if _self_field(a, "storage"):
                    uses.append((t["callee"], i))
        if name in ("set", "remove"):
            ctx.ob(R, ST + name, "write-does-not-reach-base", not uses, "%s touches the base store via %s" % (name, [c["key"] for c, i in uses]),
                   fn=f, sample="no use of self.storage")
        else:
            ok = all(c.get("trait") == STORAGE and c["name"] in ("get", "range") and c["inputs"][i].get("ref") == "shared" for c, i in uses) and len(uses) == 1
            ctx.ob(R, ST + name, "read-uses-base-shared-once", ok, "%s uses the base via %s" % (name, [c["key"] for c, i in uses]),
                   fn=f, sample="one shared %s on self.storage" % name)


def _op_agg(o, variant):
    o = peel(o)
    return o[0] == "agg" and o[1] == T + "Op::" + variant


def r2(ctx, cfg, R="C06.R2"):
    F, P = cfg.facts, cfg.prov
    for name, variant, fields in (("set", "Set", ("key", "value")), ("remove", "Delete", ("key",))):
        f = ctx.need_fn(R, ST + name)
        if f is None:
            continue
        cf = cfg_of(f)
        ins = q.calls(f, "std::collections::BTreeMap::insert")
        # (RepLog::append is always spliced - vlib/inline.py ALWAYS_INLINE: the log entry is `rep_log.ops_log.push(op)`)
        app = [(b0, t0) for b0, t0 in q.calls(f, "std::vec::Vec::push") if _self_field_path(P.call_args(f, t0, b0)[0], ("rep_log", "ops_log"))]
        # (an entry that exists already may be overwritten in place instead: `match local_state.get_mut(key) { Some(slot) => *slot = delta,
        #  None => { local_state.insert(key.to_vec(), delta); } }` leaves the same map as the plain insert)
        slots = []
        for b0, i0, st0 in f.stmts():
            if st0["k"] == "assign" and [e["k"] for e in st0["dst"]["p"]] == ["deref"]:
                sl = peel(P.local(f, st0["dst"]["l"], (b0, i0)))
                if sl[0] == "some" and peel(sl[1])[0] == "call" and peel(sl[1])[1] == "std::collections::BTreeMap::get_mut":
                    ga = peel(sl[1])[2]
                    slots.append((b0, i0, st0, _self_field(ga[0], "local_state") and is_param(ga[1], "key")))
        ctx.ob(R, ST + name, "one-insert-one-append", len(ins) == 1 and len(app) == 1 and len(slots) <= 1,
               "expected one local_state.insert and one rep_log.append, found %d/%d (and %d overwrites in place)" % (len(ins), len(app), len(slots)), fn=f, sample="1/1")
        if len(ins) != 1 or len(app) != 1 or len(slots) > 1:
            continue
        (ib, it), (ab, at) = ins[0], app[0]
        ia, aa = P.call_args(f, it, ib), P.call_args(f, at, ab)
        ok = _self_field(ia[0], "local_state") and is_param(ia[1], "key")
        # the overlay entry is the delta of this very operation: Delta::Set{value} / Delta::Delete{} (the helper Op::to_delta
        # is always spliced - vlib/inline.py ALWAYS_INLINE - so a hand-inlined literal is the same form)
        d = peel(ia[2])
        ok = ok and d[0] == "agg" and d[1] == T + "Delta::" + variant
        if ok and variant == "Set":
            ok = is_param(dict(d[2]).get("value", ("?",)), "value")
        for b0, i0, st0, right_slot in slots:
            d0 = peel(P.rvalue(f, st0["rv"], (b0, i0)))
            ok = ok and right_slot and d0[0] == "agg" and d0[1] == T + "Delta::" + variant and \
                (variant != "Set" or is_param(dict(d0[2]).get("value", ("?",)), "value"))
        ctx.ob(R, ST + name, "overlay-records-%s(key)" % variant, ok,
               "local_state.insert(%s, %s)" % (fmt(ia[1]), fmt(ia[2])[:100]), fn=f, line=it["line"],
               sample="local_state.insert(key, Op::%s{..}.to_delta())" % variant)
        op = peel(aa[1])
        ok = _op_agg(op, variant)
        if ok:
            dd = dict(op[2])
            ok = all(is_param(dd[fl], fl) for fl in fields)
        ctx.ob(R, ST + name, "log-records-%s(params)" % variant, ok, "rep_log.append(%s)" % fmt(aa[1])[:120], fn=f,
               line=at["line"], sample="rep_log.append(Op::%s{%s})" % (variant, ", ".join(fields)))
        rets = cf.return_blocks()
        rec = [ib] + [b0 for b0, i0, st0, rs in slots]
        ok = all(cf.must_pass(ab, r) and r not in cf.reachable_from(cf.entry, avoid=rec) for r in rets) and cf.entry not in rets
        ctx.ob(R, ST + name, "both-on-every-path", ok, "insert/append are not on every path of %s" % name, fn=f,
               sample="insert and append dominate return")


def _self_field_path(o, path):
    """o is self.<path[0]>.<path[1]>.. (through value-preserving wrappers and recorded &mut hand-outs)"""
    o = peel(o)
    for name in reversed(path):
        if o[0] != "field" or o[2] != name:
            return False
        o = peel(o[1])
    return is_param(o, "self")


def _ret_carriers(fn):
    """locals whose value becomes the function's result through plain moves (what a spliced helper's or closure's `return`
    leaves behind: `tmp = <value>; ..; _0 = move tmp`)"""
    rc = {0}
    grew = True
    while grew:
        grew = False
        for b2, i2, st2 in fn.stmts():
            if st2["k"] == "assign" and not st2["dst"]["p"] and st2["dst"]["l"] in rc and st2["rv"]["k"] == "use" and \
                    st2["rv"]["op"].get("k") in ("copy", "move") and not st2["rv"]["op"]["place"]["p"] and st2["rv"]["op"]["place"]["l"] not in rc:
                rc.add(st2["rv"]["op"]["place"]["l"])
                grew = True
    return rc


def _ret_event(P, fn, site, item, rc=None):
    """event for assignments of the return place (with `rc` = _ret_carriers(fn): of any local that carries the result; the
    plain moves between them are not events)"""
    bid, idx = site
    if rc is not None:
        if idx == "t":
            if item["k"] == "call" and item["dst"]["l"] in rc and not item["dst"]["p"]:
                args = P.call_args(fn, item, bid)
                return ("ret", "call:%s(%s)" % (item["callee"]["key"], ", ".join(_short(a) for a in args)))
            return None
        if item["k"] == "assign" and item["dst"]["l"] in rc and not item["dst"]["p"]:
            rv = item["rv"]
            if rv["k"] == "use" and rv["op"].get("k") in ("copy", "move") and not rv["op"]["place"]["p"] and rv["op"]["place"]["l"] in rc:
                return None
            o = peel(P.rvalue(fn, rv, site))
            if o[0] == "agg":
                return ("ret", "agg:%s{%s}" % (o[1], ", ".join("%s<-%s" % (f, _short(v)) for f, v in o[2])))
            return ("ret", _short(o))
        return None
    if idx == "t":
        if item["k"] == "call" and item["dst"]["l"] == 0 and not item["dst"]["p"]:
            args = P.call_args(fn, item, bid)
            return ("ret", "call:%s(%s)" % (item["callee"]["key"], ", ".join(_short(a) for a in args)))
        return None
    if item["k"] == "assign" and item["dst"]["l"] == 0 and not item["dst"]["p"]:
        o = peel(P.rvalue(fn, item["rv"], site))
        if o[0] == "agg":
            return ("ret", "agg:%s{%s}" % (o[1], ", ".join("%s<-%s" % (f, _short(v)) for f, v in o[2])))
        return ("ret", _short(o))
    return None


def _short(o):
    """compact rendering used inside table cells"""
    o = peel(o)
    if o[0] == "param":
        return o[2]
    if o[0] == "field":
        b = peel(o[1])
        while b[0] in ("variant", "some", "ok"):
            b = peel(b[1])
        if b[0] == "param":
            return "%s.%s" % (b[2], o[2])
        return "%s.%s" % (_short(o[1]), o[2])
    if o[0] in ("variant",):
        return _short(o[1])
    if o[0] in ("some", "ok", "err"):
        return "%s(%s)" % (o[0], _short(o[1]))
    if o[0] == "call":
        return "%s(%s)" % (o[1].rsplit("::", 1)[-1], ", ".join(_short(a) for a in o[2]))
    if o[0] == "agg":
        return "%s{%s}" % (o[1].rsplit("::", 2)[-1] if "::" in o[1] else o[1], ", ".join("%s<-%s" % (f, _short(v)) for f, v in o[2]))
    if o[0] == "const":
        return repr(o[2])
    if o[0] == "multi":
        return "{" + "|".join(sorted(_short(x) for x in o[1])) + "}"
    return fmt(o)[:60]


def r_prepare(ctx, cfg, R="C06.R3"):
    """what is committed is everything the transaction did: `prepare` hands out the cache's log as it is - the `rep_log` of
    the cache it consumes, not pruned, reordered or rebuilt on the way (an op dropped from the log is a write that the
    transaction saw and the base never gets)"""
    F, P = cfg.facts, cfg.prov
    key = T + "StorageTransaction::prepare"
    f = ctx.need_fn(R, key)
    if f is None:
        return
    ret = P.ret(f)
    whole = just(ret, lambda o: o[0] == "field" and o[2] == "rep_log" and is_param(o[1], "self")) and not contains(ret, lambda x: x[0] == "upd")
    # nothing is called on the log (or on anything else) on the way: `retain`, `dedup`, `sort`, `truncate`, a rebuilt log
    calls = sorted({t["callee"]["key"] for g in F.lexical(key) for b, t in g.calls()
                    if any(contains(a, lambda x: x[0] == "field" and x[2] in ("rep_log", "ops_log")) for a in P.call_args(g, t, b))})
    ctx.ob(R, key, "hands-out-the-whole-log", whole and not calls,
           "prepare answers %s%s" % (fmt(ret)[:120], (" after calling %s" % calls[:4]) if calls else ""), fn=f, sample="self.rep_log")


def overlay_premise(ctx, cfg, R):
    """the obligations of C06 under another property's id.  Every property about state that is written and read back inside
    a transaction (a delegation removed, a contract record rewritten, a balance debited) holds only if the transaction
    overlay those reads and writes go through is faithful: every write recorded in view and log, point reads answered
    from the overlay first, ranges merged over the same window with the overlay's entry winning, the log replayed whole
    and in order on commit.  A change to `StorageTransaction` breaks those properties without touching their own code."""
    r2(ctx, cfg, R=R)
    r3(ctx, cfg, R=R)
    r4(ctx, cfg, R=R)
    r5(ctx, cfg, R=R)
    r6(ctx, cfg, R=R)


def r3(ctx, cfg, R="C06.R3"):
    F, P = cfg.facts, cfg.prov
    r_prepare(ctx, cfg, R)
    key = T + "RepLog::commit"
    f = ctx.need_fn(R, key)
    if f is not None:
        ap = q.calls(f, T + "Op::apply")
        ok = len(ap) == 1
        d = "no Op::apply"
        if ok:
            a = P.call_args(f, ap[0][1], ap[0][0])
            d = "apply(%s, %s)" % (fmt(a[0])[:100], fmt(a[1]))
            src = contains(a[0], lambda x: x[0] == "field" and x[2] == "ops_log" and is_param(x[1], "self"))
            ok = src and is_param(a[1], "storage")
        ctx.ob(R, key, "every-logged-op-applied-to-target", ok, "commit applies %s" % d, fn=f, sample=d[:160])
        from rules.C01 import DENY_ADAPTERS
        bad = [t["callee"]["key"] for b, t in f.calls() if t["callee"]["name"] in DENY_ADAPTERS and not t["callee"]["local"]]
        ctx.ob(R, key, "log-replayed-in-order", not bad, "order-changing adapter in commit: %s" % bad, fn=f, sample="none")
        # the loop: apply is reached from Iterator::next's Some edge and loops back
        nx = [(b, t) for b, t in f.calls() if t["callee"]["name"] == "next" and t["callee"].get("trait") == "std::iter::Iterator"]
        cf = cfg_of(f)
        if len(ap) == 1:
            nx = [(b, t) for b, t in nx if cf.can_reach(ap[0][0], b) and cf.can_reach(b, ap[0][0])]     # (the loop apply sits in)
        ok = len(nx) == 1 and len(ap) == 1
        ctx.ob(R, key, "apply-inside-iteration", ok, "Op::apply is not inside the loop over ops_log", fn=f, sample="next -> apply -> next")
        if ok:
            # no logged operation is skipped and the replay stops only when the log is exhausted: once `next` has yielded an
            # element, neither the next request nor the end of commit is reached without applying it, and the end of commit
            # is not reached at all without asking for a further element (no `continue` around apply, no `break` / `return`)
            nb, ab = nx[0][0], ap[0][0]
            sw = cf.after_call_node(nb)
            some = [e for e, v, n, b in cf.switch_edges(sw) if n == "Some"] if sw is not None else []
            rets = set(cf.return_blocks())
            d = "the loop over ops_log is not a switch on next()'s result"
            ok = len(some) == 1
            if ok:
                skip = cf.reachable_from(some[0], avoid=[ab])
                stop = cf.reachable_from(some[0], avoid=[nb])
                ok = nb not in skip and not (rets & skip) and not (rets & stop)
                d = "after an operation is taken from the log, commit can %s" % (
                    "take the next one without applying it" if nb in skip else "end without applying it" if rets & skip else
                    "end although the log is not exhausted" if rets & stop else "-")
            ctx.ob(R, key, "no-logged-op-skipped-replay-ends-only-with-the-log", ok, d, fn=f, sample="Some -> apply -> next; return only after None")
    key = T + "Op::apply"
    f = ctx.need_fn(R, key)
    if f is not None:
        def watch(fn, site, item):
            if site[1] == "t" and item["k"] == "call" and item["callee"].get("trait") == STORAGE:
                a = P.call_args(fn, item, site[0])
                return ("store", item["callee"]["name"], tuple(_short(x) for x in a))
            return None
        names, table, seen = decision_table(
            f, {"op": ["Set", "Delete"]},
            lambda fn, bid, t: "op" if is_param(P.place(fn, t["discr_of"], (bid, "t")), "self") else None, watch)
        exp = {("Set",): ("set", ("storage", "self.key", "self.value")), ("Delete",): ("remove", ("storage", "self.key"))}
        for k, (m, args) in exp.items():
            seqs = table.get(k, set())
            evs = {tuple(e for e in s if isinstance(e, tuple)) for s in seqs}
            ok = evs == {(("store", m, args),)} and seen["op"] >= 1
            ctx.ob(R, key, "apply(%s)" % k[0], ok, "Op::%s is replayed as %s" % (k[0], sorted(evs)), fn=f,
                   sample="storage.%s(%s)" % (m, ", ".join(args[1:])))


def r4(ctx, cfg, R="C06.R4"):
    F, P = cfg.facts, cfg.prov
    key = ST + "get"
    f = ctx.need_fn(R, key)
    if f is None:
        return

    def is_lookup(o):
        o = peel(o)
        return o[0] == "call" and o[1] == "std::collections::BTreeMap::get" and _self_field(o[2][0], "local_state") and is_param(o[2][1], "key")

    def classify(fn, bid, t):
        o = peel(P.place(fn, t["discr_of"], (bid, "t")))
        if is_lookup(o):
            return "hit"
        if o[0] == "some" and is_lookup(o[1]):
            return "delta"
        return None

    rc = _ret_carriers(f)

    def watch(fn, site, item):
        return _ret_event(P, fn, site, item, rc)

    names, table, seen = decision_table(f, {"hit": ["Some", "None"], "delta": ["Set", "Delete"]}, classify, watch)
    ctx.ob(R, key, "tracked-switches", seen["hit"] >= 1 and seen["delta"] >= 1,
           "get does not branch on local_state.get(key) and on the delta (unrecognised idiom): %s" % seen, fn=f, sample=str(seen))
    idx = {n: i for i, n in enumerate(names)}
    for hit in ("Some", "None"):
        for delta in ("Set", "Delete"):
            combo = [None, None]
            combo[idx["hit"]] = hit
            combo[idx["delta"]] = delta
            seqs = table.get(tuple(combo), set())
            rets = sorted({e[1] for s in seqs for e in s if isinstance(e, tuple) and e[0] == "ret"})
            if hit == "None":
                if delta == "Delete":
                    continue
                ok = len(rets) == 1 and rets[0].startswith("call:cosmwasm_std::Storage::get(self.storage, key)")
                inst = "miss->base.get(key)"
            elif delta == "Set":
                # (the stored value itself: in the rendering of the payload, `get(self.local_state, key)` is the only call)
                import re as _re
                calls_in = _re.findall(r"([A-Za-z_][A-Za-z_0-9]*)\(", rets[0].split("{", 1)[1]) if len(rets) == 1 and "{" in rets[0] else ["?"]
                ok = len(rets) == 1 and rets[0].startswith("agg:std::option::Option::Some") and "value" in rets[0] and "get(" in rets[0] and \
                    all(c in ("get", "some", "ok") for c in calls_in)
                inst = "hit(Set)->Some(value)"
            else:
                ok = len(rets) == 1 and rets[0].startswith("agg:std::option::Option::None")
                inst = "hit(Delete)->None"
            ctx.ob(R, key, inst, ok, "get returns %s" % rets, fn=f, sample=str(rets)[:160])


def r5(ctx, cfg, R="C06.R5"):
    F, P = cfg.facts, cfg.prov
    key = ST + "range"
    f = ctx.need_fn(R, key)
    if f is None:
        return
    cf = cfg_of(f)
    rc = [(b, t) for b, t in q.calls(f, "std::collections::BTreeMap::range")]
    ctx.ob(R, key, "one-BTreeMap::range", len(rc) == 1, "expected one BTreeMap::range call, found %d" % len(rc), fn=f, sample="1")
    if len(rc) != 1:
        return
    rb, rt = rc[0]
    a = P.call_args(f, rt, rb)
    b = peel(a[1])
    ok = _self_field(a[0], "local_state") and b[0] == "agg" and b[1] == "tuple" and len(b[2]) == 2
    ctx.ob(R, key, "range(local_state, range_bounds(start,end))", ok, "BTreeMap::range(%s, %s)" % (fmt(a[0]), fmt(a[1])[:100]), fn=f,
           line=rt["line"], sample="local_state.range((lower, upper))")
    # the inverted case may also be made harmless by clamping: `let local_end = match (start, end) { (Some(s), Some(e)) if s > e => Some(s), _ => end }`
    # hands BTreeMap::range the empty range [start, start) - the end bound carries the caller's *start* exactly under the `start > end` test
    def _inverted(c0):
        if c0[0] != "bool" or q.is_derived(c0) or c0[1][0] != "lt" or len(c0[1][1]) != 2 or c0[1][2] is not True:
            return False
        lo0, hi0 = peel(c0[1][1][0]), peel(c0[1][1][1])
        return lo0[0] == "some" and is_param(lo0[1], "end") and hi0[0] == "some" and is_param(hi0[1], "start")
    clamped = False
    if ok:
        cl = []
        for st0 in [st0 for b0, i0, st0 in f.stmts() if st0["k"] == "assign" and st0["rv"].get("k") == "aggregate" and st0["rv"].get("agg") == "tuple" and
                    len(st0["rv"]["ops"]) == 2 and same_origin(P.rvalue(f, st0["rv"], (b0, i0)), a[1])]:
            l0 = q.local_of_operand(st0["rv"]["ops"][1])
            for val, conds, dsite in (q.value_cases(P, f, l0) if l0 is not None else []):
                v = peel(val)
                if v[0] == "agg" and v[1].endswith("Bound::Excluded") and v[2]:
                    for pay in alts(peel(v[2][0][1])):
                        pay = peel(pay)
                        if pay[0] == "some" and is_param(pay[1], "start"):
                            cl.append(True)
        # (the alternatives of the payload are not separated by value_cases when they meet in one Option local: look at that local)
        endp = [peel(x) for x in alts(peel(b[2][1][1]))]
        pays = [peel(y) for x in endp if x[0] == "agg" and x[1].endswith("Bound::Excluded") and x[2] for y in alts(peel(x[2][0][1]))]
        if any(y[0] == "some" and is_param(y[1], "start") for y in pays):
            # every place where an Option that ends up as the end bound is made from `start` lies behind the inverted test
            sites = [(b0, i0) for b0, i0, st0 in f.stmts() if st0["k"] == "assign" and st0["rv"].get("k") == "aggregate" and st0["rv"].get("variant") == "Some" and
                     st0["rv"].get("adt") == "std::option::Option" and peel(P.rvalue(f, st0["rv"], (b0, i0)))[0] == "agg" and
                     is_param(peel(peel(P.rvalue(f, st0["rv"], (b0, i0)))[2][0][1])[1] if peel(peel(P.rvalue(f, st0["rv"], (b0, i0)))[2][0][1])[0] == "some" else ("?",), "start")]
            clamped = bool(sites) and all(any(_inverted(c0) for e0, c0 in q.dominating_conditions(P, f, b0)) for b0, i0 in sites)
    # the bounds handed to BTreeMap::range: (Included(start) | Unbounded, Excluded(end) | Unbounded) - read at the call
    # (the helper range_bounds is always spliced; `map_or` and `match` forms have the same alternatives)
    if ok:
        for (pname, want), comp in zip((("start", "Included"), ("end", "Excluded")), (b[2][0][1], b[2][1][1])):
            kinds = set()
            for o in alts(peel(comp)):
                o = peel(o)
                if o[0] == "agg" and o[1].endswith("Bound::Unbounded"):
                    kinds.add("Unbounded")
                elif o[0] == "agg" and o[1].startswith("std::ops::Bound::") and o[2]:
                    pay = peel(o[2][0][1])
                    def from_param_(pay):
                        return (pay[0] == "some" and is_param(pay[1], pname)) or pay[0] == "cparam" or (pay[0] == "bound" and is_param(pay[2], pname)) or \
                            (clamped and pname == "end" and pay[0] == "some" and is_param(pay[1], "start"))
                    from_param = all(from_param_(peel(y)) for y in alts(pay))
                    kinds.add(o[1].rsplit("::", 1)[1] if from_param else "other:" + fmt(o)[:60])
                else:
                    kinds.add("other:" + fmt(o)[:60])
            ctx.ob(R, key, "bound-constructor-%s" % want, kinds == {"Unbounded", want}, "%s bound of the overlay range is %s" % (pname, sorted(kinds)), fn=f,
                   sample="%s: Unbounded | Bound::%s(%s.to_vec())" % (pname, want, pname))
        # .. and which one is chosen depends on nothing but the presence of the caller's bound: Unbounded exactly when it is
        # None (an empty key is a key: `end = Some(b"")` is the empty range, not an open one)
        agg_st = [st0 for b0, i0, st0 in f.stmts() if st0["k"] == "assign" and st0["rv"].get("k") == "aggregate" and st0["rv"].get("agg") == "tuple" and
                  len(st0["rv"]["ops"]) == 2 and same_origin(P.rvalue(f, st0["rv"], (b0, i0)), a[1])]
        for (pname, want), idx0 in zip((("start", "Included"), ("end", "Excluded")), (0, 1)):
            bad = []
            nleaf = 0
            for st0 in agg_st:
                l0 = q.local_of_operand(st0["rv"]["ops"][idx0])
                for val, conds, dsite in (q.value_cases(P, f, l0) if l0 is not None else []):
                    v = peel(val)
                    if not (v[0] == "agg" and v[1].startswith("std::ops::Bound::")):
                        continue
                    nleaf += 1
                    pres = [c0[2] for e0, c0 in conds if c0[0] == "variant_in" and is_param(c0[1], pname)]
                    extra = [c0[1] for e0, c0 in conds if c0[0] == "bool" and not q.is_derived(c0) and any(contains(x, lambda y: y[0] == "param" and y[2] == pname) for x in c0[1][1])
                             and not (clamped and c0[1][0] == "lt")]
                    if v[1].endswith("Unbounded") and (("None",) not in pres or extra):
                        bad.append("Unbounded chosen under %s %s" % (pres, [(e1[0], e1[2]) for e1 in extra]))
                    if not v[1].endswith("Unbounded") and (("Some",) not in pres or extra):
                        bad.append("%s chosen under %s %s" % (v[1].rsplit("::", 1)[1], pres, [(e1[0], e1[2]) for e1 in extra]))
            if nleaf == 0:
                # no branch of our own: `start.map(<[u8]>::to_vec).map_or(Bound::Unbounded, Bound::Included)` - std's map / map_or take
                # the default exactly when the option is None, so the choice depends on presence only by construction
                for st0 in agg_st:
                    l0 = q.local_of_operand(st0["rv"]["ops"][idx0])
                    for kind0, db0, di0, x0 in (P.defs(f).get(l0, []) if l0 is not None else []):
                        if kind0 == "call" and x0["callee"]["key"] == "std::option::Option::map_or":
                            a0 = P.call_args(f, x0, db0)
                            dflt, fn0 = peel(a0[1]), peel(a0[2])
                            src0 = alts(peel(a0[0]))
                            plain = all((y[0] == "agg" and y[1].endswith("Option::None")) or
                                        (y[0] == "agg" and y[1].endswith("Option::Some") and peel(y[2][0][1])[0] == "some" and is_param(peel(y[2][0][1])[1], pname)) or
                                        (clamped and pname == "end" and y[0] == "agg" and y[1].endswith("Option::Some") and peel(y[2][0][1])[0] == "some" and
                                         is_param(peel(y[2][0][1])[1], "start")) or
                                        is_param(y, pname) for y in src0)
                            if dflt[0] == "agg" and dflt[1].endswith("Bound::Unbounded") and fn0 == ("fn", "std::ops::Bound::" + want) and plain:
                                nleaf += 2
            ctx.ob(R, key, "bound-chosen-by-presence-only:%s" % pname, nleaf >= 2 and not bad, "the %s bound of the overlay range: %s" % (pname, bad or "no definition found"), fn=f,
                   sample="Unbounded iff %s is None (%d definitions)" % (pname, nleaf))
    # the guard: a comparison start > end between the Included / Excluded payloads
    guards = []
    for bid in f.order:
        t = f.blocks[bid]["term"]
        if t["k"] == "switch" and t.get("discr_ty") == "bool" and "discr_of" not in t:
            pred, args, pol = q.norm_cond(P.operand(f, t["discr"], (bid, "t")), True)
            if pred == "lt" and len(args) == 2:
                lo, hi = args  # lo < hi  (with polarity pol)
                def is_bound(o, v, which):
                    # the payload of the Included(start) / Excluded(end) bound: the caller's start / end key
                    o = peel(o)
                    return (o[0] == "some" and is_param(o[1], which)) or \
                        (contains(o, lambda x: x[0] == "variant" and x[2] == v) and contains(o, lambda x: x[0] == "param" and x[2] == which))
                # start > end  ≡  end < start
                if is_bound(lo, "Excluded", "end") and is_bound(hi, "Included", "start"):
                    guards.append((bid, t, pol))
    ctx.ob(R, key, "start>end-guard-present", len(guards) == 1, "expected one `start > end` comparison on (Included, Excluded), found %d" % len(guards),
           fn=f, sample="1 guard")
    if len(guards) != 1:
        return
    gb, gt, pol = guards[0]
    inverted_edge = None
    fine_edge = None
    for e, v, n, tb in cf.switch_edges(gb):
        val = True if v is None else (v != 0)
        if (val == pol):
            inverted_edge = e
        else:
            fine_edge = e
    # path enumeration (vlib/paths.py) with the edge of the guard as an event and bool temporaries (`matches!`, `let
    # inverted = ..; if inverted`) resolved along each path: whatever the syntax of the guard,
    #   - no path takes the `start > end` edge and then calls BTreeMap::range (which would panic),
    #   - every path that takes it builds iter::empty(),
    #   - every path on which both bounds are finite (Included, Excluded) evaluates the guard before calling range
    from vlib.paths import decision_table

    def classify(fn, bid, t):
        # the two tracked facts: is there a lower / an upper key.  Asked either of the Bound handed to BTreeMap::range
        # (Included / Excluded vs Unbounded) or of the caller's Option directly (Some vs None)
        o = P.place(fn, t["discr_of"], (bid, "t"))
        if t.get("adt") == "std::ops::Bound":
            has_s = contains(o, lambda x: x[0] == "param" and x[2] == "start")
            has_e = contains(o, lambda x: x[0] == "param" and x[2] == "end")
            if has_s and not has_e:
                return "lower"
            if has_e and not has_s:
                return "upper"
            return None
        if t.get("adt") == "std::option::Option":
            if is_param(o, "start"):
                return ("lower", {"Some": "Included", "None": "Unbounded"})
            if is_param(o, "end"):
                return ("upper", {"Some": "Excluded", "None": "Unbounded"})
        return None

    def watch(fn, site, item):
        bid, idx = site
        if idx == "t" and item["k"] == "call":
            k = item["callee"]["key"]
            if k == "std::collections::BTreeMap::range":
                return ("range",)
            if k == "std::iter::empty":
                return ("empty",)
            if k.startswith("std::collections::BTreeMap::") or k.startswith("std::collections::btree_map::"):
                return ("map-read", item["callee"]["name"])
        return None

    def edge_watch(fn, bid, ei):
        if bid != gb:
            return None
        e = ("e", bid, ei)
        return ("inverted",) if e == inverted_edge else ("in-order",)

    names, table, seen = decision_table(f, {"lower": ["Included", "Unbounded"], "upper": ["Excluded", "Unbounded"]}, classify, watch, edge_watch=edge_watch)
    li, ui = names.index("lower"), names.index("upper")
    bad1, bad2, bad3, npaths = [], [], [], 0
    for combo, seqs in table.items():
        for s_ in seqs:
            ev = [e for e in s_ if isinstance(e, tuple)]
            npaths += 1
            if ("inverted",) in ev and ("range",) in ev and not clamped:
                bad1.append(ev)
            # (the inverted case yields nothing: `iter::empty()`, or `None.into_iter().flatten()` - what it must not do is read
            # the overlay map in any way; a range clamped to [start, start) reads nothing either)
            if ("inverted",) in ev and any(e[0] == "map-read" for e in ev) and not clamped:
                bad2.append(ev)
            if combo[li] == "Included" and combo[ui] == "Excluded" and ("range",) in ev and \
                    not (("in-order",) in ev and ev.index(("in-order",)) < ev.index(("range",))) and \
                    not (clamped and ("inverted",) in ev and ev.index(("inverted",)) < ev.index(("range",))):
                bad3.append(ev)
    ctx.ob(R, key, "inverted-bounds-never-reach-BTreeMap::range", not bad1 and npaths > 0, "the `start > end` edge reaches BTreeMap::range (which panics): %s" % bad1[:1], fn=f,
           line=gt["line"], sample="%d paths: none takes the start>end edge and calls range()" % npaths)
    ctx.ob(R, key, "finite-bounds-always-checked", not bad3 and seen["lower"] >= 1 and seen["upper"] >= 1,
           "a path with (Included, Excluded) bounds reaches BTreeMap::range without the comparison: %s (tracked switches %s)" % (bad3[:1], seen),
           fn=f, sample="(Included,Excluded) -> guard false edge -> range()")
    ctx.ob(R, key, "inverted-bounds-give-empty-overlay", not bad2 and npaths > 0, "the inverted case reads the overlay map instead of yielding nothing: %s" % bad2[:1], fn=f,
           sample="iter::empty()")


def r6(ctx, cfg, R="C06.R6"):
    F, P = cfg.facts, cfg.prov
    # ---- next: one merge step. `pick_match` (a private helper that compares the two peeked keys) is always spliced into
    # its caller (vlib/inline.py ALWAYS_INLINE), so the table is the same whether the helper exists, was inlined by hand or
    # the comparison was folded into the `match` on the peeks.
    key = "<transactions::MergeOverlay as std::iter::Iterator>::next"
    f = ctx.need_fn(R, key)
    if f is not None:
        def is_peek(o, side):
            return any(x[0] == "call" and x[1] == "std::iter::Peekable::peek" and _self_field(x[2][0], side) for x in alts(o))

        def side_of(o):
            l = contains(o, lambda x: is_peek(x, "left"))
            r = contains(o, lambda x: is_peek(x, "right"))
            k0 = contains(o, lambda x: x[0] == "field" and x[2] == "0")
            return ("lkey" if l and not r else "rkey" if r and not l else "?") if k0 else "?"

        def is_cmp(z):
            return z[0] == "call" and (z[1].endswith("Ord::cmp") or z[1].endswith("::cmp"))

        def classify(fn, bid, t):
            o = peel(P.place(fn, t["discr_of"], (bid, "t")))
            if is_peek(o, "left"):
                return "left"
            if is_peek(o, "right"):
                return "right"
            if _self_field(o, "order"):
                return "order"
            if any(is_cmp(x) for x in alts(o)):
                return "cmp"
            return None

        # locals whose value becomes the function's result through plain moves (what a spliced helper's `return` leaves behind)
        rc = {0}
        grew = True
        while grew:
            grew = False
            for b2, i2, st2 in f.stmts():
                if st2["k"] == "assign" and not st2["dst"]["p"] and st2["dst"]["l"] in rc and st2["rv"]["k"] == "use" and \
                        st2["rv"]["op"].get("k") in ("copy", "move") and not st2["rv"]["op"]["place"]["p"] and st2["rv"]["op"]["place"]["l"] not in rc:
                    rc.add(st2["rv"]["op"]["place"]["l"])
                    grew = True

        def assumptions(sigma):
            return [(lambda o: _self_field(peel(o), "order"), sigma["order"]),
                    (lambda o: is_peek(peel(o), "left"), sigma["left"]),
                    (lambda o: is_peek(peel(o), "right"), sigma["right"])]

        def watch_for(sigma):
            # values are read under the cell's assumptions, so that `let (a, b) = match order { Asc => (&l, &r), Desc => (&r, &l) };
            # a.cmp(b)` yields the operands of that order
            Ps = P.assuming(assumptions(sigma))

            def watch(fn, site, item):
                bid, idx = site
                if idx == "t" and item["k"] == "call":
                    c = item["callee"]
                    a = Ps.call_args(fn, item, bid)
                    isret = item["dst"]["l"] in rc and not item["dst"]["p"]
                    if c["key"].endswith("Ord::cmp") or (c.get("trait") == "std::cmp::Ord" and c["name"] == "cmp"):
                        return ("cmp", side_of(a[0]), side_of(a[1]))
                    if c.get("trait") in ("std::cmp::PartialEq", "std::cmp::PartialOrd"):
                        return None
                    if c["key"] == T + "MergeOverlay::take_left":
                        return ("take_left", "ret" if isret else "dropped")
                    if c["name"] == "next" and _self_field(a[0], "right"):
                        return ("right.next", "ret" if isret else "dropped")
                    if c["name"] == "next" and _self_field(a[0], "left"):
                        return ("left.next", "ret" if isret else "dropped")
                    if isret:
                        return ("ret", "call:" + c["key"])
                    return None
                if item["k"] == "assign" and not item["dst"]["p"] and item["dst"]["l"] in rc:
                    rv = item["rv"]
                    if rv["k"] == "use" and rv["op"].get("k") in ("copy", "move") and not rv["op"]["place"]["p"] and rv["op"]["place"]["l"] in rc:
                        return None     # the move that carries a result already reported
                    if item["dst"]["l"] != 0:
                        o = peel(Ps.rvalue(fn, rv, site))
                        if o[0] == "agg":
                            return ("ret", "agg:%s{%s}" % (o[1], ", ".join("%s<-%s" % (f_, _short(v)) for f_, v in o[2])))
                        return ("ret", _short(o))
                return _ret_event(Ps, fn, site, item)
            return watch

        seen_bool = {"cmp": 0}

        def decide(fn, bid, t, sigma):
            """`ordering == Ordering::X` on the tracked comparison - or on the constant that stands in for it when one side
            is exhausted (`(Some(_), None) => Ordering::Less`)"""
            Ps = P.assuming(assumptions(sigma))
            pred, args, pol = q.norm_cond(Ps.operand(fn, t["discr"], (bid, "t")), True)
            if pred == "eq" and len(args) == 2:
                for x, y in (args, args[::-1]):
                    y = peel(y)
                    if not (y[0] == "agg" and y[1].startswith("std::cmp::Ordering::")):
                        continue
                    xs = alts(peel(x))
                    if xs and all(is_cmp(z) for z in xs):
                        seen_bool["cmp"] += 1
                        return (sigma["cmp"] == y[1].rsplit("::", 1)[1]) == pol
                    if len(xs) == 1 and xs[0][0] == "agg" and xs[0][1].startswith("std::cmp::Ordering::"):
                        return (xs[0][1] == y[1]) == pol
            return None

        def classify2(fn, bid, t):
            return classify(fn, bid, t)

        def decide_variant(fn, bid, t, sigma):
            """a `match` on the ordering: when, under the cell's assumptions, the scrutinee is the constant that stands in for the
            comparison (`(Some(_), None) => Ordering::Less`), that constant decides"""
            if t.get("adt") != "std::cmp::Ordering":
                return None
            Ps = P.assuming(assumptions(sigma))
            xs = alts(peel(Ps.place(fn, t["discr_of"], (bid, "t"))))
            xs = [peel(x[1]) if x[0] == "some" else x for x in xs]
            if len(xs) == 1 and xs[0][0] == "agg" and xs[0][1].startswith("std::cmp::Ordering::"):
                return xs[0][1].rsplit("::", 1)[1]
            return None

        names, table, seen = decision_table(f, {"left": ["Some", "None"], "right": ["Some", "None"], "order": ["Ascending", "Descending"],
                                                "cmp": ["Less", "Equal", "Greater"]}, classify2, None, decide=decide, watch_for=watch_for,
                                            decide_variant=decide_variant)
        seen["cmp"] += seen_bool["cmp"]
        ctx.ob(R, key, "tracked-switches", seen["left"] >= 1 and seen["right"] >= 1 and seen["order"] >= 1 and seen["cmp"] >= 1,
               "next does not branch on both peeks, the order and the comparison: %s" % seen, fn=f, sample=str(seen))
        li, ri, oi, ci = (names.index(n) for n in ("left", "right", "order", "cmp"))
        for combo, seqs in sorted(table.items()):
            l, r, order, c = combo[li], combo[ri], combo[oi], combo[ci]
            got = {tuple(e for e in s if isinstance(e, tuple)) for s in seqs}
            if (l, r) == ("Some", "Some"):
                want_cmp = ("cmp", "lkey", "rkey") if order == "Ascending" else ("cmp", "rkey", "lkey")
                want = (want_cmp,) + {"Less": (("take_left", "ret"),), "Equal": (("right.next", "dropped"), ("take_left", "ret")),
                                      "Greater": (("right.next", "ret"),)}[c]
            else:
                want = {("Some", "None"): (("take_left", "ret"),), ("None", "Some"): (("right.next", "ret"),),
                        ("None", "None"): (("ret", "agg:std::option::Option::None{}"),)}[(l, r)]
            ctx.ob(R, key, "step(%s,%s,%s,%s)" % (l, r, order, c), got == {want}, "merge step is %s, expected %s" % (sorted(got), want), fn=f,
                   sample=" -> ".join(":".join(e) for e in want))
    # ---- take_left
    key = T + "MergeOverlay::take_left"
    f = ctx.need_fn(R, key)
    if f is not None:
        def is_left_item(o):
            return contains(o, lambda x: x[0] == "call" and x[1].endswith("Iterator::next") and _self_field(x[2][0], "left"))

        def classify(fn, bid, t):
            o = peel(P.place(fn, t["discr_of"], (bid, "t")))
            if is_left_item(o) and t.get("adt") == T + "Delta":
                return "delta"
            return None

        rc_tl = _ret_carriers(f)

        def watch(fn, site, item):
            bid, idx = site
            if idx != "t" and item["k"] == "assign" and not item["dst"]["p"] and item["dst"]["l"] in rc_tl and item["dst"]["l"] != 0:
                rv0 = item["rv"]
                if rv0["k"] == "use" and rv0["op"].get("k") in ("copy", "move") and not rv0["op"]["place"]["p"] and rv0["op"]["place"]["l"] in rc_tl:
                    return None
            if idx != "t" and item["k"] == "assign" and item["dst"]["l"] == 0 and not item["dst"]["p"]:
                rv0 = item["rv"]
                if rv0["k"] == "use" and rv0["op"].get("k") in ("copy", "move") and not rv0["op"]["place"]["p"] and rv0["op"]["place"]["l"] in rc_tl:
                    return None     # the move that carries a result already reported
            if idx == "t" and item["k"] == "call":
                c = item["callee"]
                isret = item["dst"]["l"] in rc_tl and not item["dst"]["p"]
                if c["key"].endswith("Iterator::next") and c.get("resolved", "").startswith("<transactions::MergeOverlay"):
                    return ("self.next", "ret" if isret else "dropped")
                if c.get("trait") == "std::iter::Iterator" and c["name"] == "next":
                    a = P.call_args(fn, item, bid)
                    if is_param(a[0], "self"):
                        return ("self.next", "ret" if isret else "dropped")
                return None
            if item["k"] == "assign" and item["dst"]["l"] in rc_tl and not item["dst"]["p"]:
                o = peel(P.rvalue(fn, item["rv"], site))
                if o[0] == "agg" and o[1].endswith("Option::Some"):
                    tup = peel(o[2][0][1])
                    if tup[0] == "agg" and len(tup[2]) == 2:
                        k, v = tup[2][0][1], tup[2][1][1]
                        kk = is_left_item(k) and contains(k, lambda x: x[0] == "field" and x[2] == "0")
                        vv = is_left_item(v) and contains(v, lambda x: x[0] == "field" and x[2] == "value")
                        return ("ret", "Some((lkey,value))" if kk and vv else "Some(?)")
                return ("ret", _short(o))
            return None

        names, table, seen = decision_table(f, {"delta": ["Set", "Delete"]}, classify, watch)
        ctx.ob(R, key, "tracked-switches", seen["delta"] >= 1, "take_left does not branch on the delta", fn=f, sample=str(seen))
        exp = {("Set",): (("ret", "Some((lkey,value))"),), ("Delete",): (("self.next", "ret"),)}

        def outcome(s_):
            # what the path returns is the last value written to the result (an `Option` temporary that a later arm replaces is
            # not a result); calls whose value is dropped are kept as they are
            ev = [e for e in s_ if isinstance(e, tuple)]
            rets = [e for e in ev if e[0] == "ret" or (len(e) > 1 and e[1] == "ret")]
            return tuple(e for e in ev if e not in rets) + tuple(rets[-1:])
        def skipped_by_the_caller():
            """the iterative spelling of "a deleted entry yields nothing and the merge goes on": take_left answers None for it and
            `next` never returns that None - the result of take_left reaches the caller only under `is_some()`, and the other
            side of that test leads back to the peeks (a loop instead of the recursion, same calls on the base iterator)"""
            fn = F.fn("<transactions::MergeOverlay as std::iter::Iterator>::next")
            if fn is None:
                return False

            def has_tl(o):
                return contains(o, lambda x: x[0] == "call" and x[1] == key)
            cases = [(v, cs) for v, cs, site in q.value_cases(P, fn, 0) if has_tl(v)]
            if not cases:
                return False
            for v, cs in cases:
                if not any((c[0] == "bool" and c[1][0] == "is_some" and c[1][2] is True and has_tl(c[1][1][0])) or
                           (c[0] == "variant_in" and c[2] == ("Some",) and has_tl(c[1])) for e, c in cs):
                    return False
            cn = cfg_of(fn)
            peeks = [b for b, t in fn.calls() if t["callee"]["key"] == "std::iter::Peekable::peek" and _self_field(P.call_args(fn, t, b)[0], "left")]
            tests = [(te, fe) for b, pred, args, te, fe in q.guards(P, fn) if pred == "is_some" and has_tl(args[0])]
            for b in fn.order:
                t = fn.blocks[b]["term"]
                if t["k"] == "switch" and "discr_of" in t and has_tl(P.place(fn, t["discr_of"], (b, "t"))):
                    for e, v, n, tb in cn.switch_edges(b):
                        if n == "None":
                            tests.append((None, e))
            if not peeks or not tests:
                return False
            return all(fe is not None and not any(r in cn.reachable_from(fe, avoid=peeks) for r in cn.return_blocks()) for te, fe in tests)

        for combo, seqs in sorted(table.items()):
            got = {outcome(s) for s in seqs}
            ok = got == {exp[combo]}
            if not ok and combo == ("Delete",) and got == {(("ret", "None{}"),)} and skipped_by_the_caller():
                ok = True
            ctx.ob(R, key, "take_left(%s)" % combo[0], ok, "take_left yields %s, expected %s" % (sorted(got), exp[combo]), fn=f,
                   sample=str(exp[combo]))
        # exactly one left.next() on entry
        nx = [(b, t) for b, t in f.calls() if t["callee"]["name"] == "next" and _self_field(P.call_args(f, t, b)[0], "left")]
        ctx.ob(R, key, "consumes-one-left-item", len(nx) == 1 and cfg_of(f).dominates(nx[0][0], cfg_of(f).return_blocks()[0]),
               "take_left must consume exactly one left item", fn=f, sample="left.next().unwrap() once")
    # ---- range(): local iterator reversed exactly under Descending; base gets the caller's bounds and order
    key = ST + "range"
    f = ctx.need_fn(R, key)
    if f is not None:
        def classify(fn, bid, t):
            o = peel(P.place(fn, t["discr_of"], (bid, "t")))
            return "order" if is_param(o, "order") else None

        def watch(fn, site, item):
            bid, idx = site
            if idx == "t" and item["k"] == "call":
                c = item["callee"]
                if c["name"] == "rev":
                    a = P.call_args(fn, item, bid)
                    # what is reversed is the overlay's range (possibly wrapped: `Some(range).into_iter().flatten()`)
                    over = contains(a[0], lambda x: x[0] == "call" and x[1] == "std::collections::BTreeMap::range" and _self_field(x[2][0], "local_state")) and \
                        not contains(a[0], lambda x: x[0] == "call" and x[1] == "cosmwasm_std::Storage::range")
                    return ("rev", "range(overlay)" if over else _short(a[0])[:40])
                if c["key"] == "std::iter::empty":
                    return ("empty",)
            return None

        names, table, seen = decision_table(f, {"order": ["Ascending", "Descending"]}, classify, watch)
        ctx.ob(R, key, "order-switch", seen["order"] >= 1, "range does not branch on order", fn=f, sample=str(seen))
        for combo, seqs in sorted(table.items()):
            got = {tuple(e for e in s if isinstance(e, tuple) and e[0] == "rev") for s in seqs if ("empty",) not in s}
            want = {()} if combo[0] == "Ascending" else {(("rev", "range(self.local_state, range_bounds(start, end)"),)}
            ok = (got == {()}) if combo[0] == "Ascending" else (len(got) == 1 and all(len(g) == 1 and g[0][1].startswith("range(") for g in got))
            ctx.ob(R, key, "overlay-reversed-iff-%s" % combo[0], ok, "under %s the overlay iterator is %s" % (combo[0], sorted(got)), fn=f,
                   sample="rev() applied: %s" % (combo[0] == "Descending"))
        br = [(b, t) for b, t in f.calls() if t["callee"].get("trait") == STORAGE and t["callee"]["name"] == "range"]
        ok = len(br) == 1
        if ok:
            a = P.call_args(f, br[0][1], br[0][0])
            ok = _self_field(a[0], "storage") and is_param(a[1], "start") and is_param(a[2], "end") and is_param(a[3], "order")
        ctx.ob(R, key, "base.range(start,end,order)", ok, "base range is not called with the caller's bounds and order", fn=f,
               sample="self.storage.range(start, end, order)")
        # (one merge, or one per order - `match order { Ascending => merge(local, ..), Descending => merge(local.rev(), ..) }` - each of them
        #  over the overlay range, the base range and the caller's order)
        mo = q.calls(f, T + "MergeOverlay::new")
        ok = 1 <= len(mo) <= 2
        for mb0, mt0 in mo:
            a = P.call_args(f, mt0, mb0)
            ok = ok and is_param(a[2], "order") and contains(a[1], lambda x: x[0] == "call" and x[1] == "cosmwasm_std::Storage::range") and \
                contains(a[0], lambda x: x[0] == "call" and x[1] == "std::collections::BTreeMap::range")
        if len(mo) == 2:
            arms = {c[2][0] for mb0, mt0 in mo for e, c in q.dominating_conditions(P, f, mb0) if c[0] == "variant_in" and len(c[2]) == 1 and is_param(c[1], "order")}
            ok = ok and arms == {"Ascending", "Descending"}
        ctx.ob(R, key, "merge(local, base, order)", ok, "MergeOverlay::new is not given (overlay, base, order)", fn=f,
               sample="MergeOverlay::new(local, base, order)")
        ret = P.ret(f)
        ctx.ob(R, key, "returns-merged", contains(ret, lambda x: x[0] == "call" and x[1] == T + "MergeOverlay::new"), "range does not return the merged iterator",
               fn=f, sample="Box::new(merged)")
    key = T + "MergeOverlay::new"
    f = ctx.need_fn(R, key)
    if f is not None:
        ret = peel(P.ret(f))
        ok = ret[0] == "agg"
        if ok:
            d = dict(ret[2])
            def pk(o, name):
                o = peel(o)
                return o[0] == "call" and o[1].endswith("Iterator::peekable") and is_param(o[2][0], name)
            ok = pk(d["left"], "left") and pk(d["right"], "right") and is_param(d["order"], "order")
        ctx.ob(R, key, "fields-wired-straight", ok, "MergeOverlay::new builds %s" % fmt(ret)[:160], fn=f,
               sample="left<-left.peekable(), right<-right.peekable(), order<-order")
