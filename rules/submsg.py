"""Shared finite-domain walk over `WasmKeeper::execute_submsg` (A4), used by C02.R2, C03.R1 and C04.R5.

Tracked discriminants: outcome = the Result returned by the `transactional` call {Ok, Err} and
reply_on = the ReplyOn field of the sub-message {Always, Error, Success, Never}.
The decision table maps (outcome, reply_on) to the set of event sequences on all CFG paths
consistent with that assignment.
"""
from vlib import q
from vlib.paths import Walker
from vlib.prov import peel, fmt, is_param, alts, contains

KEY = "wasm::WasmKeeper::execute_submsg"
REPLY = "wasm::WasmKeeper::reply"
TRANSACTIONAL = "transactions::transactional"
OUTCOMES = ("Ok", "Err")
REPLY_ON = ("Always", "Error", "Success", "Never")


def _is_outcome(o):
    o = peel(o)
    if o[0] == "upd":
        o = peel(o[1])
    return o[0] == "call" and o[1] == TRANSACTIONAL


def _is_reply_on(o):
    o = peel(o)
    return o[0] == "field" and o[2] == "reply_on" and is_param(o[1], "msg")


def _base(o):
    o = peel(o)
    while o[0] == "upd":
        o = peel(o[1])
    return o


def _is_ok_outcome(o):
    o = _base(o)
    return o[0] == "ok" and _is_outcome(o[1])


def _is_err_outcome(o):
    o = _base(o)
    return o[0] == "err" and _is_outcome(o[1])


def _is_reply_call(o):
    o = _base(o)
    return o[0] == "call" and o[1] == REPLY


def analyse(cfg):
    """returns dict(fn=, table=, problems=[...], reply_sites=[...]) or None when the anchor is missing"""
    cached = getattr(cfg, "_submsg", None)
    if cached is not None:
        return cached
    F, P = cfg.facts, cfg.prov
    f = F.fn(KEY)
    if f is None:
        return None
    problems = []
    # locals whose value becomes the function's result through plain moves (what a desugared combinator / a spliced helper leaves)
    rc = {0}
    grew = True
    while grew:
        grew = False
        for b2, i2, st2 in f.stmts():
            if st2["k"] == "assign" and not st2["dst"]["p"] and st2["dst"]["l"] in rc and st2["rv"]["k"] == "use" and \
                    st2["rv"]["op"].get("k") in ("copy", "move") and not st2["rv"]["op"]["place"]["p"] and st2["rv"]["op"]["place"]["l"] not in rc:
                rc.add(st2["rv"]["op"]["place"]["l"])
                grew = True
    # (a local that holds the result of another call - the sub-message's own outcome - is not a carrier: handing it on
    # unchanged is an outcome of its own, reported where it is moved)
    for l0 in list(rc):
        if l0 != 0 and any(kind0 == "call" and x0["callee"]["key"] != REPLY and x0["callee"].get("trait") != "std::ops::FromResidual"
                           for kind0, db0, di0, x0 in P.defs(f).get(l0, [])):
            rc.discard(l0)

    def rebuilt(pay):
        """`AppResponse { events: E, data: D }` made from the sub-message's response r instead of r updated in place: the same
        facts as events - what the data is set to, what is appended to r's events - or None when it is not built from r"""
        from vlib import pipeline
        b = peel(pay)
        if not (b[0] == "agg" and b[1].startswith("executor::AppResponse")):
            return None
        dd = dict(b[2])
        ev, dv = dd.get("events"), peel(dd.get("data", ("?",)))
        if ev is None:
            return None
        pe = peel(ev)
        out = []
        if pe[0] == "field" and pe[2] == "events" and _is_ok_outcome(pe[1]):
            pass        # r's own events, nothing appended
        else:
            cs = pipeline.contents(P, F, f, ev)
            if not cs or not (cs[0].kind == "all-of" and peel(cs[0].src)[0] == "field" and peel(cs[0].src)[2] == "events" and _is_ok_outcome(peel(cs[0].src)[1])
                              and not cs[0].conds and not cs[0].adapters):
                return None
            for c in cs[1:]:
                srcp = peel(c.src) if c.src is not None else ("?",)
                if c.kind == "all-of" and not c.conds and not c.adapters and srcp[0] == "field" and srcp[2] == "events" and \
                        _base(srcp[1])[0] == "ok" and _is_reply_call(_base(srcp[1])[1]):
                    out.append(("extend-events", "chain", "reply-events"))
                else:
                    out.append(("extend-events", "chain", "other:" + (fmt(c.src)[:60] if c.src is not None else c.kind)))
        if dv[0] == "agg" and dv[1].endswith("Option::None"):
            out.append(("set", "r.data", "None"))
        elif dv[0] == "field" and dv[2] == "data" and _base(dv[1])[0] == "ok" and _is_reply_call(_base(dv[1])[1]):
            out.append(("set", "r.data", "reply.data"))
        elif dv[0] == "field" and dv[2] == "data" and _is_ok_outcome(dv[1]):
            pass        # r's own data kept
        else:
            out.append(("set", "r.data", "other:" + fmt(dv)[:80]))
        return out

    def classify(fn, bid, t):
        o = P.place(fn, t["discr_of"], (bid, "t"))
        if _is_outcome(o):
            return "outcome"
        if _is_reply_on(o):
            return "reply_on"
        return None

    def watch(fn, site, item):
        bid, idx = site
        if idx == "t":
            if item["k"] != "call":
                return None
            c = item["callee"]
            evs = None
            if c["key"] == REPLY:
                evs = ("reply", bid)
                if item["dst"]["l"] in rc and not item["dst"]["p"]:
                    return ("reply+ret", bid)
                return evs
            if item["dst"]["l"] in rc and not item["dst"]["p"]:
                args = P.call_args(fn, item, bid)
                if c.get("trait") == "std::ops::FromResidual" and args:
                    a = _base(args[0])
                    if a[0] == "err" and _is_reply_call(a[1]):
                        return ("ret", "propagate-reply-error")
                    return ("ret", "propagate-other:" + fmt(a)[:80])
                return ("ret", "call:" + c["key"])
            if c["name"] in ("extend_from_slice", "extend", "append", "push", "insert", "extend_from_within"):
                args = P.call_args(fn, item, bid)
                if args:
                    a0 = peel(args[0])
                    tgt = None
                    for alt in alts(a0):
                        if alt[0] == "field" and alt[2] == "events" and _is_ok_outcome(alt[1]):
                            tgt = "r.events"
                    # project() through an `upd` yields multi; accept when any alternative is r.events
                    if tgt is None and contains(a0, lambda x: x[0] == "field" and x[2] == "events" and _is_ok_outcome(x[1])):
                        tgt = "r.events"
                    if tgt:
                        src = peel(args[1]) if len(args) > 1 else ("unknown", "")
                        kind = "other:" + fmt(src)[:80]
                        if any(s[0] == "field" and s[2] == "events" and _base(s[1])[0] == "ok" and _is_reply_call(_base(s[1])[1])
                               for s in alts(src)):
                            kind = "reply-events"
                        # `for ev in reply.events { r.events.push(ev) }`: one element of the reply's events per iteration
                        if c["name"] in ("push", "push_back") and src[0] == "bound" and src[1] == "elem":
                            es = peel(src[2])
                            if es[0] == "field" and es[2] == "events" and _base(es[1])[0] == "ok" and _is_reply_call(_base(es[1])[1]):
                                kind = "reply-events"
                        return ("extend-events", c["name"], kind)
            return None
        if item["k"] != "assign":
            return None
        dst = item["dst"]
        if dst["l"] in rc and not dst["p"]:
            rv0 = item["rv"]
            if rv0["k"] == "use" and rv0["op"].get("k") in ("copy", "move") and not rv0["op"]["place"]["p"] and rv0["op"]["place"]["l"] in rc:
                return None         # the move that carries a result already reported
            o = P.rvalue(fn, item["rv"], site)
            b = peel(o)
            if b[0] == "agg" and b[1].endswith("Result::Ok"):
                pay = b[2][0][1]
                if _is_ok_outcome(pay):
                    return ("ret", "Ok(r)")
                rb = rebuilt(pay)
                if rb is not None:
                    return ("multi", tuple(rb) + (("ret", "Ok(r)"),))
                return ("ret", "Ok(other:%s)" % fmt(pay)[:80])
            if b[0] == "agg" and b[1].endswith("Result::Err"):
                pay = b[2][0][1]
                pb = _base(pay)
                if pb[0] == "err" and _is_reply_call(pb[1]):
                    return ("ret", "propagate-reply-error")        # `Err(e) => Err(e)` on the reply's result is `?`
                return ("ret", "Err(e)" if _is_err_outcome(pay) else "Err(other:%s)" % fmt(pay)[:80])
            if b[0] == "call" and b[1].endswith("FromResidual::from_residual") and b[4] and b[4][1] == "agg":
                # `Err(e)` rebuilt from the error payload of a Result (normalised by the provenance engine)
                pay = b[2][0]
                pb = _base(pay)
                if pb[0] == "err" and _is_reply_call(pb[1]):
                    return ("ret", "propagate-reply-error")        # `Err(e) => Err(e)` on the reply's result is `?`
                return ("ret", "Err(e)" if _is_err_outcome(pay) else "Err(other:%s)" % fmt(pay)[:80])
            if _is_outcome(b):
                return ("ret", "outcome-itself")
            return ("ret", "other:" + fmt(b)[:80])
        # writes to fields of r
        if dst["p"] and dst["p"][-1]["k"] == "field":
            base_o = P.local(fn, dst["l"], site)
            if _is_ok_outcome(base_o) and len([e for e in dst["p"] if e["k"] == "field"]) == 1:
                name = dst["p"][-1]["name"]
                o = peel(P.rvalue(fn, item["rv"], site))
                kind = "other:" + fmt(o)[:80]
                if o[0] == "agg" and o[1].endswith("Option::None"):
                    kind = "None"
                elif o[0] == "field" and o[2] == name and _base(o[1])[0] == "ok" and _is_reply_call(_base(o[1])[1]):
                    kind = "reply." + name
                return ("set", "r." + name, kind)
        return None

    def decide(fn, bid, t, sigma):
        """bool switches that compare a tracked value: `reply_on == ReplyOn::X`, `outcome.is_ok()`"""
        pred, args, pol = q.norm_cond(P.operand(fn, t["discr"], (bid, "t")), True)
        if pred == "eq" and len(args) == 2:
            for a, b in (args, args[::-1]):
                if _is_reply_on(a) and b[0] == "agg" and b[1].startswith("cosmwasm_std::ReplyOn::"):
                    seen_bool["reply_on"] += 1
                    return (sigma["reply_on"] == b[1].rsplit("::", 1)[1]) == pol
        if pred == "is_ok" and len(args) == 1 and _is_outcome(args[0]):
            seen_bool["outcome"] += 1
            return (sigma["outcome"] == "Ok") == pol
        return None

    seen_bool = {"outcome": 0, "reply_on": 0}
    table = {}
    visited = set()
    for oc in OUTCOMES:
        for ro in REPLY_ON:
            w = Walker(f, {"outcome": oc, "reply_on": ro}, watch, classify, decide=decide)
            try:
                seqs = _merge_loops({_flatten(sq) for sq in w.run()})
                if oc == "Err":
                    # the untouched result handed on whole (`(other, _) => other`) is, in an Err cell, `Err(e)` itself
                    seqs = {tuple(("ret", "Err(e)") if e == ("ret", "outcome-itself") else e for e in sq) for sq in seqs}
                table[(oc, ro)] = seqs
            except RuntimeError as e:
                problems.append(str(e))
                table[(oc, ro)] = set()
            visited |= w.visited_blocks
    # the tracked switches must exist (otherwise the walk forked everywhere and the table is meaningless)
    seen = {"outcome": 0, "reply_on": 0}
    for bid in f.order:
        t = f.blocks[bid]["term"]
        if t["k"] == "switch" and "discr_of" in t:
            c = classify(f, bid, t)
            if c:
                seen[c] += 1
    for k in seen:
        seen[k] += seen_bool[k]
    if not seen["outcome"]:
        problems.append("no switch on the result of `transactional` found (unrecognised idiom)")
    if not seen["reply_on"]:
        problems.append("no switch on the sub-message's reply_on found (unrecognised idiom)")
    res = {"fn": f, "table": table, "problems": problems, "switches": seen}
    cfg._submsg = res
    return res


def _flatten(seq):
    out = []
    for e in seq:
        if isinstance(e, tuple) and e and e[0] == "multi":
            out.extend(e[1])
        else:
            out.append(e)
    return tuple(out)


def _merge_loops(seqs):
    """a loop that only appends events (`for ev in reply.events { r.events.push(ev) }` instead of extend_from_slice) shows
    up as a path cut at its back edge plus the zero-iteration path; both are replaced by the one-iteration path (prefix,
    loop body, continuation).  A loop whose body calls `reply` or returns is left marked: the rules reject it."""
    loops = [s for s in seqs if s and s[-1] == "<loop>"]
    if not loops:
        return seqs
    rets = [s for s in seqs if not (s and s[-1] == "<loop>")]
    out = set()
    used = set()
    for l in loops:
        body_ok = all(isinstance(e, tuple) and e[0] == "extend-events" for e in l[-2:-1])
        merged_any = False
        if body_ok:
            for r in rets:
                cp = 0
                while cp < len(l) - 1 and cp < len(r) and l[cp] == r[cp]:
                    cp += 1
                body = l[cp:-1]
                if body and all(isinstance(e, tuple) and e[0] == "extend-events" for e in body):
                    out.add(tuple(l[:-1]) + tuple(r[cp:]))
                    used.add(r)
                    merged_any = True
        if not merged_any:
            out.add(l)
    for r in rets:
        if r not in used:
            out.add(r)
    return out


def count_replies(seq):
    return sum(1 for e in seq if e[0] in ("reply", "reply+ret"))


def fmt_seq(seq):
    return " → ".join(":".join(str(x) for x in e) if isinstance(e, tuple) else str(e) for e in seq)
