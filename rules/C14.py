"""C14 — delegations, unbonding and payouts: decided structural clauses (DESIGN.md §5 C14)."""
from vlib import q
from vlib.cfg import cfg_of
from vlib.prov import peel, fmt, is_param, contains, alts, leaves, is_param_field, same_origin, just

LEVEL = "other"
LEVEL_TEXT = (
    "Partial (feature `staking`): decides (R1) the pairing invariant that the code itself relies on — every removal of a "
    "STAKES entry is followed, on every non-error path, by the removal of that delegator from the validator's staker set "
    "and a save of the ValidatorInfo, and every STAKES.save of a possibly new key is paired with stakers.insert — "
    "which is what makes the `expect(\"all stakers in validator_info should exist\")` calls unreachable; (R2) the "
    "inventory of panicking calls in staking.rs, each tied to the guard or invariant that justifies it; (R3) guards: "
    "zero amounts, foreign denomination, missing delegation, over-undelegation and unknown validator are rejected before "
    "any write; (R4) the same amount and the right parties in delegate / undelegate / redelegate; (R5) payout only for "
    "the front entry with payout_at <= block.time, to its delegator, of its amount, from the staking pool. NOT decided: "
    "amounts and maturity arithmetic as numbers, absence of arithmetic overflow panics."
    " Every non-Err result of update_rewards is dominated by the validator record being present; of the Delegate / Undelegate arms by the non-zero-amount guard and the successful stake change; of Redelegate by both stake changes; of add_stake / remove_stake by validate_denom; of update_stake by update_rewards."
)
EXPLANATION = LEVEL_TEXT
TRUSTED = ["rustc MIR construction", "cwmt-facts driver", "vlib (dominators, reachability, provenance)", "cw-storage-plus Map/Item, std BTreeSet/VecDeque"]
ASSUMPTIONS = ["the unbonding queue is sorted by payout_at (entries are appended with block.time + constant unbonding_time)"]

CONFIGS_QUICK = ["all-features", "staking"]
CONFIGS_THOROUGH = ["all-features", "staking", "staking-stargate"]

SK = "staking::StakeKeeper::"
EXEC = "<staking::StakeKeeper as module::Module>::execute"
STAKES = ("item", "staking::STAKES")
VINFO = ("item", "staking::VALIDATOR_INFO")
QUEUE = ("item", "staking::UNBONDING_QUEUE")


def check(ctx, cfg):
    if not cfg.has("staking"):
        return
    r1(ctx, cfg)
    r2(ctx, cfg)
    r3(ctx, cfg)
    r4(ctx, cfg)
    r5(ctx, cfg)
    r6(ctx, cfg)
    r7(ctx, cfg)
    r8(ctx, cfg)
    r9(ctx, cfg)
    r10(ctx, cfg)
    r11(ctx, cfg)
    r12(ctx, cfg)
    r_overlay(ctx, cfg)
    r_bank(ctx, cfg)


def r_bank(ctx, cfg):
    """premise shared with C09 (the bank moves exactly what it is told to), under this property's id: a delegation moves the amount into the staking pool with a `BankMsg::Send`, a payout moves it back the same way"""
    from rules import C09
    C09.ledger_premise(ctx, cfg, "C14.R13")


def r_overlay(ctx, cfg):
    """premise shared with C06 (the transaction overlay is faithful), under this property's id: stake entries are updated and removed in the same transaction (`update_rewards` writes an entry that `update_stake` removes right after); a removal that does not reach the store leaves a ghost delegation"""
    from rules import C06
    C06.overlay_premise(ctx, cfg, "C14.R12")


def r7(ctx, cfg):
    """who may write delegation state"""
    F, P = cfg.facts, cfg.prov
    R = "C14.R7"
    exp = {STAKES: {SK + "update_stake", SK + "slash", SK + "process_queue", SK + "update_rewards", "staking::DistributionKeeper::remove_rewards"},
           VINFO: {SK + "update_stake", SK + "slash", SK + "update_rewards", SK + "add_validator", SK + "process_queue"},
           QUEUE: {SK + "slash", SK + "process_queue", EXEC}}
    for item, allowed in exp.items():
        writers = set()
        for f in F.user_fns():
            if f.file != "src/staking.rs":
                continue
            if store_calls(P, f, item, ("save", "remove", "update", "clear")):
                writers.add(f.key.split("::{closure")[0])
        ctx.ob(R, item[1], "writers", writers <= allowed and bool(writers), "%s is written by %s (unlisted: %s)" % (item[1], sorted(writers), sorted(writers - allowed)),
               sample=str(sorted(w.rsplit("::", 1)[-1] for w in writers)))
    def behind_the_check(caller):
        # a message arm may change the stake itself when the coin it takes the amount from has passed the denomination check
        g0 = F.fn(caller)
        if g0 is None or caller != EXEC:
            return False
        sites = [ch for arm in ("Delegate", "Undelegate", "Redelegate") for ch in stake_changes(P, g0, arm) if ch["key"] == SK + "update_stake"]
        return bool(sites) and all(ch["checked"] and ch["kind"] != "?" for ch in sites) and len(sites) == len(q.calls(g0, SK + "update_stake"))
    q.who_may_call(ctx, R, F, SK + "update_stake", {SK + "add_stake", SK + "remove_stake"}, "stake changes go through add_stake / remove_stake (denomination check)",
                   accept=behind_the_check)
    q.who_may_call(ctx, R, F, SK + "slash", {"<staking::StakeKeeper as module::Module>::sudo"}, "slashing comes from StakingSudo::Slash only")


def r6(ctx, cfg):
    """premise shared with C16: "paid back in full, reduced only by slashes of that validator in the meantime" — the only
    code that changes a queued amount is slash, which must scale it by (1 - p), rounded down, for that validator only"""
    from rules import C16
    C16.r2_r3(ctx, cfg, R2="C14.R6", R3="C14.R6")
    # no other writer of queued amounts
    F, P = cfg.facts, cfg.prov
    writers = set()
    for f in F.user_fns():
        if f.file != "src/staking.rs":
            continue
        for b, i, st in f.stmts():
            if st["k"] == "assign" and st["dst"]["p"] and st["dst"]["p"][-1]["k"] == "field" and st["dst"]["p"][-1].get("of", "").startswith("staking::Unbonding"):
                writers.add(f.key.split("::{closure")[0])
    ctx.ob("C14.R6", "-", "queued-amounts-changed-only-by-slash", writers <= {SK + "slash"}, "fields of queued Unbonding entries are written in %s" % sorted(writers),
           sample=str(sorted(writers)))


# ----------------------------------------------------------------------------------------- helpers
def store_calls(P, f, item, names):
    """calls `ITEM.<name>(..)` in f"""
    out = []
    for bid, t in f.calls():
        c = t["callee"]
        if c["key"].startswith("cw_storage_plus::") and c["name"] in names and t["args"]:
            if peel(P.operand(f, t["args"][0], (bid, "t"))) == item:
                out.append((bid, t))
    return out


def staker_set_calls(P, f, names):
    """calls on a `stakers` set: BTreeSet::<name>(&mut X.stakers, ..)"""
    out = []
    for bid, t in f.calls():
        c = t["callee"]
        if c["name"] in names and "BTreeSet" in c["key"] and t["args"]:
            o = P.operand(f, t["args"][0], (bid, "t"))
            if contains(o, lambda x: x[0] == "field" and x[2] == "stakers"):
                out.append((bid, t))
    return out


def error_blocks(P, f):
    """blocks that are on error paths only: `?` residual propagation and `Err(..)` that end up as the return value -
    assigned to the return place directly or to a local that is later moved into it (the return slot of a spliced helper)"""
    out = set()
    for bid, t in f.calls():
        if t["callee"].get("trait") == "std::ops::FromResidual" and t["dst"]["l"] == 0:
            out.add(bid)
    for bid, i, st in f.stmts():
        if st["k"] == "assign" and st["dst"]["l"] == 0 and not st["dst"]["p"] and st["rv"].get("k") == "aggregate" and st["rv"].get("variant") == "Err":
            out.add(bid)
    for val, conds, site in q.value_cases(P, f, 0):
        v = peel(val)
        if (v[0] == "call" and v[1].endswith("FromResidual::from_residual")) or (v[0] == "agg" and v[1].endswith("Result::Err")):
            out.add(site[0])
    return out


def helper_unpairs(cfg, key, depth=0):
    """does local function `key` remove a delegator from a validator's staker set and save the info on every
    non-error path on which the validator exists and the delegator was a member"""
    F, P = cfg.facts, cfg.prov
    f = F.fn(key)
    if f is None or depth > 2:
        return False
    cf = cfg_of(f)
    rem = staker_set_calls(P, f, ("remove", "clear", "take"))
    saves = store_calls(P, f, VINFO, ("save",))
    if not rem or not saves:
        return False
    errs = error_blocks(P, f)
    rb = {b for b, t in rem}
    sb = {b for b, t in saves}
    # paths entry -> return avoiding the unpairing call must be "validator absent" paths
    ok = True
    reach = cf.reachable_from(cf.entry, avoid=list(rb | errs))
    for r in cf.return_blocks():
        if r in reach or r == cf.entry:
            # acceptable only if every such path passes the None edge of a VALIDATOR_INFO lookup
            none_edges = []
            for bid in f.order:
                t = f.blocks[bid]["term"]
                if t["k"] == "switch" and "discr_of" in t:
                    o = peel(P.place(f, t["discr_of"], (bid, "t")))
                    if contains(o, lambda x: x[0] == "call" and x[1].startswith("cw_storage_plus::Map::") and x[2] and peel(x[2][0]) == VINFO):
                        for e, v, n, tb in cf.switch_edges(bid):
                            if n == "None" or (n is None and "None" not in [nn for _, _, nn, _ in cf.switch_edges(bid)] and
                                               any(nn == "Some" for _, _, nn, _ in cf.switch_edges(bid))):
                                none_edges.append(e)
            reach2 = cf.reachable_from(cf.entry, avoid=list(rb | errs) + none_edges)
            if r in reach2:
                ok = False
    # after unpairing: save unless the member was not present (false edge of remove's bool result)
    for b in rb:
        false_edges = []
        for bid in f.order:
            t = f.blocks[bid]["term"]
            if t["k"] == "switch" and t.get("discr_ty") == "bool" and "discr_of" not in t:
                o = peel(P.operand(f, t["discr"], (bid, "t")))
                if o[0] == "call" and "BTreeSet" in o[1] and o[1].endswith("::remove"):
                    for e, v, n, tb in cf.switch_edges(bid):
                        if v == 0:
                            false_edges.append(e)
        reach3 = cf.reachable_from(b, avoid=list(sb | errs) + false_edges)
        if any(r in reach3 for r in cf.return_blocks()):
            ok = False
    return ok


def r1(ctx, cfg, R="C14.R1"):
    F, P = cfg.facts, cfg.prov
    n_rm = 0
    n_sv = 0
    rm_roots = set()
    for f in F.user_fns():
        if f.file != "src/staking.rs":
            continue
        root = f.key.split("::{closure")[0]
        cf = cfg_of(f)
        errs = error_blocks(P, f)
        rms = store_calls(P, f, STAKES, ("remove",))
        if rms:
            unpair = {b for b, t in staker_set_calls(P, f, ("remove", "clear", "take", "retain"))}
            for bid, t in f.calls():
                k = t["callee"]["key"]
                if t["callee"]["local"] and k in F.fns and k != f.key and helper_unpairs(cfg, k):
                    unpair.add(bid)
            saves = {b for b, t in store_calls(P, f, VINFO, ("save",))}
            for bid, t in f.calls():
                k = t["callee"]["key"]
                if t["callee"]["local"] and k in F.fns and k != f.key and helper_unpairs(cfg, k):
                    saves.add(bid)
        for idx, (bid, t) in enumerate(rms):
            n_rm += 1
            rm_roots.add(root)
            # nothing to unpair when the validator's record does not exist: the absent edges of a VALIDATOR_INFO lookup for
            # the same validator count as "paired"; likewise nothing to save when the delegator was not a member (false edge
            # of stakers.remove(..))  [the helper remove_staker is always spliced - vlib/inline.py ALWAYS_INLINE]
            vkey = peel(P.call_args(f, t, bid)[2])
            vval = vkey[2][1][1] if vkey[0] == "agg" and vkey[1] == "tuple" and len(vkey[2]) == 2 else None

            def is_vinfo(o, vval=vval):
                o = peel(o)
                return o[0] == "ok" and peel(o[1])[0] == "call" and peel(o[1])[1] == "cw_storage_plus::Map::may_load" and peel(peel(o[1])[2][0]) == VINFO and \
                    vval is not None and same_origin(peel(o[1])[2][2], vval)
            _pres, none_edges = q.presence_edges(P, f, is_vinfo)
            none_edges = [e for e in none_edges if cf.dominates(bid, e)]
            false_edges = []
            for g0 in q.guards(P, f):
                pr, ar = g0[1], g0[2]
                if pr.startswith("call:") and "BTreeSet" in pr and pr.endswith("::remove"):
                    false_edges.append(g0[4])
            reach = cf.reachable_from(bid, avoid=list(unpair | errs) + none_edges)
            bad_ret = [r for r in cf.return_blocks() if r in reach]
            ok1 = not bad_ret
            # and the staker set is saved afterwards
            ok2 = True
            for ub in unpair:
                if ub in cf.reachable_from(bid) or ub == bid:
                    reach2 = cf.reachable_from(ub, avoid=list((saves - {ub}) | errs) + false_edges) if ub not in saves else set()
                    if any(r in reach2 for r in cf.return_blocks()):
                        ok2 = False
            ctx.ob(R, root, "stakes-remove-paired-with-staker-removal#%d" % idx, ok1 and ok2,
                   "STAKES.remove in %s (line %d) can reach a normal return without removing the delegator from ValidatorInfo.stakers%s: "
                   "a later update_rewards/slash hits `expect(\"all stakers in validator_info should exist\")`" % (
                       f.key, t["line"], "" if ok1 else " (no staker removal on the path)"), fn=f, line=t["line"],
                   sample="every non-error path passes stakers.remove/clear and VALIDATOR_INFO.save")
        # ... and the other way round: a delegator is taken out of the staker set only where the delegation entry has just
        # been dropped (an entry left behind is listed as a delegation of zero and is never credited rewards again)
        for b3, t3 in staker_set_calls(P, f, ("remove",)):
            ok3 = any(cf.dominates(b4, b3) for b4, t4 in rms)
            ctx.ob(R, root, "staker-removal-paired-with-stakes-remove@%s" % ("%s" % t3["line"] if False else len([1 for b5, t5 in staker_set_calls(P, f, ("remove",)) if b5 < b3])), ok3,
                   "the delegator is removed from ValidatorInfo.stakers in %s (line %d) without STAKES.remove for the delegation before it" % (f.key, t3["line"]),
                   fn=f, line=t3["line"], sample="STAKES.remove(..) dominates stakers.remove(..)")
        for idx, (bid, t) in enumerate(store_calls(P, f, STAKES, ("save",))):
            n_sv += 1
            a = P.call_args(f, t, bid)
            key_o = a[2]
            conds = q.dominating_conditions(P, f, bid)
            existed = any(c[0] == "variant_in" and c[2] in (("Continue",), ("Ok",)) and peel(c[1])[0] == "call" and peel(c[1])[1] == "cw_storage_plus::Map::load" and
                          peel(peel(c[1])[2][0]) == STAKES and same_origin(peel(c[1])[2][2], key_o) for e, c in conds)
            # (an entry that was found under this key and is written back modified - may_load(key)?.expect(..), change a field,
            # save(key) - is an update of an existing entry just like STAKES.update(key, ..): rules/stakes.py)
            from rules import stakes
            existed = existed or any(u.form == "load-save" and u.site == (f.key, bid) for u in stakes.entry_updates(P, F, f))
            ins = {b for b, tt in staker_set_calls(P, f, ("insert",))}
            saves = {b for b, tt in store_calls(P, f, VINFO, ("save",))}
            # (`if !stakers.contains(d) { stakers.insert(d.clone()) }`: on the other side of that test the delegator is in the set already)
            member = {te for b0, pred, args0, te, fe in q.guards(P, f) if pred == "contains" and te is not None and len(args0) == 2 and
                      contains(args0[0], lambda x: x[0] == "field" and x[2] == "stakers") and ins}
            ins = ins | member
            paired = bool(ins) and not any(r in cf.reachable_from(bid, avoid=list(ins | errs)) for r in cf.return_blocks()) and \
                all(not any(r in cf.reachable_from(ib, avoid=list(saves | errs)) for r in cf.return_blocks()) for ib in ins)
            ctx.ob(R, root, "stakes-save-paired-with-staker-insert#%d" % idx, existed or paired,
                   "STAKES.save in %s (line %d) may create an entry whose delegator is not in ValidatorInfo.stakers" % (f.key, t["line"]), fn=f, line=t["line"],
                   sample="key was loaded before" if existed else "stakers.insert + VALIDATOR_INFO.save on every path")
    # the three places that must be able to drop a delegation entry (duplicated match arms may be merged by a refactoring,
    # so the floor is on the places, not on the number of textual sites)
    ctx.floor(R, "STAKES.remove sites", n_rm, 3)
    want = {SK + "update_stake", SK + "slash", SK + "process_queue"}
    ctx.ob(R, "-", "floor:functions-removing-delegations", want <= rm_roots, "STAKES.remove expected in %s, found in %s" % (sorted(want), sorted(rm_roots)),
           sample=str(sorted(x.rsplit("::", 1)[1] for x in rm_roots)))
    ctx.floor(R, "STAKES.save sites", n_sv, 2)


def vinfo_source(y, key_pred=None):
    """the call origin `y` yields the record stored for a validator in VALIDATOR_INFO: a lookup of the map under that key, or
    `update_rewards(.., validator)` where that function hands back the record it has just brought up to date and stored
    (C15.R8 decides that it does, whenever it returns one)"""
    y = peel(y)
    if y[0] != "call":
        return False
    if y[1] in ("cw_storage_plus::Map::may_load", "cw_storage_plus::Map::load") and y[2] and peel(y[2][0]) == VINFO:
        return key_pred is None or key_pred(y[2][2])
    if y[1] == SK + "update_rewards" and len(y[2]) == 4:
        return key_pred is None or key_pred(y[2][3])
    return False


PANICKY = {"std::option::Option::unwrap", "std::option::Option::expect", "std::result::Result::unwrap", "std::result::Result::expect",
           "std::result::Result::unwrap_err", "std::result::Result::expect_err"}


def r2(ctx, cfg):
    F, P = cfg.facts, cfg.prov
    R = "C14.R2"
    n = 0
    n_inv = 0
    for f in F.user_fns():
        if f.file != "src/staking.rs":
            continue
        root = f.key.split("::{closure")[0]
        for bid, t in f.calls():
            c = t["callee"]
            k = c["key"]
            is_panic = k in PANICKY or k.startswith("core::panicking::") or k.startswith("std::rt::begin_panic") or k == "std::process::abort"
            if not is_panic:
                continue
            n += 1
            a = P.call_args(f, t, bid)
            conds = q.dominating_conditions(P, f, bid)
            why = None
            def is_stakes_entry(o):
                """the Option holding a delegator's STAKES entry: a lookup result or the value handed to STAKES.update's closure"""
                if contains(o, lambda x: x[0] == "call" and x[1] in ("cw_storage_plus::Map::may_load",) and peel(x[2][0]) == STAKES):
                    return True
                o = peel(o)
                return o[0] == "cparam" and o[3] == "cw_storage_plus::Map::update"
            if k in ("std::option::Option::expect", "std::option::Option::unwrap") and root in (SK + "update_rewards", SK + "slash") and is_stakes_entry(a[0]):
                why = "justified by the pairing invariant C14.R1"
                n_inv += 1
            elif k.startswith("core::panicking::") and root in (SK + "update_rewards", SK + "slash") and \
                    any(c2[0] in ("variant_in",) and "None" in c2[2] and is_stakes_entry(c2[1]) for e, c2 in conds) and not (t.get("exp") or "").startswith("$crate::panic::unreachable"):
                # `let Some(s) = entry else { panic!(..) }`: the same reliance on the invariant, spelled out
                why = "justified by the pairing invariant C14.R1 (explicit panic on a missing STAKES entry)"
                n_inv += 1
            elif k in ("std::option::Option::unwrap", "std::option::Option::expect") and root == SK + "process_queue":
                o = peel(a[0])
                front_some = any(c2[0] == "variant_in" and c2[2] == ("Some",) and peel(c2[1])[0] == "call" and peel(c2[1])[1].endswith("VecDeque::front") for e, c2 in conds)
                if o[0] == "call" and o[1].endswith("VecDeque::pop_front") and front_some:
                    why = "pop_front().unwrap() is dominated by front() == Some(_) on the same queue"
            elif k in ("std::option::Option::unwrap", "std::option::Option::expect") and root == SK + "slash":
                o = peel(a[0])
                upd = any(c2[0] == "variant_in" and c2[2] in (("Continue",), ("Ok",)) and peel(c2[1])[0] == "call" and peel(c2[1])[1] == SK + "update_rewards" for e, c2 in conds)
                if contains(o, lambda x: x[0] == "call" and x[1] == "cw_storage_plus::Map::may_load" and peel(x[2][0]) == VINFO) and upd:
                    why = "may_load(validator).unwrap() is dominated by update_rewards(validator) succeeding, which fails for an unknown validator"
            elif k in ("std::result::Result::expect", "std::result::Result::unwrap") and peel(a[0])[0] == "call" and \
                    (peel(a[0])[3] or "").startswith("<cosmwasm_std::Decimal as std::convert::TryFrom<cosmwasm_std::Decimal256>>"):
                # a 256-bit intermediate narrowed back to Decimal: fails only when the result itself leaves the range of the
                # 18-decimal fixed point, which the property's quantifier excludes ("amounts and time spans small enough that
                # the simulator's 18-decimal fixed-point arithmetic does not overflow") - as every `+` and `*` on Decimal does
                why = "narrowing of a 256-bit intermediate: fails only on overflow of the result, excluded by the quantifier"
            elif k.startswith("core::panicking::") and (t.get("exp") or "").startswith("$crate::panic::unreachable"):
                why = None
            ctx.ob(R, root, "panic-site:%s%s" % (c["name"], q_tag(f, t)), why is not None,
                   "unjustified panicking call %s in %s (line %d): a valid staking history could crash the simulator" % (k, f.key, t["line"]), fn=f,
                   line=t["line"], sample=why)
    # (the pop_front().unwrap() of process_queue may legitimately disappear - `while let Some(x) = pop..` - so the floor
    # is on the sites that exist on the confirmed tree minus that one)
    ctx.floor(R, "panicking call sites in staking.rs", n, 3)
    ctx.floor(R, "sites relying on the pairing invariant (update_rewards, slash)", n_inv, 2)
    # update_rewards fails (does not panic) for an unknown validator
    key = SK + "update_rewards"
    f = ctx.need_fn(R, key)
    if f is not None:
        ld = store_calls(P, f, VINFO, ("may_load",))
        ok = len(ld) == 1
        if ok:
            # the absent record is turned into an error before anything is written - whatever the syntax
            # (`may_load(..)?.ok_or_else(..)?` or `match may_load(..)? { Some(v) => v, None => bail!(..) }`):
            # every switch on the loaded Option / on the Result made from it has its "absent" edge lead only to error returns,
            # and every write is dominated by a "present" edge
            cf = cfg_of(f)

            def is_record(o):
                o = peel(o)
                return o[0] == "ok" and peel(o[1])[0] == "call" and peel(o[1])[1] == "cw_storage_plus::Map::may_load" and peel(peel(o[1])[2][0]) == VINFO
            present, absent = q.presence_edges(P, f, is_record)
            writes = [b for b, t in f.calls() if t["callee"]["key"].startswith("cw_storage_plus::") and t["callee"]["name"] in ("save", "remove", "update")]
            ok = bool(present) and bool(absent) and bool(writes) and all(any(cf.dominates(e, b) for e in present) for b in writes)
            errs = error_blocks(P, f)
            for e in absent:
                reach = cf.reachable_from(e)
                if any(b in reach for b in writes):
                    ok = False
                for b2, i2, st in f.stmts():
                    if b2 in reach and st["k"] == "assign" and st["dst"]["l"] == 0 and not st["dst"]["p"] and b2 not in errs:
                        o2 = peel(P.rvalue(f, st["rv"], (b2, i2)))
                        if not (o2[0] == "call" and o2[1].endswith("FromResidual::from_residual")):
                            ok = False
            # ... and no success result is produced without having seen the record (a shortcut `return Ok(())` placed
            # before the lookup lets delegate / redelegate to an unknown validator go through)
            around = [site for site, val in q.success_return_sites(P, f) if not any(cf.dominates(e, site[0]) for e in present)]
            ctx.ob(R, key, "unknown-validator-never-succeeds", bool(present) and not around,
                   "update_rewards can return a success at block(s) %s without having found the validator's record" % sorted(set(b for b, i in around)),
                   fn=f, sample="every non-Err result dominated by the record being present")
        ctx.ob(R, key, "unknown-validator-is-an-error-before-any-write", ok, "update_rewards does not reject an unknown validator before writing", fn=f,
               sample="may_load(..)?.ok_or_else(..)? dominates every save")
    # block updates unwrap only process_queue
    for name in ("set_block", "update_block"):
        key = "app::App::" + name
        f = ctx.need_fn(R, key)
        if f is None:
            continue
        uw = [(b, t) for b, t in f.calls() if t["callee"]["key"] in PANICKY]
        ok = len(uw) == 1 and contains(P.call_args(f, uw[0][1], uw[0][0])[0], lambda x: x[0] == "call" and x[1].endswith("Staking::process_queue"))
        ctx.ob(R, key, "unwraps-only-process_queue", ok, "%s unwraps %s" % (name, [t["callee"]["key"] for b, t in uw]), fn=f,
               sample="process_queue(..).unwrap()")


def q_tag(f, t):
    k = t["callee"]["key"]
    i = 0
    for bid, tt in f.calls():
        if tt is t:
            break
        if tt["callee"]["key"] == k:
            i += 1
    return "#%d" % i


def _arm(P, f, bid, pname="msg"):
    arms = [c[2][0] for e, c in q.dominating_conditions(P, f, bid) if c[0] == "variant_in" and len(c[2]) == 1 and is_param(c[1], pname)]
    return arms[0] if arms else ""


def _succ_dom_site(P, f, node, block):
    """`node` is reached only after the call that ends `block` has succeeded (`f(..)?` continued)"""
    return any(c[0] == "variant_in" and c[2] in (("Continue",), ("Ok",)) and peel(c[1])[0] == "call" and len(peel(c[1])) > 4 and peel(c[1])[4] and
               peel(c[1])[4][1] == block for e, c in q.dominating_conditions(P, f, node))


def stake_changes(P, f, arm):
    """the changes of delegated stake a message arm makes, whatever they are made with: `add_stake` / `remove_stake` (which check
    the coin's denomination themselves) or `update_stake(.., coin.amount, sub)` behind a successful denomination check of that very
    coin (`validate_denom(coin)?`, or an earlier add_stake / remove_stake of it): [dict(kind 'add'|'remove'|'?', block, call, who,
    validator, coin (the Coin origin, None when the amount is not a coin's amount), checked)]"""
    out = []
    for b, t in f.calls():
        k = t["callee"]["key"]
        if k not in (SK + "add_stake", SK + "remove_stake", SK + "update_stake") or _arm(P, f, b) != arm:
            continue
        a = P.call_args(f, t, b)
        if k == SK + "update_stake":
            sub = peel(a[7]) if len(a) > 7 else ("?",)
            kind = ("remove" if sub[2] else "add") if sub[0] == "const" and sub[1] == "bool" else "?"
            am = peel(a[6])
            coin = am[1] if am[0] == "field" and am[2] == "amount" else None
            checked = False
            if coin is not None:
                def is_denom_of_coin(x):
                    x = peel(x)
                    return x[0] == "field" and x[2] == "denom" and same_origin(peel(x[1]), peel(coin))

                def is_bonded(x):
                    x = peel(x)
                    return x[0] == "field" and x[2] == "bonded_denom" and contains(x[1], lambda y: y[0] == "call" and y[1] == SK + "get_staking_info")
                for e, c in q.dominating_conditions(P, f, b):
                    # the check itself, written out (`ensure_eq!(coin.denom, staking_info.bonded_denom, ..)`)
                    if c[0] == "bool" and c[1][0] == "eq" and c[1][2] is True and len(c[1][1]) == 2 and \
                            ((is_denom_of_coin(c[1][1][0]) and is_bonded(c[1][1][1])) or (is_denom_of_coin(c[1][1][1]) and is_bonded(c[1][1][0]))):
                        checked = True
                    if c[0] == "variant_in" and c[2] in (("Continue",), ("Ok",)) and peel(c[1])[0] == "call":
                        cc = peel(c[1])
                        if cc[1] == SK + "validate_denom" and same_origin(peel(cc[2][-1]), peel(coin)):
                            checked = True
                        if cc[1] in (SK + "add_stake", SK + "remove_stake") and same_origin(peel(cc[2][6]), peel(coin)):
                            checked = True
        else:
            kind = "add" if k.endswith("add_stake") else "remove"
            coin, checked = a[6], True
        out.append(dict(kind=kind, block=b, call=t, who=a[4], validator=a[5], coin=coin, checked=checked, key=k))
    return out


def _succ_dom(P, f, node, callee_key):
    return any(c[0] == "variant_in" and c[2] in (("Continue",), ("Ok",)) and peel(c[1])[0] == "call" and peel(c[1])[1] == callee_key
               for e, c in q.dominating_conditions(P, f, node))


def r3(ctx, cfg):
    F, P = cfg.facts, cfg.prov
    R = "C14.R3"
    f = ctx.need_fn(R, EXEC)
    if f is not None:
        for callee, arm in ((SK + "add_stake", "Delegate"), (SK + "remove_stake", "Undelegate")):
            want_kind = "add" if arm == "Delegate" else "remove"
            chs = stake_changes(P, f, arm)
            sites = [(ch["block"], ch["call"]) for ch in chs]
            ctx.ob(R, EXEC, "%s-site" % arm, len(chs) == 1 and chs[0]["kind"] == want_kind and chs[0]["checked"],
                   "expected one %s (or update_stake behind the denomination check) in the %s arm" % (callee, arm), fn=f, sample="1")
            if not (len(chs) == 1 and chs[0]["kind"] == want_kind and chs[0]["checked"]):
                continue
            for bid, t in sites:
                conds = q.dominating_conditions(P, f, bid)
                ok = q.has_cond(conds, "is_zero", pol=False, arg_pred=lambda a: contains(a[0], lambda x: x[0] == "field" and x[2] == "amount" and
                                                                                        contains(x[1], lambda y: is_param_field(y, "msg", "amount"))))
                ctx.ob(R, EXEC, "%s-zero-amount-rejected" % arm, ok, "%s proceeds with a zero amount" % arm, fn=f, line=t["line"], sample="guard: !amount.amount.is_zero()")
                # "delegating or undelegating zero ... fails": no success result of the arm without the amount having been
                # found non-zero and the stake change having succeeded (a shortcut `return Ok(..)` in front of the guard)
                def holds(conds, callee=callee, bid=bid):
                    return any(c[0] == "variant_in" and c[2] in (("Continue",), ("Ok",)) and peel(c[1])[0] == "call" and len(peel(c[1])) > 4 and peel(c[1])[4] and
                               peel(c[1])[4][1] == bid for e, c in conds) and q.has_cond(conds, "is_zero", pol=False, arg_pred=lambda a: contains(
                        a[0], lambda x: x[0] == "field" and x[2] == "amount" and contains(x[1], lambda y: is_param_field(y, "msg", "amount"))))
                out = q.successes_outside(P, f, holds, only=lambda b, arm=arm: _arm(P, f, b) == arm)
                ctx.ob(R, EXEC, "%s-succeeds-only-with-positive-amount-and-stake-change" % arm, not out,
                       "the %s arm can produce a success at block(s) %s without `!amount.is_zero()` and a successful %s" % (arm, out, callee.rsplit("::", 1)[1]),
                       fn=f, sample="every non-Err result of the arm dominated by the guard and Continue(%s)" % callee.rsplit("::", 1)[1])
        chs = stake_changes(P, f, "Redelegate")
        rs = [(ch["block"], ch["call"]) for ch in chs if ch["kind"] == "remove" and ch["checked"]]
        as_ = [(ch["block"], ch["call"]) for ch in chs if ch["kind"] == "add" and ch["checked"]]
        if len(rs) == 1 and len(as_) == 1 and len(chs) == 2:
            def both(conds, rb=rs[0][0], ab=as_[0][0]):
                done = {peel(c[1])[4][1] for e, c in conds if c[0] == "variant_in" and c[2] in (("Continue",), ("Ok",)) and peel(c[1])[0] == "call" and
                        len(peel(c[1])) > 4 and peel(c[1])[4]}
                return rb in done and ab in done
            out = q.successes_outside(P, f, both, only=lambda b: _arm(P, f, b) == "Redelegate")
            ctx.ob(R, EXEC, "Redelegate-succeeds-only-after-both-stake-changes", not out,
                   "the Redelegate arm can produce a success at block(s) %s without remove_stake and add_stake having succeeded" % out, fn=f,
                   sample="every non-Err result of the arm dominated by Continue(remove_stake) and Continue(add_stake)")
        # no storage write before the guards: first write-capable call in each arm is after the zero check (covered by dominance above)
    for name in ("add_stake", "remove_stake"):
        key = SK + name
        f = ctx.need_fn(R, key)
        if f is None:
            continue
        us = q.calls(f, SK + "update_stake")
        ok = len(us) == 1 and _succ_dom(P, f, us[0][0], SK + "validate_denom")
        ctx.ob(R, key, "denomination-validated-before-update", ok, "%s reaches update_stake without a successful validate_denom" % name, fn=f,
               sample="update_stake dominated by Continue(validate_denom(..))")
        out = q.successes_outside(P, f, lambda conds: q.succeeded(conds, SK + "validate_denom"))
        ctx.ob(R, key, "succeeds-only-for-the-bonded-denomination", not out,
               "%s can produce a success at block(s) %s without validate_denom having succeeded" % (name, out), fn=f,
               sample="every non-Err result dominated by Continue(validate_denom(..))")
        if ok:
            vb = q.calls(f, SK + "validate_denom")
            a = P.call_args(f, vb[0][1], vb[0][0])
            ua = P.call_args(f, us[0][1], us[0][0])
            ctx.ob(R, key, "validated-coin-is-the-staked-coin", is_param(a[2], "amount") and is_param_field(ua[6], "amount", "amount"),
                   "validate_denom(%s) vs update_stake(amount=%s)" % (fmt(a[2]), fmt(ua[6])), fn=f, sample="amount / amount.amount")
            sub = peel(ua[7])
            ctx.ob(R, key, "direction", sub == ("const", "bool", 1 if name == "remove_stake" else 0), "%s passes sub=%s" % (name, fmt(sub)), fn=f,
                   sample="sub=%s" % (name == "remove_stake"))
    key = SK + "validate_denom"
    f = ctx.need_fn(R, key)
    if f is not None:
        oks = []
        for bid, i, st in f.stmts():
            if st["k"] == "assign" and st["dst"]["l"] == 0 and not st["dst"]["p"] and st["rv"].get("k") == "aggregate" and st["rv"].get("variant") == "Ok":
                conds = q.dominating_conditions(P, f, bid)
                oks.append(q.has_cond(conds, "eq", pol=True, arg_pred=lambda a: any(is_param_field(x, "amount", "denom") for x in a) and any(
                    contains(x, lambda y: y[0] == "field" and y[2] == "bonded_denom") for x in a)))
        ctx.ob(R, key, "Ok-only-for-bonded-denom", oks == [True], "validate_denom can return Ok for a foreign denomination (%s)" % oks, fn=f,
               sample="Ok(()) dominated by amount.denom == staking_info.bonded_denom")
    key = SK + "update_stake"
    f = ctx.need_fn(R, key)
    if f is not None:
        cf = cfg_of(f)
        ur = q.calls(f, SK + "update_rewards")
        writes = store_calls(P, f, STAKES, ("save", "remove", "update")) + store_calls(P, f, VINFO, ("save", "remove", "update"))
        ok = len(ur) == 1 and all(_succ_dom(P, f, b, SK + "update_rewards") for b, t in writes) and len(writes) >= 3
        ctx.ob(R, key, "unknown-validator-fails-before-any-write", ok, "update_stake writes before update_rewards succeeded", fn=f,
               sample="%d writes, all dominated by Continue(update_rewards(..))" % len(writes))
        out = q.successes_outside(P, f, lambda conds: q.succeeded(conds, SK + "update_rewards"))
        ctx.ob(R, key, "succeeds-only-for-a-known-validator", not out,
               "update_stake can produce a success at block(s) %s without update_rewards (which rejects an unknown validator) having succeeded" % out, fn=f,
               sample="every non-Err result dominated by Continue(update_rewards(..))")
        # the subtraction is guarded
        subs = [(b, t) for b, t in f.calls() if t["callee"].get("trait") in ("std::ops::SubAssign", "std::ops::Sub") or t["callee"]["name"] == "checked_sub"]
        guard_ok = True
        n = 0
        for b, t in subs:
            a = P.call_args(f, t, b)
            if contains(a[0], lambda x: x[0] == "field" and x[2] == "stake") and t["callee"]["name"] != "checked_sub":
                n += 1
                conds = q.dominating_conditions(P, f, b)
                # amount_dec > shares.stake  must be false:  lt(shares.stake, amount_dec) == False
                g = q.has_cond(conds, "lt", pol=False, arg_pred=lambda args: contains(args[0], lambda x: x[0] == "field" and x[2] == "stake") and
                               contains(args[1], lambda x: x[0] == "call" and x[1].endswith("from_ratio")))
                subflag = q.has_cond(conds, "opaque", pol=True, arg_pred=lambda args: is_param(args[0], "sub")) or any(
                    c[0] == "bool" and c[1][0] == "opaque" and is_param(c[1][1][0], "sub") and c[1][2] for e, c in conds)
                guard_ok = guard_ok and g
        ctx.ob(R, key, "over-undelegation-rejected-before-subtraction", guard_ok and n == 1, "shares.stake -= amount is not guarded by !(amount > shares.stake) (sites: %d)" % n, fn=f,
               sample="guard: !(amount_dec > shares.stake)")
        # missing delegation is an error when subtracting
        # (`if sub { shares.ok_or_else(..)? }` or `match shares { Some(s) => s, None if sub => bail!(..), None => default }`)
        def is_shares(o):
            o = peel(o)
            return o[0] == "ok" and peel(o[1])[0] == "call" and peel(o[1])[1] == "cw_storage_plus::Map::may_load" and peel(peel(o[1])[2][0]) == STAKES
        pres, absn = q.presence_edges(P, f, is_shares)
        wblocks = [b for b, t in writes]
        ok = False
        for e in absn:
            conds = q.dominating_conditions(P, f, e)
            sub_true = any(c[0] == "bool" and c[1][0] == "opaque" and is_param(c[1][1][0], "sub") and c[1][2] is True for ee, c in conds)
            if sub_true and q.only_errors_from(P, f, e, wblocks):
                ok = True
            # match guard: the absent edge leads straight to a test of `sub`
            for g in q.guards(P, f):
                if g[1] == "opaque" and is_param(g[2][0], "sub") and cf.dominates(e, g[0]) and q.only_errors_from(P, f, g[3], wblocks):
                    ok = True
        ctx.ob(R, key, "missing-delegation-is-an-error", ok, "update_stake(sub) does not reject a missing delegation", fn=f, sample="shares.ok_or_else(..)?")


QUEUE_WRITERS = {
    # who saves the unbonding queue, and what it may do to the loaded queue before saving it.  `process_queue` pays from the
    # front and stops at the first entry that is not due: every writer has to leave the queue in the order of maturity,
    # and every undelegation has to stay an entry of its own
    "<staking::StakeKeeper as module::Module>::execute": ({"push_back"}, "appends the new entry at the back"),
    "staking::StakeKeeper::slash": ({"iter_mut", "get_mut", "index_mut", "front_mut", "back_mut"},      # (single entries; a slice handed out could be sorted)
                                    "changes amounts in place"),
    "staking::StakeKeeper::process_queue": ({"pop_front"}, "takes due entries from the front"),
}


def queue_mutations(o):
    """what happened to the value `o` between being loaded and being used: the names of the methods it was lent to mutably, and
    the fields written directly, outermost layer last.  Returns (base origin, [names])"""
    names = []
    while o[0] in ("vp", "upd", "ok", "some") or (o[0] == "call" and o[1].rsplit("::", 1)[-1] in ("unwrap_or_default", "unwrap_or", "unwrap", "expect") and o[2]):
        if o[0] in ("ok", "some"):
            o = o[1]
            continue
        if o[0] == "call":
            o = o[2][0]
            continue
        if o[0] == "upd":
            for pth, v in o[2]:
                if pth and pth[0] == "&mut" and v[0] == "mutby":
                    names.append(v[1].rsplit("::", 1)[-1])
                else:
                    names.append("write:" + ".".join(str(x) for x in pth))
            o = o[1]
        else:
            o = o[2]
    return o, names


def r_queue_order(ctx, cfg, R="C14.R4"):
    """"paid back ... by the first block update at or after the unbonding period": the queue stays sorted by maturity because every
    function that saves it saves the queue it loaded, changed only in the way its role allows (table QUEUE_WRITERS) - no
    removal from the middle, no swap, no sort, no insertion anywhere but the back; a new writer needs a decision"""
    F, P = cfg.facts, cfg.prov
    n = 0
    for f in F.user_fns():
        if f.file != "src/staking.rs" or f.kind == "closure":
            continue
        sv = store_calls(P, f, QUEUE, ("save",))
        if not sv:
            continue
        role = QUEUE_WRITERS.get(f.key)
        if role is None:
            ctx.fail(R, f.key, "queue-writer-unknown", "%s saves the unbonding queue but is not one of its known writers %s" % (f.key, sorted(QUEUE_WRITERS)), fn=f)
            continue
        for b, t in sv:
            n += 1
            base, names = queue_mutations(P.call_args(f, t, b)[2])
            base = peel(base)
            loaded = base[0] == "call" and base[1] in ("cw_storage_plus::Item::may_load", "cw_storage_plus::Item::load") and peel(base[2][0]) == QUEUE
            extra = sorted(set(names) - role[0])
            ctx.ob(R, f.key, "saves-the-loaded-queue-in-maturity-order", loaded and not extra,
                   "%s saves %s changed by %s; it %s and may use only %s" % (f.key.rsplit("::", 1)[-1], "the loaded queue" if loaded else fmt(base)[:80], names, role[1], sorted(role[0])),
                   fn=f, line=t["line"], sample="%s: %s" % (role[1], sorted(set(names))))
    ctx.floor(R, "functions saving the unbonding queue", n, 3)


def r4(ctx, cfg, R="C14.R4", parts=("Delegate", "Undelegate", "Redelegate")):
    F, P = cfg.facts, cfg.prov
    r_queue_order(ctx, cfg, R)
    f = ctx.need_fn(R, EXEC)
    if f is None:
        return
    cf = cfg_of(f)

    def msgf(o, name):
        # (the field of the message itself, not something computed from it)
        return just(o, lambda x: is_param_field(x, "msg", name))

    if "Delegate" in parts:
        # Delegate
        adds = [(b, t) for b, t in q.calls(f, SK + "add_stake") if _arm(P, f, b) == "Delegate"]
        sends = [(b, t) for b, t in q.calls(f, ("app::CosmosRouter", "execute")) if _arm(P, f, b) == "Delegate"]
        ok = len(adds) == 1 and len(sends) == 1
        ctx.ob(R, EXEC, "Delegate-shape", ok, "Delegate must add stake once and move funds once", fn=f, sample="add_stake + router.execute(BankMsg::Send)")
        if ok:
            a = P.call_args(f, adds[0][1], adds[0][0])
            ctx.ob(R, EXEC, "Delegate-add_stake(sender, validator, amount)", is_param(a[4], "sender") and msgf(a[5], "validator") and msgf(a[6], "amount"),
                   "add_stake(%s, %s, %s)" % (fmt(a[4]), fmt(a[5])[:40], fmt(a[6])[:40]), fn=f, sample="(&sender, &validator, amount)")
            s = P.call_args(f, sends[0][1], sends[0][0])
            bm = None
            for x in [s[5]]:
                pass
            okm = contains(s[5], lambda x: x[0] == "agg" and x[1] == "cosmwasm_std::BankMsg::Send" and
                           contains(dict(x[2])["to_address"], lambda y: y[0] == "field" and y[2] == "module_addr" and is_param(y[1], "self")) and
                           _one_coin_vec(dict(x[2])["amount"], lambda y: is_param_field(y, "msg", "amount")))     # (exactly [amount])
            ctx.ob(R, EXEC, "Delegate-funds(sender -> pool, same amount)", okm and is_param(s[4], "sender") and is_param(s[2], "storage"),
                   "Delegate moves %s from %s" % (fmt(s[5])[:120], fmt(s[4])), fn=f, sample="BankMsg::Send{to: module_addr, amount: [amount]} from sender")
            ctx.ob(R, EXEC, "Delegate-stake-recorded-before-funds-move", _succ_dom(P, f, sends[0][0], SK + "add_stake"), "funds move without a successful add_stake", fn=f,
                   sample="router.execute dominated by Continue(add_stake)")
            for bid, i, st in f.stmts():
                if st["k"] == "assign" and st["dst"]["l"] == 0 and st["rv"].get("variant") == "Ok" and _arm(P, f, bid) == "Delegate":
                    ctx.ob(R, EXEC, "Delegate-Ok-only-after-funds-moved", _succ_dom(P, f, bid, "app::CosmosRouter::execute"), "Delegate returns Ok without a successful transfer", fn=f,
                           sample="Ok dominated by Continue(router.execute)")
    if "Undelegate" in parts:
        # Undelegate
        chs = stake_changes(P, f, "Undelegate")
        ok = len(chs) == 1 and chs[0]["kind"] == "remove" and chs[0]["checked"]
        ctx.ob(R, EXEC, "Undelegate-shape", ok, "Undelegate must remove stake once", fn=f, sample="1")
        if ok:
            rems = [(chs[0]["block"], chs[0]["call"])]
            ch = chs[0]
            ctx.ob(R, EXEC, "Undelegate-remove_stake(sender, validator, amount)", is_param(ch["who"], "sender") and msgf(ch["validator"], "validator") and
                   ch["coin"] is not None and msgf(ch["coin"], "amount"),
                   "remove_stake(%s, %s, %s)" % (fmt(ch["who"]), fmt(ch["validator"])[:40], fmt(ch["coin"])[:40] if ch["coin"] else "?"), fn=f, sample="(&sender, &validator, amount)")
            ubs = [(b, i, st) for b, i, st in f.stmts() if st["k"] == "assign" and st["rv"].get("k") == "aggregate" and st["rv"].get("adt") == "staking::Unbonding"]
            ok = len(ubs) == 1
            if ok:
                b, i, st = ubs[0]
                d = dict(P.rvalue(f, st["rv"], (b, i))[2])
                pa = peel(d["payout_at"])
                ok = is_param(d["delegator"], "sender") and msgf(d["validator"], "validator") and _just(d["amount"], lambda x: x[0] == "field" and x[2] == "amount" and msgf(x[1], "amount")) and \
                    pa[0] == "call" and pa[1].endswith("Timestamp::plus_seconds") and \
                    peel(pa[2][0])[0] == "field" and peel(pa[2][0])[2] == "time" and is_param(peel(pa[2][0])[1], "block") and \
                    peel(pa[2][1])[0] == "field" and peel(pa[2][1])[2] == "unbonding_time"   # (exactly these two, nothing computed from them)
                ok = ok and _succ_dom_site(P, f, b, rems[0][0])
            ctx.ob(R, EXEC, "Undelegate-queue-entry(sender, validator, amount, block.time+unbonding_time)", ok, "unbonding entry is not (sender, validator, amount.amount, block.time + unbonding_time) after remove_stake",
                   fn=f, sample="Unbonding{delegator: sender, validator, amount: amount.amount, payout_at: block.time + unbonding_time}")
            pb = [(b, t) for b, t in f.calls() if t["callee"]["key"].endswith("VecDeque::push_back")]
            sv = store_calls(P, f, QUEUE, ("save",))
            ok = len(pb) == 1 and len(sv) == 1 and cf.dominates(pb[0][0], sv[0][0]) and peel(P.call_args(f, pb[0][1], pb[0][0])[1])[0] == "agg"
            if ok:
                qa = P.call_args(f, sv[0][1], sv[0][0])
                ok = contains(qa[2], lambda x: x[0] == "call" and x[1] == "cw_storage_plus::Item::may_load")
            ctx.ob(R, EXEC, "Undelegate-entry-appended-and-saved", ok, "the unbonding entry is not appended at the back of the loaded queue and saved", fn=f,
                   sample="queue.push_back(entry); UNBONDING_QUEUE.save(queue)")
    if "Redelegate" in parts:
        # Redelegate
        chs = stake_changes(P, f, "Redelegate")
        rems = [ch for ch in chs if ch["kind"] == "remove" and ch["checked"]]
        adds = [ch for ch in chs if ch["kind"] == "add" and ch["checked"]]
        ok = len(rems) == 1 and len(adds) == 1 and len(chs) == 2
        ctx.ob(R, EXEC, "Redelegate-shape", ok, "Redelegate must remove once and add once", fn=f, sample="1/1")
        if ok:
            r0, a0 = rems[0], adds[0]
            ok = is_param(r0["who"], "sender") and is_param(a0["who"], "sender") and msgf(r0["validator"], "src_validator") and msgf(a0["validator"], "dst_validator") and \
                r0["coin"] is not None and a0["coin"] is not None and msgf(r0["coin"], "amount") and msgf(a0["coin"], "amount") and _succ_dom_site(P, f, a0["block"], r0["block"])
            ctx.ob(R, EXEC, "Redelegate(src -> dst, same amount, remove first)", ok, "Redelegate does not move the same amount from src to dst after a successful removal", fn=f,
                   sample="remove_stake(src, amount)? then add_stake(dst, amount)")


def _just(o, pred, depth=0):
    """`o` is the value `pred` recognises, possibly converted between integer / coin types (`.u128()`, `.into()`, `Uint128::new`,
    `Uint128::from`), but not computed from it: a halved, clamped or summed amount merely *mentions* its source"""
    o = peel(o)
    if pred(o):
        return True
    if depth < 4 and o[0] == "call" and len(o[2]) == 1 and o[1].rsplit("::", 1)[-1] in ("u128", "into", "from", "new") and \
            (o[1].startswith("cosmwasm_std::Uint128") or o[1].startswith("std::convert::")):
        return _just(o[2][0], pred, depth + 1)
    return False


def _one_coin_vec(o, amount_pred, denom_pred=None):
    """`vec![c]` (or `[c].to_vec()`) of exactly one coin: `c` is the value itself when denom_pred is None, else `coin(a, d)` /
    `Coin { amount: a, denom: d }` with a = just the amount and d recognised by denom_pred"""
    o = peel(o)
    if not (o[0] == "agg" and o[1] in ("vec", "array") and len(o[2]) == 1):
        return False
    c = peel(o[2][0][1])
    if denom_pred is None:
        return amount_pred(c)
    if c[0] == "call" and c[1] in ("cosmwasm_std::coin", "cosmwasm_std::Coin::new") and len(c[2]) == 2:
        return _just(c[2][0], amount_pred) and denom_pred(c[2][1])
    if c[0] == "agg" and c[1] == "cosmwasm_std::Coin":
        d = dict(c[2])
        return _just(d["amount"], amount_pred) and denom_pred(d["denom"])
    return False


def r5(ctx, cfg):
    F, P = cfg.facts, cfg.prov
    R = "C14.R5"
    key = SK + "process_queue"
    f = ctx.need_fn(R, key)
    if f is None:
        return
    cf = cfg_of(f)
    sends = q.calls(f, ("app::CosmosRouter", "execute"))
    ctx.ob(R, key, "one-payout-site", len(sends) == 1, "expected one payout (router.execute) in process_queue", fn=f, sample="1")
    if len(sends) != 1:
        return
    bid, t = sends[0]
    conds = q.dominating_conditions(P, f, bid)

    def is_front_payout_at(o):
        o = peel(o)  # exactly front().payout_at
        return o[0] == "field" and o[2] == "payout_at" and contains(o[1], lambda y: y[0] == "call" and y[1].endswith("VecDeque::front"))

    def is_block_time(o):
        o = peel(o)  # exactly block.time, not an expression over it
        return o[0] == "field" and o[2] == "time" and is_param(o[1], "block")
    # payout_at <= block.time   ≡  !(block.time < payout_at)
    mature = q.has_cond(conds, "lt", pol=False, arg_pred=lambda a: is_block_time(a[0]) and is_front_payout_at(a[1]))
    ctx.ob(R, key, "paid-only-when-mature", mature, "the payout is not guarded by front().payout_at <= block.time", fn=f, line=t["line"],
           sample="guard: payout_at <= block.time on the front entry")
    a = P.call_args(f, t, bid)

    def popped(o, fld):
        return contains(o, lambda x: x[0] == "field" and x[2] == fld and contains(x[1], lambda y: y[0] == "call" and y[1].endswith("VecDeque::pop_front")))
    def popped_exactly(o, fld):
        o = peel(o)
        return o[0] == "field" and o[2] == fld and contains(o[1], lambda y: y[0] == "call" and y[1].endswith("VecDeque::pop_front"))
    # (the whole recorded amount, in one coin: `vec![coin(amount, bonded_denom)]`)
    okm = contains(a[5], lambda x: x[0] == "agg" and x[1] == "cosmwasm_std::BankMsg::Send" and popped(dict(x[2])["to_address"], "delegator") and
                   _one_coin_vec(dict(x[2])["amount"], lambda y: popped_exactly(y, "amount"), lambda dn: contains(dn, lambda y: y[0] == "field" and y[2] == "bonded_denom")))
    src = contains(a[4], lambda x: x[0] == "field" and x[2] == "module_addr" and is_param(x[1], "self"))
    ctx.ob(R, key, "pays(pool -> entry.delegator, entry.amount)", okm and src and is_param(a[2], "storage"),
           "payout is %s from %s" % (fmt(a[5])[:160], fmt(a[4])[:40]), fn=f, line=t["line"], sample="BankMsg::Send{to: delegator, amount: [amount]} from module_addr")
    # ... and every matured entry with something in it is paid: the only test on the entry's amount in front of the payout is
    # "not zero" (an inverted test pays nothing and silently drops the entry)
    amt_conds = [c for e, c in conds if c[0] == "bool" and not q.is_derived(c) and any(popped(x, "amount") for x in c[1][1])]
    okz = [c[1][0] for c in amt_conds] == ["is_zero"] and amt_conds[0][1][2] is False
    ctx.ob(R, key, "every-nonzero-entry-is-paid", okz or not amt_conds,
           "the payout is guarded by %s on the entry's amount" % [(c[1][0], c[1][2]) for c in amt_conds], fn=f, line=t["line"],
           sample="if !amount.is_zero() { pay }" if amt_conds else "unconditional")
    # denomination is the bonded one
    okd = contains(a[5], lambda x: x[0] == "call" and x[1] == "cosmwasm_std::coin" and contains(x[2][1], lambda y: y[0] == "field" and y[2] == "bonded_denom"))
    ctx.ob(R, key, "paid-in-bonded-denom", okd, "payout denomination is not staking_info.bonded_denom", fn=f, sample="coin(amount, bonded_denom)")
    # one entry is popped per payout, and it is the one whose maturity was checked (pop_front after front())
    pops = [(b, tt) for b, tt in f.calls() if tt["callee"]["key"].endswith("VecDeque::pop_front")]
    ok = len(pops) == 1 and cf.dominates(pops[0][0], bid) and any(c[0] == "variant_in" and c[2] in (("Some",), ("Continue",)) and peel(c[1])[0] == "call" and peel(c[1])[1].endswith("VecDeque::front")
                                                                    for e, c in q.dominating_conditions(P, f, pops[0][0]))
    ctx.ob(R, key, "pays-the-front-entry", ok, "the paid entry is not the checked front entry", fn=f, sample="front() checked, pop_front() paid")
    # the payout loop only stops when the queue is empty or its front entry is not due yet (or on an error): every entry
    # that is due at this block update is processed by it.  Exits of the cycle through pop_front(), and the in-loop
    # conditions under which each is taken:
    if len(pops) == 1:
        pb = pops[0][0]
        loop = {n for n in cf.nodes() if pb in cf.reachable_from(n) and (n == pb or n in cf.reachable_from(pb))}
        def allowed_edge(e):
            cs = q.edge_conditions(P, f, e)
            def on_queue_head(o):
                return contains(o, lambda y: y[0] == "call" and y[1].endswith(("VecDeque::front", "VecDeque::pop_front")))
            # front() is None / `front()?` breaks / pop_front() yields None: the queue is empty
            empty = any(c[0] == "variant_in" and ("None" in c[2] or "Break" in c[2]) and on_queue_head(c[1]) for c in cs) or \
                any(c[0] == "variant_not_in" and c[2] in (("Some",), ("Continue",)) and on_queue_head(c[1]) for c in cs)
            not_due = any(c[0] == "bool" and c[1][0] == "lt" and c[1][2] is True and is_block_time(c[1][1][0]) and is_front_payout_at(c[1][1][1]) for c in cs)
            return empty or not_due
        allowed = [n for n in cf.nodes() if isinstance(n, tuple) and n[0] == "e" and allowed_edge(n)]
        heads = [b0 for b0, t0 in f.calls() if t0["callee"]["key"].endswith("VecDeque::front") and b0 in loop]
        bad_exits = []
        n_exits = len([e for e in allowed if e in loop or e[1] in loop])
        seen2 = set()
        stack2 = list(heads)
        while stack2:
            n = stack2.pop()
            if n in seen2:
                continue
            seen2.add(n)
            for s2 in cf.succ.get(n, []):
                if s2 in allowed:
                    continue
                if s2 in loop:
                    stack2.append(s2)
                elif not (not isinstance(s2, tuple) and cf.is_unreachable_block(s2)) and not q.only_errors_from(P, f, s2):
                    # left the loop through something else than "queue empty" / "front not due"
                    if isinstance(s2, tuple):
                        stack2.append(s2)      # an edge node leaving the loop: look at where it goes
                        loop_exit = s2
                    bad_exits.append(repr(n)[:40] + " -> " + repr(s2)[:40])
        # edge nodes that leave the loop were pushed above only to report them once; drop duplicates
        bad_exits = sorted(set(bad_exits))
        if not heads:
            bad_exits.append("no front() inside the loop")
        ctx.ob(R, key, "every-due-entry-is-processed", n_exits >= 1 and not bad_exits,
               "the payout loop can stop although the front entry is due (exit taken under %s)" % bad_exits[:2], fn=f,
               sample="%d loop exits: queue empty | front not due" % n_exits)
    # the remaining queue is saved on every normal return
    sv = store_calls(P, f, QUEUE, ("save",))
    errs = error_blocks(P, f)
    ok = len(sv) == 1 and not any(r in cf.reachable_from(cf.entry, avoid=[sv[0][0]] + list(errs)) for r in cf.return_blocks())
    if ok:
        qa = P.call_args(f, sv[0][1], sv[0][0])
        ok = contains(qa[2], lambda x: x[0] == "call" and x[1] == "cw_storage_plus::Item::may_load" and peel(x[2][0]) == QUEUE)
    ctx.ob(R, key, "remaining-queue-saved", ok, "process_queue can return Ok without saving the remaining queue", fn=f, sample="UNBONDING_QUEUE.save(queue) on every normal return")
    # payout errors propagate (block update then panics: recorded in R2)
    ctx.ob(R, key, "payout-error-propagates", any(tt["callee"].get("trait") == "std::ops::FromResidual" and contains(P.call_args(f, tt, b)[0], lambda x: x[0] == "call" and x[1] == "app::CosmosRouter::execute")
                                                 for b, tt in f.calls()), "a failed payout is not propagated", fn=f, sample="router.execute(..)?")
    # the delegation that remains is kept: process_queue drops a STAKES entry only where get_stake found none or where what
    # it found (plus what is still unbonding) is zero; and what is still unbonding is *added* to the stake before that test
    # (a subtraction underflows - the block update panics - as soon as more is unbonding than is staked)
    def from_get_stake(o):
        return contains(o, lambda x: x[0] == "call" and x[1] == SK + "get_stake")
    for g2 in F.lexical(key):
        for b2, t2 in g2.calls():
            if t2["callee"]["key"] == "cw_storage_plus::Map::remove" and t2["args"] and peel(P.call_args(g2, t2, b2)[0]) == STAKES:
                # every way to the removal passes the None edge of get_stake or the true edge of is_zero(what get_stake found ..)
                # (edges, not dominators: `let empty = match d { Some(d) => d.amount.is_zero(), None => true }; if empty {..}`
                # reaches the removal on two threaded paths)
                c2 = cfg_of(g2)
                good = set()
                for sb in g2.order:
                    for e2, v2, n2, tb2 in c2.switch_edges(sb):
                        for c in q.edge_conditions(P, g2, e2):
                            if (c[0] == "variant_in" and c[2] == ("None",) and from_get_stake(c[1])) or \
                                    (c[0] == "bool" and c[1][0] == "is_zero" and c[1][2] is True and from_get_stake(c[1][1][0])):
                                good.add(e2)
                okg = bool(good) and b2 not in c2.reachable_from(c2.entry, avoid=list(good)) and b2 != c2.entry
                ctx.ob(R, key, "delegation-entry-dropped-only-when-nothing-is-left", okg,
                       "STAKES.remove at line %s can be reached without `get_stake(..) is None` or `(stake + still unbonding).is_zero()` having held" % t2["line"],
                       fn=g2, line=t2["line"], sample="get_stake None | is_zero(get_stake + unbonding)")
            if t2["callee"]["name"] in ("sub_assign", "sub", "checked_sub", "saturating_sub", "mul_assign", "mul", "div", "mul_floor") and t2["args"] and \
                    from_get_stake(P.call_args(g2, t2, b2)[0]):
                ctx.ob(R, key, "still-unbonding-amounts-are-added-to-the-stake", False,
                       "%s is applied to the stake found by get_stake (line %s): only additions keep the emptiness test total" % (t2["callee"]["name"], t2["line"]),
                       fn=g2, line=t2["line"], sample="stake.amount += sum(still unbonding)")
    # "by the first block update at or after the unbonding period": every block update runs the queue - in set_block and
    # update_block no return is reachable without passing the process_queue call, and the call comes after the new block
    # is in place (an update that leaves the time unchanged, or only bumps the height, still pays what is due: with an
    # unbonding time of zero the entry is due at once)
    for name in ("set_block", "update_block"):
        k3 = "app::App::" + name
        h = ctx.need_fn(R, k3)
        if h is None:
            continue
        ch = cfg_of(h)
        pq = [(b, t2) for b, t2 in h.calls() if t2["callee"]["key"].endswith("Staking::process_queue")]
        ok = len(pq) == 1
        d = "%d process_queue calls" % len(pq)
        if ok:
            pb = pq[0][0]
            skipping = [r for r in ch.return_blocks() if not ch.must_pass(pb, r)]
            ok = not skipping
            d = "a block update can return without running the unbonding queue" if skipping else "-"
            if ok:
                if name == "update_block":
                    act = [b for b, t2 in h.calls() if t2["callee"]["name"] in ("call", "call_once", "call_mut") and t2["callee"].get("trait", "").startswith("std::ops::Fn")]
                    ok = len(act) == 1 and ch.dominates(act[0], pb) and act[0] != pb
                    d = "process_queue is not run after the caller's closure has updated the block"
                else:
                    wr = [(b, i) for b, i, st in h.stmts() if st["k"] == "assign" and st["dst"]["l"] == 1 and [e.get("name") for e in st["dst"]["p"] if e["k"] == "field"] == ["block"]]
                    ok = len(wr) == 1 and (ch.dominates(wr[0][0], pb))
                    d = "process_queue is not run after self.block has been replaced"
        ctx.ob(R, k3, "every-block-update-runs-the-queue", ok, d, fn=h, sample="new block in place -> process_queue -> return, on every path")
    # ... and those two are the only ways to change the block of a running App: any other method of App that writes
    # `self.block` (or hands out `&mut self.block`) must run the queue as well, on every path
    for h in F.user_fns():
        if h.file != "src/app.rs" or not h.key.startswith("app::App::") or h.key in ("app::App::set_block", "app::App::update_block") or h.kind == "closure":
            continue
        if not (h.arg_count >= 1 and h.locals[1].get("ref") == "mut" and str(h.locals[1].get("pointee", "")).startswith("app::App<")):
            continue
        writes = [(b, i) for b, i, st in h.stmts() if st["k"] == "assign" and
                  st["dst"]["l"] == 1 and [e.get("name") for e in st["dst"]["p"] if e["k"] == "field"][:1] == ["block"]]
        # `&mut self.block` counts when the reference is handed on as `&mut` (a pattern `let Self { block, .. } = self` binds
        # one that is only read through)
        handles = {st["dst"]["l"] for b, i, st in h.stmts() if st["k"] == "assign" and st["rv"].get("k") == "ref" and st["rv"].get("mut") and
                   st["rv"]["place"]["l"] == 1 and [e.get("name") for e in st["rv"]["place"]["p"] if e["k"] == "field"][:1] == ["block"] and not st["dst"]["p"]}
        for b, i, st in h.stmts():
            if st["k"] != "assign":
                continue
            rv = st["rv"]
            if rv.get("k") == "ref" and rv.get("mut") and rv["place"]["l"] in handles:
                handles.add(st["dst"]["l"])
            ops = [rv.get("op")] + list(rv.get("ops", []))
            if any(o and o.get("k") == "move" and o["place"]["l"] in handles and not o["place"]["p"] for o in ops):
                if rv.get("k") == "aggregate":
                    writes.append((b, i))
                elif not st["dst"]["p"]:
                    handles.add(st["dst"]["l"])
            if st["dst"]["l"] in handles and st["dst"]["p"] and st["dst"]["p"][0]["k"] == "deref":
                writes.append((b, i))
        for b, t2 in h.calls():
            if any(a.get("k") == "move" and a["place"]["l"] in handles and not a["place"]["p"] for a in t2["args"]):
                writes.append((b, 10 ** 6))
        if not writes:
            continue
        ch = cfg_of(h)
        pq = [b for b, t2 in h.calls() if t2["callee"]["key"].endswith("Staking::process_queue")]
        ok = len(pq) == 1 and all(ch.must_pass(pq[0], r) for r in ch.return_blocks()) and all(ch.dominates(b, pq[0]) for b, i in writes)
        ctx.ob(R, h.key, "every-block-update-runs-the-queue", ok, "%s changes App.block without running the unbonding queue afterwards on every path" % h.key, fn=h,
               sample="write of self.block -> process_queue -> return")
    # <StakeKeeper as Staking>::process_queue delegates to it
    key2 = "<staking::StakeKeeper as staking::Staking>::process_queue"
    g = ctx.need_fn(R, key2)
    if g is not None:
        ret = peel(P.ret(g))
        ok = ret[0] == "call" and ret[1] == key and all(peel(x)[0] == "param" for x in ret[2])
        ctx.ob(R, key2, "trait-method-delegates", ok, "Staking::process_queue for StakeKeeper returns %s" % fmt(ret)[:80], fn=g, sample="self.process_queue(api, storage, router, block)")


def r8(ctx, cfg):
    """"raises that delegator's delegation to that validator by the amount" / "leaves the delegation at once": the arithmetic of
    update_stake as a table over its `sub` flag.  On every path that reaches the save of the validator's record, the
    delegator's entry and the validator's total are each changed exactly once, by exactly the given amount, downwards when
    `sub` and upwards otherwise (operator spelling free: `-=`, `checked_sub`, `a = a - b`)."""
    from vlib.paths import Walker
    F, P = cfg.facts, cfg.prov
    R = "C14.R8"
    key = SK + "update_stake"
    f = ctx.need_fn(R, key)
    if f is None:
        return
    if f.arg_index("sub") is None or f.arg_index("amount") is None:
        ctx.ob(R, key, "stake-arithmetic", False, "update_stake no longer takes (amount, sub): the table over `sub` cannot be stated", fn=f, sample="-")
        return
    SUBS = {"sub_assign": "sub", "checked_sub": "sub", "sub": "sub", "saturating_sub": "sub?", "add_assign": "add", "checked_add": "add", "add": "add",
            "saturating_add": "add?", "mul_assign": "mul", "mul": "mul", "mul_floor": "mul", "div": "div"}

    def amount_ok(o):
        o = peel(o)
        if is_param(o, "amount"):
            return True
        return o[0] == "call" and o[1] == "cosmwasm_std::Decimal::from_ratio" and is_param(o[2][0], "amount") and peel(o[2][1]) == ("const", "int", 1)

    def target(o):
        if contains(o, lambda x: x == ("item", "staking::STAKES")):
            return "entry.stake"
        if contains(o, lambda x: x == ("item", "staking::VALIDATOR_INFO")) or contains(o, lambda x: vinfo_source(x)):
            return "validator.stake"
        return None

    def watch(fn, site, item):
        if site[1] != "t" or item["k"] != "call":
            return None
        c = item["callee"]
        if c["name"] in SUBS and item["args"]:
            a = P.call_args(fn, item, site[0])
            tg = target(a[0])
            # only operations on the `stake` fields (rewards are C15's)
            pl = item["args"][0].get("place", {})
            if tg is not None and len(a) >= 2 and _mentions_field(P, fn, item["args"][0], site, "stake"):
                return (tg, SUBS[c["name"]], "amount" if amount_ok(a[1]) else fmt(a[1])[:60])
        if c["key"] == "cw_storage_plus::Map::save" and item["args"]:
            a = P.call_args(fn, item, site[0])
            if peel(a[0]) == ("item", "staking::VALIDATOR_INFO"):
                return ("validator-saved",)
        return None

    def decide(fn, bid, t, sigma):
        o = peel(P.operand(fn, t["discr"], (bid, "t")))
        if is_param(o, "sub"):
            return sigma["sub"]
        if o[0] == "unop" and is_param(o[2], "sub"):
            return not sigma["sub"]
        return None

    n_dec = sum(1 for bid in f.order if f.blocks[bid]["term"]["k"] == "switch" and decide(f, bid, f.blocks[bid]["term"], {"sub": True}) is not None)
    for sub in (True, False):
        seqs = Walker(f, {"sub": sub}, watch, None, decide=decide).run()
        want = "sub" if sub else "add"
        done = [s for s in seqs if ("validator-saved",) in s]
        bad = []
        for s in done:
            ops = [e for e in s[:s.index(("validator-saved",))] if isinstance(e, tuple) and len(e) == 3]
            if sorted(ops) != sorted([("entry.stake", want, "amount"), ("validator.stake", want, "amount")]):
                bad.append(ops)
        ok = bool(done) and not bad and n_dec >= 1
        ctx.ob(R, key, "stake-arithmetic(sub=%s)" % str(sub).lower(), ok,
               "with sub=%s the record saved for the validator is reached after %s; expected the delegator's entry and the validator's total each %s by exactly `amount`"
               % (sub, bad[:2] if bad else "no path" if not done else "no decision on `sub`", "lowered" if sub else "raised"), fn=f,
               sample="entry.stake %s= amount; validator.stake %s= amount" % ("-" if sub else "+", "-" if sub else "+"))


def r9(ctx, cfg):
    """the entry is dropped exactly when nothing is left of it: in update_stake STAKES.remove happens where the new stake is zero,
    STAKES.save where it is not (the inverse keeps zero entries and - worse - drops live ones)"""
    F, P = cfg.facts, cfg.prov
    R = "C14.R8"
    key = SK + "update_stake"
    f = F.fn(key)
    if f is None:
        return
    def zero_test(cs, pol):
        return any(c[0] == "bool" and c[1][0] == "is_zero" and c[1][2] is pol and
                   contains(c[1][1][0], lambda x: x[0] == "field" and x[2] == "stake" and contains(x[1], lambda y: y == STAKES)) for e, c in cs)
    for nm, pol in (("remove", True), ("save", False)):
        sites = store_calls(P, f, STAKES, (nm,))
        ok = bool(sites) and all(zero_test(q.dominating_conditions(P, f, b), pol) for b, t in sites)
        ctx.ob(R, key, "entry-%s-iff-stake-%s" % ("dropped" if nm == "remove" else "saved", "zero" if pol else "positive"), ok,
               "STAKES.%s in update_stake is not under `shares.stake.is_zero()` being %s" % (nm, pol), fn=f,
               sample="if shares.stake.is_zero() { remove } else { save }")


def _mentions_field(P, fn, op, site, name):
    """the operand is (a reference to) a place ending in field `name`, or a copy of such a field"""
    if op.get("k") not in ("copy", "move"):
        return False
    pl = op["place"]
    if any(e["k"] == "field" and e.get("name") == name for e in pl["p"]):
        return True
    if pl["p"]:
        return False
    for kind, db, di, x in P.defs(fn).get(pl["l"], []):
        if kind == "assign" and x["rv"]["k"] in ("ref", "use"):
            src = x["rv"].get("place") or x["rv"].get("op", {}).get("place")
            if src and any(e["k"] == "field" and e.get("name") == name for e in src["p"]):
                return True
    return False


def r10(ctx, cfg):
    """"staking parameters fixed at setup" / "naming an unknown validator fails": what *known* means.  setup stores the parameters it
    is given; add_validator refuses an address that is already there and otherwise records the validator in all three
    places the other operations read (VALIDATOR_MAP, VALIDATORS, VALIDATOR_INFO) before it reports success."""
    F, P = cfg.facts, cfg.prov
    R = "C14.R9"
    key = SK + "setup"
    f = ctx.need_fn(R, key)
    if f is not None:
        sv = store_calls(P, f, ("item", "staking::STAKING_INFO"), ("save",))
        ok = len(sv) == 1
        if ok:
            a = P.call_args(f, sv[0][1], sv[0][0])
            ok = is_param(a[2], "staking_info") and contains(a[1], lambda x: x[0] == "call" and x[1] == "prefixed_storage::prefixed" and is_param(x[2][0], "storage"))
            # (success = the save's own verdict: `save(..)?; Ok(())` or `save(..).map_err(Into::into)`)
            ok = ok and all(q.succeeded(q.dominating_conditions(P, f, site[0]), "cw_storage_plus::Item::save") or
                            contains(v, lambda x: x[0] == "call" and x[1] == "cw_storage_plus::Item::save") for site, v in q.success_return_sites(P, f))
        ctx.ob(R, key, "setup-stores-the-given-parameters", ok, "setup does not save the given StakingInfo (or can succeed without)", fn=f,
               sample="STAKING_INFO.save(prefixed(storage, NAMESPACE_STAKING), &staking_info)?")
    # the read side of the same records: get_staking_info is what setup stored (defaults only when nothing was), get_validator
    # is the map entry under the address asked for, get_validators is the whole list.  Stated on what the answer is made of,
    # not on a spelling: `x?.unwrap_or_default()`, `match x? { Some(v) => v, None => Default::default() }`,
    # `x.map_err(Into::into)`, a loop that pushes every element.
    from rules.C01 import DENY_ADAPTERS
    CONV = ("map_err", "into", "from", "unwrap_or_default", "collect", "default", "new", "with_capacity")

    def only_calls(o, allowed_keys):
        cs = []
        contains(o, lambda x: cs.append(x[1]) if x[0] in ("call", "mutby") else False)
        return all(c in allowed_keys or c.rsplit("::", 1)[-1] in CONV or c.rsplit("::", 1)[-1] == "push" for c in cs)
    g = ctx.need_fn(R, SK + "get_staking_info")
    if g is not None:
        def is_load(x):
            return x[0] == "call" and x[1] == "cw_storage_plus::Item::may_load" and peel(x[2][0]) == ("item", "staking::STAKING_INFO") and is_param(x[2][1], "staking_storage")
        bad = []
        n = 0
        for val, conds, site in q.value_cases(P, g, 0):
            o = peel(val)
            if o[0] == "call" and o[1].endswith("FromResidual::from_residual") or (o[0] == "agg" and o[1].endswith("Result::Err")):
                continue
            n += 1
            pay = o[2][0][1] if o[0] == "agg" and o[1].endswith("Result::Ok") and o[2] else o
            if contains(pay, is_load) and only_calls(pay, ("cw_storage_plus::Item::may_load",)):
                continue
            if not contains(pay, lambda x: x[0] == "param") and only_calls(pay, ()) and any(c[0] == "variant_in" and c[2] == ("None",) and contains(c[1], is_load) for e, c in conds):
                continue
            bad.append(fmt(pay)[:80])
        ctx.ob(R, g.key, "answers-the-stored-record", n >= 1 and not bad, "get_staking_info can answer %s" % bad, fn=g, sample="STAKING_INFO.may_load(storage)?.unwrap_or_default()")
    g = ctx.need_fn(R, SK + "get_validator")
    if g is not None:
        def is_vload(x):
            return x[0] == "call" and x[1] == "cw_storage_plus::Map::may_load" and peel(x[2][0]) == ("item", "staking::VALIDATOR_MAP") and is_param(x[2][1], "staking_storage") and is_param(x[2][2], "address")
        vals = q.success_payloads(P, g)
        ok = bool(vals) and all(contains(v, is_vload) and only_calls(v, ("cw_storage_plus::Map::may_load",)) for v in vals)
        ctx.ob(R, g.key, "answers-the-stored-record", ok, "get_validator answers %s" % [fmt(peel(v))[:80] for v in vals], fn=g, sample="VALIDATOR_MAP.may_load(storage, address)?")
    g = ctx.need_fn(R, SK + "get_validators")
    if g is not None:
        def is_iter(x):
            return x[0] == "call" and x[1] == "cw_storage_plus::Deque::iter" and peel(x[2][0]) == ("item", "staking::VALIDATORS") and is_param(x[2][1], "staking_storage")
        vals = q.success_payloads(P, g)
        cut = [t["callee"]["name"] for h in F.lexical(g.key) for b, t in h.calls() if t["callee"]["name"] in DENY_ADAPTERS and not t["callee"]["local"]]
        cond_push = [t["line"] for h in F.lexical(g.key) for b, t in h.calls() if t["callee"]["name"] == "push" and
                     [c for e, c in q.dominating_conditions(P, h, b) if c[0] == "bool" and not q.is_derived(c)]]
        ok = bool(vals) and all(contains(v, is_iter) and only_calls(v, ("cw_storage_plus::Deque::iter",)) for v in vals) and not cut and not cond_push
        ctx.ob(R, g.key, "answers-the-stored-record", ok, "get_validators answers %s%s" % ([fmt(v)[:80] for v in vals], " through %s" % (cut or cond_push) if (cut or cond_push) else ""), fn=g,
               sample="every element of VALIDATORS.iter(storage)?")
    key = SK + "add_validator"
    f = ctx.need_fn(R, key)
    if f is not None:
        VMAP, VLIST = ("item", "staking::VALIDATOR_MAP"), ("item", "staking::VALIDATORS")
        def addr_of_validator(o):
            o = peel(o)
            return o[0] == "field" and o[2] == "address" and is_param(o[1], "validator")
        ms = store_calls(P, f, VMAP, ("save",))
        vs = [(b, t) for b, t in f.calls() if t["callee"]["key"].startswith("cw_storage_plus::Deque::push_back") and peel(P.call_args(f, t, b)[0]) == VLIST]
        is_ = store_calls(P, f, VINFO, ("save",))
        ok = len(ms) == 1 and len(vs) == 1 and len(is_) == 1
        d = "expected one save of VALIDATOR_MAP, one push_back on VALIDATORS and one save of VALIDATOR_INFO (found %d/%d/%d)" % (len(ms), len(vs), len(is_))
        if ok:
            ma, va, ia = P.call_args(f, ms[0][1], ms[0][0]), P.call_args(f, vs[0][1], vs[0][0]), P.call_args(f, is_[0][1], is_[0][0])
            info = peel(ia[3])
            ok = addr_of_validator(ma[2]) and is_param(ma[3], "validator") and is_param(va[2], "validator") and addr_of_validator(ia[2]) and \
                info[0] == "call" and info[1] == "staking::ValidatorInfo::new" and peel(info[2][0])[0] == "field" and peel(info[2][0])[2] == "time" and is_param(peel(info[2][0])[1], "block")
            d = "the validator is not recorded as (MAP[address] = validator, VALIDATORS += validator, INFO[address] = ValidatorInfo::new(block.time))"
        ctx.ob(R, key, "validator-recorded-in-all-three-places", ok, d, fn=f, sample="VALIDATOR_MAP.save, VALIDATORS.push_back, VALIDATOR_INFO.save")
        if ok:
            cf = cfg_of(f)
            sites = [ms[0][0], vs[0][0], is_[0][0]]
            out = [b for (b, i), v in q.success_return_sites(P, f) if not all(cf.dominates(s0, b) for s0 in sites)]
            ctx.ob(R, key, "succeeds-only-after-recording", not out, "add_validator can succeed at block(s) %s without all three writes" % sorted(set(out)), fn=f,
                   sample="Ok(()) dominated by the three writes")
            # an address that is already there is refused before anything is written
            def absent(b):
                return any(c[0] == "bool" and c[1][0] in ("is_some", "is_none") and (c[1][2] is (c[1][0] == "is_none")) and
                           contains(c[1][1][0], lambda x: x[0] == "call" and x[1] == "cw_storage_plus::Map::may_load" and peel(x[2][0]) == VMAP) or
                           c[0] == "variant_in" and c[2] == ("None",) and contains(c[1], lambda x: x[0] == "call" and x[1] == "cw_storage_plus::Map::may_load" and peel(x[2][0]) == VMAP)
                           for e, c in q.dominating_conditions(P, f, b))
            ctx.ob(R, key, "existing-address-refused-before-writing", all(absent(b) for b in sites),
                   "a write of add_validator is not under `VALIDATOR_MAP.may_load(address) is None`", fn=f, sample="if may_load(..).is_some() { bail! }")


QUERY = "<staking::StakeKeeper as module::Module>::query"


def r11(ctx, cfg):
    """what the staking queries answer - the property is *observed* through them ("raises that delegator's delegation ...",
    "leaves the delegation at once", "naming an unknown validator fails"), so each answer must be the record it stands for:
    - get_stake(account, validator): the entry STAKES[(account, validator)], floor(stake) in the bonded denomination, None
      without an entry;
    - Delegation { delegator, validator }: the entry STAKES[(validated delegator, validator)] (default when absent) -> nothing
      when floor(stake) is zero, else FullDelegation(delegator, validator, amount, amount, [reward] unless zero) with the
      reward computed from that same entry, the validator of the request and its stored info; an unknown validator is an error;
    - AllDelegations { delegator }: for every validator of get_validators, in order and without skipping, get_stake(validated
      delegator, that validator) -> Delegation(delegator, that validator, amount);
    - BondedDenom: the stored bonded denomination; AllValidators / Validator { address }: get_validators / get_validator(address)
    all on the staking module's read view (C08.R3 / C15.R6)."""
    from rules.C01 import DENY_ADAPTERS
    F, P = cfg.facts, cfg.prov
    R = "C14.R10"

    def reqf(o, arm, name):
        o = peel(o)
        return o[0] == "field" and o[2] == name and peel(o[1])[0] == "variant" and peel(o[1])[2] == arm and is_param(peel(o[1])[1], "request")

    def validated(o, arm, name):
        o = peel(o)
        return o[0] == "ok" and peel(o[1])[0] == "call" and peel(o[1])[1].endswith("Api::addr_validate") and just(peel(o[1])[2][1], lambda y: reqf(y, arm, name))

    def floor_of_stake(o, entry_pred):
        a = peel(o)
        while a[0] == "call" and len(a[2]) == 1 and a[1].rsplit("::", 1)[-1] in ("u128", "into", "from"):
            a = peel(a[2][0])
        if not (a[0] == "call" and a[1].endswith("Uint128::mul_floor") and len(a[2]) == 2 and peel(a[2][0])[0] == "call" and peel(peel(a[2][0])[2][0]) == ("const", "int", 1)):
            return False
        # (`entry.unwrap_or_default().stake`, or the two cases spelled out: the entry's stake | the stake of a default entry)
        sts = [peel(x) for x in alts(peel(a[2][1]))]
        if not all(st[0] == "field" and st[2] == "stake" for st in sts):
            return False
        dflt = [st for st in sts if peel(st[1])[0] == "call" and peel(st[1])[1].endswith("Default::default") and not peel(st[1])[2]]
        rest = [st for st in sts if st not in dflt]
        return bool(rest) and all(entry_pred(st[1]) for st in rest)

    def coin_parts(o):
        c = peel(o)
        if c[0] == "call" and c[1] in ("cosmwasm_std::coin", "cosmwasm_std::Coin::new") and len(c[2]) == 2:
            return c[2][0], c[2][1]
        if c[0] == "agg" and c[1].startswith("cosmwasm_std::Coin"):
            d = dict(c[2])
            return d.get("amount"), d.get("denom")
        return None, None

    def bonded(o):
        o = peel(o)
        if o[0] == "field" and o[2] == "denom" and peel(o[1])[0] == "ok" and peel(peel(o[1])[1])[0] == "call" and peel(peel(o[1])[1])[1] == SK + "get_rewards_internal":
            return True     # the denomination of the reward coin: the bonded denomination read by get_rewards_internal (C15.R2)
        return o[0] == "field" and o[2] == "bonded_denom" and contains(o[1], lambda x: x[0] == "call" and x[1] in (SK + "get_staking_info", "cw_storage_plus::Item::load", "cw_storage_plus::Item::may_load"))

    # ---- get_stake
    key = SK + "get_stake"
    g = ctx.need_fn(R, key)
    if g is not None:
        def entry_of_args(o):
            return contains(o, lambda x: x[0] == "call" and x[1] == "cw_storage_plus::Map::may_load" and peel(x[2][0]) == STAKES and is_param(x[2][1], "staking_storage") and
                            peel(x[2][2])[0] == "agg" and [is_param(v, n) for (k0, v), n in zip(peel(x[2][2])[2], ("account", "validator"))] == [True, True])
        vals = [peel(x) for site, v in q.success_return_sites(P, g) for x in alts(peel(peel(v)[2][0][1]) if peel(v)[0] == "agg" and peel(v)[1].endswith("Result::Ok") else peel(v))]
        somes = [x for x in vals if x[0] == "agg" and x[1].endswith("Option::Some")]
        others = [x for x in vals if not (x[0] == "agg" and x[1].endswith(("Option::Some", "Option::None")))]
        ok = len(somes) >= 1 and not others
        for sm in somes:
            amt, den = coin_parts(sm[2][0][1])
            ok = ok and amt is not None and floor_of_stake(amt, entry_of_args) and bonded(den)
        ctx.ob(R, key, "answers-floor-of-the-entry's-stake", ok, "get_stake answers %s" % [fmt(x)[:80] for x in vals][:3], fn=g,
               sample="Some(Coin { bonded_denom, floor(STAKES[(account, validator)].stake) }) | None")
    f = ctx.need_fn(R, QUERY)
    if f is None:
        return

    def arm_calls(name, arm):
        return [(b, t) for b, t in f.calls() if t["callee"]["key"] == name and _arm(P, f, b, "request") == arm]
    # ---- BondedDenom / AllValidators / Validator
    for arm, ctor, pred, want in (
            ("BondedDenom", "cosmwasm_std::BondedDenomResponse::new", lambda a: bonded(a[0]), "get_staking_info().bonded_denom"),
            ("AllValidators", "cosmwasm_std::AllValidatorsResponse::new",
             lambda a: peel(a[0])[0] == "ok" and peel(peel(a[0])[1])[0] == "call" and peel(peel(a[0])[1])[1] == SK + "get_validators", "get_validators()"),
            ("Validator", "cosmwasm_std::ValidatorResponse::new",
             lambda a: peel(a[0])[0] == "ok" and peel(peel(a[0])[1])[0] == "call" and peel(peel(a[0])[1])[1] == SK + "get_validator" and
             just(peel(peel(a[0])[1])[2][2], lambda y: reqf(y, "Validator", "address")), "get_validator(address)")):
        cs = arm_calls(ctor, arm)
        ok = len(cs) == 1 and pred(P.call_args(f, cs[0][1], cs[0][0]))
        ctx.ob(R, QUERY, "%s-answers-%s" % (arm, want), ok, "the %s query does not answer %s" % (arm, want), fn=f, sample=want)
    # ---- Delegation
    fd = arm_calls("cosmwasm_std::FullDelegation::new", "Delegation")
    ok = len(fd) == 1
    d = "expected one FullDelegation::new in the Delegation arm, found %d" % len(fd)
    if ok:
        b, t = fd[0]
        a = P.call_args(f, t, b)

        def entry(o):
            # STAKES.may_load(view, (validated delegator, validator of the request)) - default when absent
            return contains(o, lambda x: x[0] == "call" and x[1] == "cw_storage_plus::Map::may_load" and peel(x[2][0]) == STAKES and peel(x[2][2])[0] == "agg" and
                            len(peel(x[2][2])[2]) == 2 and validated(peel(x[2][2])[2][0][1], "Delegation", "delegator") and
                            just(peel(x[2][2])[2][1][1], lambda y: reqf(y, "Delegation", "validator"))) and \
                not contains(o, lambda x: x[0] == "call" and x[1] == "cw_storage_plus::Map::may_load" and peel(x[2][0]) == STAKES and not (
                    peel(x[2][2])[0] == "agg" and len(peel(x[2][2])[2]) == 2 and validated(peel(x[2][2])[2][0][1], "Delegation", "delegator") and
                    just(peel(x[2][2])[2][1][1], lambda y: reqf(y, "Delegation", "validator"))))
        amt1, den1 = coin_parts(a[2])
        amt2, den2 = coin_parts(a[3])
        parts = [("delegator", validated(a[0], "Delegation", "delegator")),
                 ("validator", just(a[1], lambda y: reqf(y, "Delegation", "validator"))),
                 ("amount", amt1 is not None and floor_of_stake(amt1, entry) and bonded(den1)),
                 ("can_redelegate", amt2 is not None and floor_of_stake(amt2, entry) and bonded(den2))]
        # the reward list: `if reward.is_zero() { vec![] } else { vec![reward] }` or `let mut v = Vec::new(); if !reward.is_zero() { v.push(reward) }`
        def is_reward(o):
            r0 = peel(o)
            if not (r0[0] == "ok" and peel(r0[1])[0] == "call" and peel(r0[1])[1] == SK + "get_rewards_internal"):
                return False
            ra = peel(r0[1])[2]
            return is_param(ra[1], "block") and entry(ra[2]) and \
                contains(ra[3], lambda x: x[0] == "call" and x[1] == SK + "get_validator" and just(x[2][2], lambda y: reqf(y, "Delegation", "validator"))) and \
                contains(ra[4], lambda x: x[0] == "call" and x[1].startswith("cw_storage_plus::Map::") and peel(x[2][0]) == VINFO and just(x[2][2], lambda y: reqf(y, "Delegation", "validator")))
        listed = []          # (block, the reward value) of every place a reward is put into a list
        for b3, i3, st3 in f.stmts():
            if st3["k"] == "assign" and st3["rv"].get("k") == "aggregate" and _arm(P, f, b3, "request") == "Delegation":
                o3 = peel(P.rvalue(f, st3["rv"], (b3, i3)))
                if o3[0] == "agg" and o3[1] in ("vec", "array") and len(o3[2]) == 1 and contains(o3[2][0][1], lambda x: x[0] == "call" and x[1] == SK + "get_rewards_internal"):
                    listed.append((b3, o3[2][0][1]))
        for b3, t3 in f.calls():
            if t3["callee"]["key"] == "std::vec::Vec::push" and _arm(P, f, b3, "request") == "Delegation":
                a3 = P.call_args(f, t3, b3)
                if contains(a3[1], lambda x: x[0] == "call" and x[1] == SK + "get_rewards_internal"):
                    listed.append((b3, a3[1]))
        rw = [peel(x) for x in alts(peel(a[4]))]
        shapes = all((x[0] == "agg" and x[1] in ("vec", "array") and len(x[2]) <= 1) or (x[0] == "call" and x[1].endswith(("Vec::new", "Vec::with_capacity"))) or x[0] == "upd" for x in rw)
        rok = len(listed) == 1 and is_reward(listed[0][1]) and shapes
        rz = []
        if len(listed) == 1:
            rz = [c[1][2] for e, c in q.dominating_conditions(P, f, listed[0][0]) if c[0] == "bool" and c[1][0] == "is_zero" and not q.is_derived(c) and
                  contains(c[1][1][0], lambda x: x[0] == "call" and x[1] == SK + "get_rewards_internal")]
        if not listed:
            # the list made of an Option: `Vec::from_iter((!reward.amount.is_zero()).then_some(reward))`, `cond.then(|| reward).into_iter().collect()`
            from vlib import pipeline
            cs0 = pipeline.contents(P, F, f, a[4])
            if len(cs0) == 1 and cs0[0].kind == "single" and is_reward(cs0[0].expr):
                rok = True
                rz = [c0[2] for c0 in cs0[0].conds if c0[0] == "is_zero" and contains(c0[1][0], lambda x: x[0] == "call" and x[1] == SK + "get_rewards_internal")]
        parts.append(("accumulated_rewards", rok))
        bad = [n for n, v in parts if not v]
        ok = not bad
        d = "FullDelegation is not built from the request and its own entry: %s" % bad
        # shown iff floor(stake) is not zero; rewards listed iff not zero
        cs = [c for e, c in q.dominating_conditions(P, f, b) if c[0] == "bool" and c[1][0] == "is_zero" and not q.is_derived(c)]
        okz = [c[1][2] for c in cs if floor_of_stake(c[1][1][0], entry) or (peel(c[1][1][0])[0] == "field" and peel(c[1][1][0])[2] == "amount")] == [False]
        ctx.ob(R, QUERY, "Delegation-shown-iff-stake-nonzero", okz, "the Delegation arm builds the FullDelegation under %s" % [(c[1][0], c[1][2]) for c in cs], fn=f,
               sample="if amount.is_zero() { None } else { Some(FullDelegation..) }")
        ctx.ob(R, QUERY, "Delegation-lists-the-reward-iff-nonzero", rz == [False], "the reward is listed under is_zero == %s" % rz, fn=f,
               sample="if reward.is_zero() { vec![] } else { vec![reward] }")
    ctx.ob(R, QUERY, "Delegation-answers-the-request's-own-entry", ok, d, fn=f, sample="FullDelegation(delegator, validator, floor(stake), floor(stake), [reward])")
    nv = [(b, t) for b, t in f.calls() if t["callee"]["key"] == SK + "get_validator" and _arm(P, f, b, "request") == "Delegation"]
    okv = len(nv) == 1 and bool(fd) and any(c[0] == "variant_in" and c[2] == ("Some",) and contains(c[1], lambda x: x[0] == "call" and x[1] == SK + "get_validator")
                                            for e, c in q.dominating_conditions(P, f, fd[0][0]))
    ctx.ob(R, QUERY, "Delegation-of-unknown-validator-is-an-error", okv, "the Delegation arm answers without having found the validator", fn=f, sample="get_validator(validator)? is Some")
    # ---- AllDelegations
    dl = [(g2, b, t) for g2 in F.lexical(QUERY) for b, t in g2.calls() if t["callee"]["key"] == "cosmwasm_std::Delegation::new"]
    ok = len(dl) == 1
    d = "expected one Delegation::new, found %d" % len(dl)
    if ok:
        g2, b, t = dl[0]
        a = P.call_args(g2, t, b)
        def elem_addr(o):
            o = peel(o)
            return o[0] == "field" and o[2] == "address" and peel(o[1])[0] == "bound" and peel(o[1])[1] == "elem" and \
                contains(peel(o[1])[2], lambda x: x[0] == "call" and x[1] == SK + "get_validators")
        amt = peel(a[2])
        from_get_stake = contains(amt, lambda x: x[0] == "call" and x[1] == SK + "get_stake" and validated(x[2][2], "AllDelegations", "delegator") and just(x[2][3], elem_addr))
        if not from_get_stake:
            # the same answer written out (get_stake's body in the loop): Coin { bonded denomination, floor(STAKES[(delegator, validator.address)].stake) }
            def own_entry(o):
                def mine(x):
                    return x[0] == "call" and x[1] == "cw_storage_plus::Map::may_load" and peel(x[2][0]) == STAKES and peel(x[2][2])[0] == "agg" and \
                        len(peel(x[2][2])[2]) == 2 and validated(peel(x[2][2])[2][0][1], "AllDelegations", "delegator") and just(peel(x[2][2])[2][1][1], elem_addr)
                return contains(o, mine) and not contains(o, lambda x: x[0] == "call" and x[1].startswith("cw_storage_plus::Map::") and peel(x[2][0]) == STAKES and not mine(x))
            am0, dn0 = coin_parts(amt)
            from_get_stake = am0 is not None and floor_of_stake(am0, own_entry) and not contains(dn0, lambda x: x[0] == "const") and \
                contains(dn0, lambda x: x[0] == "field" and x[2] == "bonded_denom" and contains(x[1], lambda y: y[0] == "call" and y[1] == SK + "get_staking_info"))
        ok = validated(a[0], "AllDelegations", "delegator") and just(a[1], elem_addr) and from_get_stake
        d = "Delegation::new(%s, %s, %s)" % (fmt(a[0])[:40], fmt(a[1])[:40], fmt(amt)[:60])
        adapters = [t2["callee"]["name"] for g3 in F.lexical(QUERY) for b2, t2 in g3.calls()
                    if t2["callee"]["name"] in DENY_ADAPTERS - {"filter_map", "filter"} and not t2["callee"]["local"] and _arm(P, g3, b2, "request") in ("AllDelegations", "")
                    and g3.key != QUERY or (g3.key == QUERY and t2["callee"]["name"] in DENY_ADAPTERS - {"filter_map", "filter"} and not t2["callee"]["local"] and _arm(P, g3, b2, "request") == "AllDelegations")]
        ctx.ob(R, QUERY, "AllDelegations-walks-every-validator", not adapters, "the walk over the validators uses %s" % adapters, fn=f, sample="no skip / take / rev ..")
    ctx.ob(R, QUERY, "AllDelegations-answers-get_stake-per-validator", ok, d, fn=f, sample="Delegation(delegator, validator.address, get_stake(delegator, validator.address))")


def r12(ctx, cfg):
    """the answers of R10 are made from the staking module's own records: every read and write of a staking item in staking.rs goes
    to a view of the module's namespace, helpers see the same namespace from all their callers, and each item lives under one
    namespace (C08.R3 restricted to staking.rs, under C14's id - parameters looked up outside the view silently come back as
    the defaults: `TOKEN`, 10 %, 60 s)"""
    from rules import C08
    C08.r3(ctx, cfg, R="C14.R11", files=("src/staking.rs",), floor=37)
