"""C18 — address helpers: decided structural clauses (DESIGN.md §5 C18)."""
from vlib import q
from vlib.cfg import cfg_of
from vlib.prov import peel, fmt, is_param, contains, alts, leaves, is_param_field, same_origin

LEVEL = "other"
LEVEL_TEXT = (
    "Partial: decides that every bech32 call inside MockApiBech<T> is instantiated at the struct's own checksum variant "
    "T, that the IntoBech32 / IntoBech32m helpers construct the matching variant with the matching prefix, that "
    "addr_canonicalize returns Ok only under `hrp == self.prefix` (every other path is Err), that validation is "
    "decode-then-encode under the same codec, and that name addresses depend only on the name and the prefix. NOT "
    "decided: the bech32 round trip itself, rejection of altered characters and of mixed case (these live in the "
    "`bech32` crate)."
)
EXPLANATION = LEVEL_TEXT
TRUSTED = ["rustc (monomorphic generic arguments recorded per call site)", "cwmt-facts driver", "vlib (dominators, provenance)",
           "bech32 crate: CheckedHrpstring::new::<Ck> verifies the checksum variant Ck; encode::<Ck> produces it"]
ASSUMPTIONS = ["bech32 encode/decode are inverse for valid input"]

API = "<api::MockApiBech as cosmwasm_std::Api>::"


def check(ctx, cfg):
    r1(ctx, cfg)
    r2(ctx, cfg)
    r3(ctx, cfg)
    r4(ctx, cfg)


def r1(ctx, cfg):
    F, P = cfg.facts, cfg.prov
    R = "C18.R1"
    n = 0
    for f in F.user_fns():
        if f.file != "src/api.rs":
            continue
        for bid, t in f.calls():
            c = t["callee"]
            if c["key"].startswith("bech32::") and c["name"] in ("new", "encode", "encode_lower", "encode_upper", "decode") and c["gargs"]:
                if c["key"] in ("bech32::primitives::decode::CheckedHrpstring::new", "bech32::encode", "bech32::encode_lower", "bech32::encode_upper"):
                    n += 1
                    # the checksum type parameter of the call is the impl's own `T`
                    ck = [g for g in c["gargs"] if not g.startswith("'")]
                    ctx.ob(R, f.key, "codec-is-own-T:%s" % c["name"], ck[:1] == ["T"],
                           "%s is instantiated at %s inside MockApiBech<T> (must be the struct's own T)" % (c["key"], ck), fn=f, line=t["line"],
                           sample="%s::<T>" % c["key"])
            # the unchecked / variant-agnostic decoders must not be used
            if c["key"] in ("bech32::decode", "bech32::primitives::decode::UncheckedHrpstring::new"):
                ctx.fail(R, f.key, "variant-agnostic-decoder", "%s accepts both checksum variants" % c["key"], fn=f, line=t["line"])
    ctx.floor(R, "bech32 codec calls in api.rs", n, 3)
    exp = {"<&str as addresses::IntoBech32>::into_bech32": ("bech32::Bech32", None), "<&str as addresses::IntoBech32>::into_bech32_with_prefix": ("bech32::Bech32", "prefix"),
           "<&str as addresses::IntoBech32m>::into_bech32m": ("bech32::Bech32m", None), "<&str as addresses::IntoBech32m>::into_bech32m_with_prefix": ("bech32::Bech32m", "prefix")}
    for key, (variant, pfx) in exp.items():
        f = ctx.need_fn(R, key)
        if f is None:
            continue
        news = q.calls(f, "api::MockApiBech::new")
        mk = q.calls(f, "api::MockApiBech::addr_make")
        ok = len(news) == 1 and len(mk) == 1
        d = "?"
        ft = q.forward_target(F, P, f)
        if not pfx and ft is not None and ft[0].key == key + "_with_prefix":
            # `self.into_bech32_with_prefix(DEFAULT_PREFIX)`: the sibling (checked with its own prefix parameter) does the work
            a = ft[1]
            d = "%s(%s)" % (ft[0].key, ", ".join(fmt(x) for x in a))
            ok = len(a) == 2 and is_param(a[0], "self") and peel(a[1]) == ("item", "addresses::DEFAULT_PREFIX")
        elif ok:
            nb, nt = news[0]
            a = P.call_args(f, nt, nb)
            d = "MockApiBech::<%s>::new(%s)" % (nt["callee"]["gargs"], fmt(a[0]))
            ok = nt["callee"]["gargs"] == [variant] and mk[0][1]["callee"]["gargs"] == [variant]
            if pfx:
                ok = ok and is_param(a[0], pfx)
            else:
                ok = ok and peel(a[0]) == ("item", "addresses::DEFAULT_PREFIX")
            ma = P.call_args(f, mk[0][1], mk[0][0])
            ok = ok and is_param(ma[1], "self") and peel(ma[0])[0] == "call" and peel(ma[0])[1] == "api::MockApiBech::new"
        ctx.ob(R, key, "variant-and-prefix", ok, "%s builds %s" % (key, d), fn=f, sample=d)
        # ... and that is the only thing it ever returns (no shortcut through the other codec for some prefix)
        rets = [peel(x) for x in alts(peel(P.ret(f)))]
        sibling = key.rsplit("::", 1)[-1] + "_with_prefix"      # (`self.into_bech32_with_prefix(..)`, whether resolved to the impl or named through the trait)
        def made(r):
            return r[0] == "call" and (r[1] == "api::MockApiBech::addr_make" or (not pfx and r[1].rsplit("::", 1)[-1] == sibling and "::IntoBech32" in r[1] + key))
        okr = bool(rets) and all(made(r) for r in rets)
        ctx.ob(R, key, "every-result-made-by-the-matching-api", okr, "%s can also return %s" % (key, [fmt(r)[:60] for r in rets if not made(r)]),
               fn=f, sample="addr_make of the matching MockApiBech only")
    c = F.consts.get("addresses::DEFAULT_PREFIX")
    ctx.ob(R, "addresses::DEFAULT_PREFIX", "default-prefix", bool(c) and c.get("value") == "cosmwasm", "DEFAULT_PREFIX is %r" % (c or {}).get("value"), sample="'cosmwasm'")
    key = "api::MockApiBech::new"
    f = ctx.need_fn(R, key)
    if f is not None:
        ret = peel(P.ret(f))
        ok = ret[0] == "agg" and is_param(dict(ret[2])["prefix"], "prefix")
        ctx.ob(R, key, "stores-given-prefix", ok, "MockApiBech::new builds %s" % fmt(ret)[:100], fn=f, sample="prefix: prefix")


def _self_prefix(o):
    return contains(o, lambda x: x[0] == "field" and x[2] == "prefix" and is_param(x[1], "self"))


def _parsed_prefix_fields(cfg):
    """fields of MockApiBech that always hold `Hrp::parse(prefix)` of the same value (a prefix parsed once at construction
    instead of at every use): every place the struct is built sets the field to `Hrp::parse(<what it sets prefix to>)`, and no
    code assigns to either field afterwards"""
    F, P = cfg.facts, cfg.prov
    if getattr(F, "_c18_parsed", None) is not None:
        return F._c18_parsed
    cand = None
    for g in F.user_fns():
        for b, i, st in g.stmts():
            if st["k"] != "assign":
                continue
            if any(e["k"] == "field" and e.get("of") == "api::MockApiBech" for e in st["dst"]["p"]):
                cand = set()            # a field of the struct is written after construction: no invariant
                break
            rv = st["rv"]
            if rv.get("k") == "aggregate" and rv.get("adt") == "api::MockApiBech":
                o = peel(P.rvalue(g, rv, (b, i)))
                d = dict(o[2])
                here = {fl for fl, v in d.items() if fl != "prefix" and peel(v)[0] == "call" and peel(v)[1] == "bech32::Hrp::parse" and
                        "prefix" in d and same_origin(peel(peel(v)[2][0]), peel(d["prefix"]))}
                cand = here if cand is None else cand & here
        if cand == set():
            break
    F._c18_parsed = cand or set()
    return F._c18_parsed


def _own_hrp(cfg, o):
    """`o` is this Api's prefix parsed as an Hrp: `Hrp::parse(self.prefix)` on the spot, or the field that holds it"""
    fields = _parsed_prefix_fields(cfg)
    return contains(o, lambda x: (x[0] == "call" and x[1] == "bech32::Hrp::parse" and _self_prefix(x[2][0])) or
                    (x[0] == "field" and x[2] in fields and is_param(x[1], "self")))


def r2(ctx, cfg):
    F, P = cfg.facts, cfg.prov
    R = "C18.R2"
    key = API + "addr_canonicalize"
    f = ctx.need_fn(R, key)
    if f is None:
        return
    n_ok = 0
    for bid, i, st in f.stmts():
        if st["k"] == "assign" and st["dst"]["l"] == 0 and not st["dst"]["p"]:
            o = peel(P.rvalue(f, st["rv"], (bid, i)))
            if o[0] == "agg" and o[1].endswith("Result::Ok"):
                n_ok += 1
                conds = q.inherited_conditions(P, f, bid)      # (the decoding may sit in a helper handing back an Option)
                decoded = any(c[0] == "variant_in" and c[2] == ("Ok",) and peel(c[1])[0] == "call" and peel(c[1])[1] == "bech32::primitives::decode::CheckedHrpstring::new"
                              and is_param(peel(c[1])[2][0], "input") for e, c in conds)
                def _is_hrp(x):
                    x = peel(x)
                    if x[0] == "call" and x[1] == "bech32::Hrp::as_str" and len(x[2]) == 1:
                        x = peel(x[2][0])       # (the same characters as `to_string()`, borrowed: case kept)
                    return x[0] == "call" and x[1].endswith("CheckedHrpstring::hrp")

                def _is_own_prefix(x):
                    x = peel(x)
                    return x[0] == "field" and x[2] == "prefix" and is_param(x[1], "self")
                # the comparison is between the decoded hrp itself and self.prefix itself (not lengths, hashes, ...)
                pfx = q.has_cond(conds, "eq", pol=True, arg_pred=lambda a: len(a) == 2 and any(_is_own_prefix(x) for x in a) and any(_is_hrp(x) for x in a))
                ctx.ob(R, key, "Ok-only-for-decoded-input-with-own-prefix", decoded and pfx,
                       "Ok(..) is returned without (checked decode under T succeeded) && (hrp == self.prefix)", fn=f, line=st["line"],
                       sample="dominated by CheckedHrpstring::new::<T>(input) is Ok and hrp == self.prefix")
                pay = o[2][0][1]
                ok = contains(pay, lambda x: x[0] == "call" and x[1].endswith("CheckedHrpstring::byte_iter") and
                              contains(x[2][0], lambda y: y[0] == "call" and y[1].endswith("CheckedHrpstring::new")))
                ctx.ob(R, key, "canonical-bytes-are-the-decoded-data", ok, "Ok payload is %s" % fmt(pay)[:120], fn=f, line=st["line"], sample="s.byte_iter().collect()")
            elif not (o[0] == "agg" and o[1].endswith("Result::Err")):
                ctx.fail(R, key, "other-return", "addr_canonicalize returns %s" % fmt(o)[:80], fn=f, line=st["line"])
    ctx.ob(R, key, "one-Ok-return", n_ok == 1, "expected exactly one Ok return, found %d" % n_ok, fn=f, sample="1")
    # humanize encodes under own prefix and T
    key = API + "addr_humanize"
    f = ctx.need_fn(R, key)
    if f is not None:
        enc = q.calls(f, "bech32::encode")
        ok = len(enc) == 1
        if ok:
            a = P.call_args(f, enc[0][1], enc[0][0])
            ok = _own_hrp(cfg, a[0]) and is_param(a[1], "canonical")
        ctx.ob(R, key, "encode(parse(self.prefix), canonical)", ok, "addr_humanize does not encode the canonical bytes under its own prefix", fn=f,
               sample="encode::<T>(Hrp::parse(self.prefix)?, canonical)")


def r3(ctx, cfg):
    """"validation accepts exactly strings that decode under that codec with that prefix and returns them unchanged": what
    addr_validate answers is `humanize(canonicalize(input)?)?` - and only when that spelling *is* the input.  `CheckedHrpstring`
    checks the checksum, not that the padding bits of the last 5-bit group are zero nor that there is no surplus group, so
    several spellings decode to the same bytes; re-encoding them and handing back the result accepts a malformed string and
    returns a different one."""
    F, P = cfg.facts, cfg.prov
    R = "C18.R3"
    key = API + "addr_validate"
    f = ctx.need_fn(R, key)
    if f is None:
        return

    def normalized(o):
        o = peel(o)
        if o[0] == "ok":
            o = peel(o[1])
        if not (o[0] == "call" and o[1] == "cosmwasm_std::Api::addr_humanize" and is_param(o[2][0], "self")):
            return False
        inner = peel(o[2][1])
        return inner[0] == "ok" and peel(inner[1])[0] == "call" and peel(inner[1])[1] == "cosmwasm_std::Api::addr_canonicalize" and \
            is_param(peel(inner[1])[2][0], "self") and is_param(peel(inner[1])[2][1], "input")

    def spelled(o):
        """the characters of the normalized address: `x.as_str()`, `x.to_string()`, `&*x`, `x.as_ref()`, x itself"""
        o = peel(o)
        while o[0] == "call" and o[1].rsplit("::", 1)[-1] in ("as_str", "to_string", "as_ref", "deref", "into_string", "borrow") and o[2]:
            o = peel(o[2][0])
        return normalized(o)
    vals = q.success_payloads(P, f)
    ok = bool(vals) and all(normalized(v) or (peel(v)[0] == "call" and peel(v)[1].endswith("Addr::unchecked") and is_param(peel(v)[2][0], "input")) for v in vals)
    # both Api calls resolved to this impl
    for bid, t in f.calls():
        c = t["callee"]
        if c.get("trait") == "cosmwasm_std::Api":
            ok = ok and (c.get("resolved") or "").startswith("<api::MockApiBech as cosmwasm_std::Api>::")
    ctx.ob(R, key, "validate=humanize(canonicalize(input)?)", ok, "addr_validate answers %s" % [fmt(peel(v))[:120] for v in vals], fn=f,
           sample="self.addr_humanize(&self.addr_canonicalize(input)?)")
    out = q.successes_outside(P, f, lambda cs: q.has_cond(cs, "eq", pol=True, arg_pred=lambda a: len(a) == 2 and any(is_param(x, "input") for x in a) and
                                                             any(spelled(x) for x in a)))
    ctx.ob(R, key, "accepted-only-as-spelled", not out,
           "addr_validate can answer Ok at block(s) %s without having compared the input with its normalized spelling: a string with non-zero padding "
           "bits (or a surplus 5-bit group) and a correct checksum is accepted and a different string is returned" % out, fn=f,
           sample="every Ok dominated by input == normalized")


def r4(ctx, cfg):
    F, P = cfg.facts, cfg.prov
    R = "C18.R4"
    key = "api::MockApiBech::addr_make"
    f = ctx.need_fn(R, key)
    if f is None:
        return
    enc = q.calls(f, "bech32::encode")
    ok = len(enc) == 1
    d = "?"
    if ok:
        a = P.call_args(f, enc[0][1], enc[0][0])
        d = "encode(%s, %s)" % (fmt(a[0])[:60], fmt(a[1])[:60])
        ok = _own_hrp(cfg, a[0]) and \
            contains(a[1], lambda x: x[0] == "call" and x[1].endswith("Digest::digest") and is_param(x[2][0], "input"))
        lv = {x[2] for x in leaves(a[1]) if x[0] == "param"}
        ok = ok and lv == {"input"}
    ctx.ob(R, key, "address=encode(parse(self.prefix), sha256(input))", ok, "addr_make builds %s" % d, fn=f, sample=d)
    ret = P.ret(f)
    names = {x[2] for x in leaves(ret) if x[0] == "param"}
    ctx.ob(R, key, "depends-only-on(name, prefix)", names == {"self", "input"} and not contains(ret, lambda x: x[0] == "field" and is_param(x[1], "self") and
                                                                                                   x[2] not in ({"prefix"} | _parsed_prefix_fields(cfg))),
           "addr_make depends on %s" % sorted(names), fn=f, sample="input, self.prefix")
