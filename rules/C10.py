"""C10 — queries are pure and observe exactly the transaction's current state (DESIGN.md §5 C10)."""
from vlib import q
from vlib.cfg import cfg_of
from vlib.prov import peel, fmt, is_param, contains, alts, deep_peel, same_origin, is_param_field

LEVEL = "proof"
LEVEL_TEXT = (
    "Proof relative to the stated trusted base: every query path receives the store as `&dyn Storage` (signature facts "
    "of all query traits, their local impls and the inherent query helpers; RouterQuerier holds a shared reference; "
    "contract query entry points receive Deps, never DepsMut), writing requires `&mut dyn Storage`, the crate has no "
    "unsafe code and the default components have no interior mutability — hence no query of any kind at any call "
    "position can change chain state (rustc's borrow checker discharges the implication). A call-graph closure from "
    "all query entry points cross-checks that no reachable function takes a mutable store or calls a Storage writer. "
    "What a contract's querier reads is decided by provenance: the base of the contract's own cache (current "
    "transaction view); App's querier reads App.storage (committed state)."
    " (R5) Sub-messages run in a cache layer of their own (C02.R1 under C10's id), so a query from a reply that absorbs a failure does not see what the failed sub-message wrote."
)
EXPLANATION = LEVEL_TEXT
TRUSTED = ["rustc type and borrow checker (shared references cannot be used to write; no unsafe in the crate)",
           "cwmt-facts driver (signatures, ADT fields, MIR calls)", "vlib call-graph closure",
           "C01.R6/C19.R4: no interior mutability in default components", "cosmwasm-std Storage/Deps definitions"]
ASSUMPTIONS = ["user-supplied modules keeping their own interior state are out of scope (named exception: the recording "
               "CachingCustomHandler)", "user-supplied Storage types implement reads without side effects"]

# (trait path, method) whose storage parameter must be shared
TRAIT_QUERY_METHODS = [
    ("module::Module", "query"), ("wasm::Wasm", "query"), ("stargate::Stargate", "query_stargate"),
    ("stargate::Stargate", "query_grpc"), ("app::CosmosRouter", "query"), ("wasm::Wasm", "contract_data"),
    ("wasm::Wasm", "dump_wasm_raw"), ("wasm::Wasm", "contract_storage"),
]
INHERENT_QUERY_FNS = ["wasm::WasmKeeper::query_smart", "wasm::WasmKeeper::query_raw",
                      "app::Router::querier", "app::RouterQuerier::new",
                      "bank::BankKeeper::get_balance"]
WRITERS = {"set", "remove"}
STORE_WRITERS = {"save", "remove", "update", "clear", "push_back", "push_front", "pop_back", "pop_front"}


def check(ctx, cfg):
    r1(ctx, cfg)
    r1_closure(ctx, cfg)
    r3(ctx, cfg)
    r4(ctx, cfg)
    r5(ctx, cfg)
    r6(ctx, cfg)
    r7(ctx, cfg)
    r8(ctx, cfg)
    r9(ctx, cfg)
    r10(ctx, cfg)
    r11(ctx, cfg)


def r11(ctx, cfg):
    """"observes ... the funds it was just sent": the transfer of the attached funds happens, and has succeeded, before the entry
    point is called - in `execute_wasm` and in `process_wasm_msg_instantiate` alike (C05.R1/R2 under C10's id), and the query
    reaches the function the contract author supplied (C17.R13)"""
    from rules import C05, C17
    C05.r1_r2(ctx, cfg, R1="C10.R11", R2="C10.R11")
    C17.r13(ctx, cfg, R="C10.R11", only=("query",))


def r10(ctx, cfg):
    """"a query ... observes exactly the committed state": what the bank's queries answer is what the ledger holds - Balance the
    entry of the queried denomination (zero of it when absent), AllBalances the stored list as it is, Supply the sum of every
    coin of that denomination over all balances, each read through the bank's view of the store the query was given (the C09.R5
    obligations under C10's id: a Supply that looks only at some coins answers a state nobody committed)"""
    from rules import C09
    C09.r5(ctx, cfg, R="C10.R10")


def r9(ctx, cfg):
    """"a query issued through App observes exactly the committed state": the accessors that hand the application's parts to user
    code hand *these* parts - `read_module(f)` is `f(&self.router, &self.api, &self.storage)` and `init_modules(f)` the same
    mutably; neither a copy nor a fresh store"""
    F, P = cfg.facts, cfg.prov
    R = "C10.R9"
    for name, pname in (("read_module", "query_fn"), ("init_modules", "init_fn")):
        key = "app::App::" + name
        f = ctx.need_fn(R, key)
        if f is None:
            continue
        cs = [(b, t) for b, t in f.calls() if t["callee"]["name"] in ("call_once", "call", "call_mut") and t["callee"].get("trait", "").startswith("std::ops::Fn")]
        ok = len(cs) == 1
        if ok:
            a = P.call_args(f, cs[0][1], cs[0][0])
            tup = peel(a[1])
            def own(o, fld):
                o = peel(o)
                return o[0] == "field" and o[2] == fld and is_param(o[1], "self")
            ok = is_param(a[0], pname) and tup[0] == "agg" and len(tup[2]) == 3 and own(tup[2][0][1], "router") and own(tup[2][1][1], "api") and own(tup[2][2][1], "storage")
            rv = peel(P.ret(f))
            ok = ok and rv[0] == "call" and rv[1].startswith("std::ops::Fn")
        ctx.ob(R, key, "hands-out-the-application's-own-parts", ok, "%s does not answer %s(&self.router, &self.api, &self.storage)" % (name, pname), fn=f,
               sample="%s(router, api, storage)" % pname)


def r8(ctx, cfg):
    """"a query issued through App observes exactly the committed state" of the contract that was asked: a smart query runs the queried
    contract's code on the queried contract's storage window *with the queried contract's address in Env* (what its handler
    reads about itself - its balance, its info - is looked up under that address): the C05.R4 obligations on with_storage /
    query_smart under C10's id"""
    from rules import C05
    C05.r4(ctx, cfg, R="C10.R8")


def r7(ctx, cfg):
    """"a query ... observes the effects of everything that completed earlier in the same transaction": the reward a Delegation query
    reports includes what earlier operations of the same block have already credited to the entry - every answer of
    get_rewards_internal is the accrued amount plus the new share (C15.R2's obligation under C10's id; feature `staking`)"""
    if not cfg.has("staking"):
        return
    from rules import C15
    C15.shown_is_total(ctx, cfg, R="C10.R7")


def r6(ctx, cfg):
    """"a query issued by a contract while it executes observes the effects of everything that completed earlier": the one keeper
    write that is decided before a contract entry point runs and read back by that entry point's own queries - the new code id
    of a migration - is stored before call_migrate, on the same address and store (C12.R3's obligations under C10's id;
    instantiate's counterpart, register-before-call, is C11.R4 / C05)"""
    from rules import C12
    C12.r_migrate(ctx, cfg, R3="C10.R6", full=False)


def r5(ctx, cfg):
    """"... and nothing rolled back": a query issued from a `reply` that absorbs a failed sub-message must not see what that
    sub-message wrote before failing - so every sub-message runs in a cache layer of its own that is dropped with the failure
    (the C02.R1 obligations, under C10's id)"""
    from rules import C02
    C02.r1(ctx, cfg, R="C10.R5")


def r4(ctx, cfg):
    """premise shared with C06: "observes everything that completed earlier and nothing rolled back" needs the
    transaction view to answer reads from its own pending writes first: every set/remove is recorded in the overlay's
    read view (dual recording) and the point lookup consults it before the base"""
    from rules import C06
    C06.r2(ctx, cfg, R="C10.R4")
    C06.r4(ctx, cfg, R="C10.R4")
    # .. and range reads merge the pending writes of the same window with the base (same bounds, same order)
    C06.r5(ctx, cfg, R="C10.R4")
    C06.r6(ctx, cfg, R="C10.R4")


def _storage_inputs(inputs):
    return [(i, ty) for i, ty in enumerate(inputs) if q.is_storage_ty(ty)]


def r1(ctx, cfg):
    F = cfg.facts
    R = "C10.R1"
    n = 0
    for tr, m in TRAIT_QUERY_METHODS:
        t = F.traits.get(tr)
        if t is None:
            ctx.fail(R, tr, "anchor-missing", "trait %s not found" % tr)
            continue
        ms = [x for x in t["methods"] if x["name"] == m]
        if not ms:
            ctx.fail(R, tr + "::" + m, "anchor-missing", "trait method not found")
            continue
        si = _storage_inputs(ms[0]["inputs"])
        n += 1
        ctx.ob(R, tr + "::" + m, "storage-param-is-shared", len(si) == 1 and si[0][1].get("ref") == "shared",
               "%s::%s takes its store as %s" % (tr, m, [ty["s"] for i, ty in si]), sample=[ty["s"] for i, ty in si][0] if si else "-")
        # every local impl agrees (rustc enforces this; the fact is recorded per impl)
        for imp in F.impls:
            if imp.get("trait") == tr:
                for mm in imp["methods"]:
                    if mm["name"] == m:
                        sj = _storage_inputs(mm["inputs"])
                        ctx.ob(R, mm["key"], "impl-storage-param-is-shared", len(sj) == 1 and sj[0][1].get("ref") == "shared",
                               "impl %s takes its store as %s" % (mm["key"], [ty["s"] for i, ty in sj]), sample="&dyn Storage")
    for key in INHERENT_QUERY_FNS:
        if key.startswith("staking::") and not cfg.has("staking"):
            continue
        found = False
        for imp in F.impls:
            for mm in imp["methods"]:
                if mm["key"] == key:
                    found = True
                    sj = _storage_inputs(mm["inputs"])
                    n += 1
                    ctx.ob(R, key, "storage-param-is-shared", len(sj) == 1 and sj[0][1].get("ref") == "shared",
                           "%s takes its store as %s" % (key, [ty["s"] for i, ty in sj]), sample="&dyn Storage")
        if not found:
            ctx.fail(R, key, "anchor-missing", "function %s not found" % key)
    ctx.floor(R, "query signatures", n, 13)
    adt = F.adts.get("app::RouterQuerier")
    ok = False
    if adt:
        fl = {x["name"]: x for x in adt["variants"][0]["fields"]}
        ok = fl.get("storage", {}).get("ty", {}).get("ref") == "shared"
    ctx.ob(R, "app::RouterQuerier", "holds-shared-store", ok, "RouterQuerier.storage must be `&dyn Storage`", sample="&dyn Storage")
    # Querier::raw_query impls take &self
    for imp in F.impls:
        if imp.get("trait") == "cosmwasm_std::Querier":
            for mm in imp["methods"]:
                ctx.ob(R, mm["key"], "querier-takes-&self", mm["inputs"][0].get("ref") == "shared", "raw_query takes %s" % mm["inputs"][0]["s"],
                       sample="&self")
    # contracts are queried with Deps, never DepsMut
    t = F.traits.get("contracts::Contract")
    if t is None:
        ctx.fail(R, "contracts::Contract", "anchor-missing", "trait Contract not found")
    else:
        for x in t["methods"]:
            if x["name"] == "query":
                tys = [ty["s"] for ty in x["inputs"]]
                ok = any(s.startswith("cosmwasm_std::Deps<") for s in tys) and not any("DepsMut" in s for s in tys)
                ctx.ob(R, "contracts::Contract::query", "receives-Deps-not-DepsMut", ok, "Contract::query inputs: %s" % tys, sample="Deps<'_, Q>")
    adt = F.adts.get("contracts::ContractWrapper")
    ok = False
    d = "?"
    if adt:
        fl = {x["name"]: x for x in adt["variants"][0]["fields"]}
        d = fl.get("query_fn", {}).get("ty", {}).get("s", "?")
        ok = "cosmwasm_std::Deps<" in d and "DepsMut" not in d
    ctx.ob(R, "contracts::ContractWrapper", "query_fn-type-takes-Deps", ok, "ContractWrapper.query_fn: %s" % d, sample=d[:120])
    ctx.ob(R, "-", "no-unsafe", not F.unsafe, "unsafe code present: %s" % F.unsafe, sample="0 unsafe items/blocks")
    # Deps (read-only) is built from a shared store
    adt_ok = True
    ctx.ob(R, "-", "no-statics", not F.statics, "statics present", sample="0")
    # a query is handed `&self` and `&dyn Storage`: it cannot change anything *unless* a part of the application it can reach
    # is writable through a shared reference (a `RefCell` / `Cell` / `Mutex` cache in a keeper would also keep what a
    # rolled-back transaction wrote, outside the store that is rolled back)
    from vlib import crate_rules
    from rules import C19
    im = [(p, b) for p, b in crate_rules.interior_mut_types(F) if p not in C19.NO_INTERIOR_MUT_EXCEPTIONS]
    ctx.ob(R, "-", "nothing-writable-through-a-shared-reference", not im, "types with interior mutability: %s" % im[:4],
           sample="%d local ADTs; named exception: CachingCustomHandler (opt-in recorder)" % len(F.adts))


def _local_targets(F, c, impl_index):
    """local functions a call may reach (class-hierarchy resolution for unresolved trait calls)"""
    out = []
    r = c.get("resolved")
    if r and r in F.fns:
        return [r]
    k = c["key"]
    if k in F.fns and not c.get("trait"):
        return [k]
    if c.get("trait") and c["trait"] in F.traits:
        out = list(impl_index.get((c["trait"], c["name"]), []))
        if k in F.fns:
            out.append(k)  # provided body
    return out


def r1_closure(ctx, cfg):
    """call-graph closure from the query entry points: nothing reachable takes or produces a mutable store"""
    F, P = cfg.facts, cfg.prov
    R = "C10.R1"
    impl_index = {}
    for imp in F.impls:
        if "trait" in imp:
            for mm in imp["methods"]:
                impl_index.setdefault((imp["trait"], mm["name"]), []).append(mm["key"])
    entries = []
    for tr, m in TRAIT_QUERY_METHODS:
        entries += impl_index.get((tr, m), [])
        if tr + "::" + m in F.fns:
            entries.append(tr + "::" + m)
    entries += impl_index.get(("cosmwasm_std::Querier", "raw_query"), [])
    entries += [k for k in INHERENT_QUERY_FNS if k in F.fns]
    entries += ["app::App::read_module", "app::App::wrap", "app::App::contract_data", "app::App::dump_wasm_raw", "app::App::contract_storage",
                "app::App::prefixed_storage", "app::App::prefixed_multilevel_storage"]
    seen = set()
    stack = [e for e in entries if e in F.fns]
    sig = {}
    for imp in F.impls:
        for mm in imp["methods"]:
            sig[mm["key"]] = mm["inputs"]
    for tr in F.traits.values():
        for mm in tr["methods"]:
            sig.setdefault(tr["path"] + "::" + mm["name"], mm["inputs"])
    bad = []
    ncalls = 0
    while stack:
        k = stack.pop()
        if k in seen:
            continue
        seen.add(k)
        for g in F.lexical(k):
            seen.add(g.key)
            for bid, t in g.calls():
                c = t["callee"]
                ncalls += 1
                # a call that needs a mutable store, or a Storage writer, must not occur on a query path —
                # unless the store it writes is a local scratch value (not derived from any parameter)
                needs_mut = [i for i, ty in enumerate(c.get("inputs", [])) if q.is_storage_mut_ty(ty)]
                is_writer = c.get("trait") == "cosmwasm_std::Storage" and c["name"] in WRITERS
                if needs_mut or is_writer:
                    idxs = needs_mut or [0]
                    for i in idxs:
                        if i < len(t["args"]):
                            o = P.operand(g, t["args"][i], (bid, "t"))
                            from vlib.prov import leaves
                            lv = leaves(o)
                            if any(x[0] in ("param", "upvar", "cparam", "bound", "env") for x in lv):
                                bad.append("%s calls %s with a store derived from its inputs (line %d)" % (g.key, c["key"], t["line"]))
                for tgt in _local_targets(F, c, impl_index):
                    if tgt not in seen:
                        stack.append(tgt)
        ins = sig.get(k)
        if ins and any(q.is_storage_mut_ty(ty) for ty in ins):
            bad.append("%s is reachable from a query entry point and takes `&mut dyn Storage`" % k)
    ctx.count_sites(ncalls)
    ctx.ob(R, "-", "query-closure-has-no-mutable-store", not bad, "; ".join(bad[:5]),
           sample="%d functions reachable from %d query entry points, %d calls inspected" % (len(seen), len(entries), ncalls))
    ctx.ob(R, "-", "query-closure-size", len(seen) >= 40, "query closure unexpectedly small: %d" % len(seen), sample=str(len(seen)))


def r3(ctx, cfg):
    F, P = cfg.facts, cfg.prov
    R = "C10.R3"
    key = "wasm::WasmKeeper::with_storage"
    f = ctx.need_fn(R, key)
    if f is not None:
        # the RouterQuerier inside the DepsMut handed to the contract (literal, RouterQuerier::new or Router::querier)
        aggs0 = [(g, b, i, st) for g in F.lexical(key) for b, i, st in g.stmts()
                 if st["k"] == "assign" and st["rv"].get("k") == "aggregate" and st["rv"].get("adt") == "cosmwasm_std::DepsMut"]
        ok = len(aggs0) == 1
        d = "?"
        rqd = None
        if ok:
            g, b, i, st0 = aggs0[0]
            qo0 = peel(dict(P.rvalue(g, st0["rv"], (b, i))[2])["querier"])
            rqd = q.router_querier(qo0[2][0]) if qo0[0] == "call" and qo0[1] == "cosmwasm_std::QuerierWrapper::new" else None
            ok = rqd is not None
        if ok:
            st = peel(rqd["storage"])
            d = fmt(st)
            ok = st[0] == "bound" and st[1] == "base_ro" and is_param(st[2], "storage") and is_param(rqd["router"], "router") and \
                is_param(rqd["api"], "api") and is_param(rqd["block_info"], "block")
        ctx.ob(R, key, "contract-querier-reads-transaction-view", ok,
               "the querier handed to an executing contract reads %s, expected the base of the contract's own cache" % d, fn=f,
               sample="RouterQuerier::new(router, api, read_store = base of this call's cache, block)")
        # that querier is the one put into DepsMut
        aggs = [(g, b, i, st) for g in F.lexical(key) for b, i, st in g.stmts()
                if st["k"] == "assign" and st["rv"].get("k") == "aggregate" and st["rv"].get("adt") == "cosmwasm_std::DepsMut"]
        ok = len(aggs) == 1
        if ok:
            g, b, i, st = aggs[0]
            o = P.rvalue(g, st["rv"], (b, i))
            qo = peel(dict(o[2])["querier"])
            ok = qo[0] == "call" and qo[1] == "cosmwasm_std::QuerierWrapper::new" and q.router_querier(qo[2][0]) is not None
        ctx.ob(R, key, "DepsMut.querier-is-that-querier", ok, "DepsMut.querier is not the RouterQuerier built here", fn=f,
               sample="QuerierWrapper::new(&querier)")
    key = "wasm::WasmKeeper::query_smart"          # (with_storage_readonly is always spliced into it)
    f = ctx.need_fn(R, key)
    if f is not None:
        aggs = [(b, i, st) for b, i, st in f.stmts() if st["k"] == "assign" and st["rv"].get("k") == "aggregate" and st["rv"].get("adt") == "cosmwasm_std::Deps"]
        ok = len(aggs) == 1
        if ok:
            b, i, st = aggs[0]
            o = P.rvalue(f, st["rv"], (b, i))
            qo = peel(dict(o[2])["querier"])
            ok = qo[0] == "call" and qo[1] == "cosmwasm_std::QuerierWrapper::new" and is_param(qo[2][0], "querier")
        ctx.ob(R, key, "Deps.querier-is-callers-querier", ok, "Deps.querier is not the querier passed in", fn=f, sample="QuerierWrapper::new(querier)")
    key = "<app::Router as app::CosmosRouter>::query"
    f = ctx.need_fn(R, key)
    if f is not None:
        # every querier handed to a module by Router::query is over the router's own api / storage / block
        qd = []
        for b0, t0 in f.calls():
            for o0, ty0 in zip(P.call_args(f, t0, b0), t0["callee"].get("inputs", [])):
                if ty0["s"].endswith("dyn cosmwasm_std::Querier"):
                    qd.append(q.router_querier(o0))
        ok = bool(qd) and all(x is not None and is_param(x["router"], "self") and is_param(x["api"], "api") and is_param(x["storage"], "storage") and
                              is_param(x["block_info"], "block") for x in qd)
        ctx.ob(R, key, "nested-querier-over-same-store", ok, "Router::query builds its querier over a different store", fn=f,
               sample="self.querier(api, storage, block)")
    key = "app::Router::querier"
    f = ctx.need_fn(R, key)
    if f is not None:
        ret = peel(P.ret(f))
        ok = ret[0] == "agg" and ret[1].startswith("app::RouterQuerier")
        if ok:
            d = dict(ret[2])
            ok = is_param(d["router"], "self") and is_param(d["api"], "api") and is_param(d["storage"], "storage") and is_param(d["block_info"], "block_info")
        ctx.ob(R, key, "querier-fields-wired-straight", ok, "Router::querier builds %s" % fmt(ret)[:160], fn=f,
               sample="RouterQuerier{router: self, api, storage, block_info}")
    key = "app::RouterQuerier::new"
    f = ctx.need_fn(R, key)
    if f is not None:
        ret = peel(P.ret(f))
        ok = ret[0] == "agg"
        if ok:
            d = dict(ret[2])
            ok = all(is_param(d[n], n) for n in ("router", "api", "storage", "block_info"))
        ctx.ob(R, key, "fields-wired-straight", ok, "RouterQuerier::new builds %s" % fmt(ret)[:160], fn=f, sample="Self{router, api, storage, block_info}")
    key = "<app::RouterQuerier as cosmwasm_std::Querier>::raw_query"
    f = ctx.need_fn(R, key)
    if f is not None:
        qs = q.calls(f, ("app::CosmosRouter", "query"))
        ok = len(qs) == 1
        if ok:
            a = P.call_args(f, qs[0][1], qs[0][0])
            def sf(o, n):
                o = peel(o)
                return o[0] == "field" and o[2] == n and is_param(o[1], "self")
            ok = sf(a[0], "router") and sf(a[1], "api") and sf(a[2], "storage") and sf(a[3], "block_info") and \
                contains(a[4], lambda x: x[0] == "call" and x[1].endswith("from_json") and is_param(x[2][0], "bin_request"))
        ctx.ob(R, key, "round-trip-to-router.query", ok, "RouterQuerier::raw_query does not call router.query(self.api, self.storage, self.block_info, parsed request)",
               fn=f, sample="router.query(self.api, self.storage, self.block_info, from_json(bin_request)?)")
    key = "<app::App as cosmwasm_std::Querier>::raw_query"
    f = ctx.need_fn(R, key)
    if f is not None:
        qs = q.calls(f, "app::Router::querier")
        ok = len(qs) == 1
        if ok:
            a = P.call_args(f, qs[0][1], qs[0][0])
            def sf(o, n):
                o = peel(o)
                return o[0] == "field" and o[2] == n and is_param(o[1], "self")
            ok = sf(a[0], "router") and sf(a[1], "api") and sf(a[2], "storage") and sf(a[3], "block")
        ctx.ob(R, key, "App-queries-read-committed-state", ok, "App::raw_query does not query over App.storage", fn=f,
               sample="self.router.querier(&self.api, &self.storage, &self.block)")


def post(ctx, thorough):
    if not thorough:
        return {}
    from vlib import witness
    res = witness.run(["c10"])
    ctx.cur = None
    for name, ok, detail in res:
        ctx.ob("C10.R2", "witness", name, ok, detail, sample=detail[:160])
    return {"witnesses": [r[0] for r in res]}
