"""C03 — reply is invoked exactly when, and with exactly what, the sub-message dictates (DESIGN.md §5 C03)."""
from vlib import q
from vlib.cfg import cfg_of
from vlib.prov import peel, fmt, is_param, contains, alts, deep_peel
from rules import submsg
from rules.C01 import DENY_ADAPTERS

LEVEL = "other"
EXPLANATION = (
    "Static analysis of MIR facts: finite-domain path enumeration of execute_submsg over (outcome x reply_on) counts "
    "`reply` calls on every CFG path of each of the 8 cells; provenance of the two `Reply{..}` aggregates (id, payload, "
    "result built from the sub-message's own response/error); provenance of the replied contract, the sub-message "
    "sender and the address given to call_reply; ordering: reply happens inside execute_submsg, sub-messages are "
    "folded without reordering adapters, reply ends in process_response (depth-first)."
)
TRUSTED = ["rustc MIR construction", "cwmt-facts driver", "vlib (provenance, path enumeration, dominators)"]
ASSUMPTIONS = ["cosmwasm-std types Reply/SubMsgResult behave as plain data"]

KEY = submsg.KEY
EXPECT = {("Ok", "Always"): 1, ("Ok", "Success"): 1, ("Ok", "Error"): 0, ("Ok", "Never"): 0,
          ("Err", "Always"): 1, ("Err", "Error"): 1, ("Err", "Success"): 0, ("Err", "Never"): 0}


def check(ctx, cfg):
    r1(ctx, cfg)
    r2(ctx, cfg)
    r3(ctx, cfg)
    r4(ctx, cfg)
    r5(ctx, cfg)
    r6(ctx, cfg)
    r7(ctx, cfg)


def r7(ctx, cfg):
    """premise shared with C17: the reply reaches the contract's reply function - `ContractWrapper::reply` answers what the
    supplied `reply_fn` answers for the `Reply` it was given, for every id (C17.R13 under C03's id)"""
    from rules import C17
    C17.r13(ctx, cfg, R="C03.R7", only=("reply",))


def r6(ctx, cfg):
    """"it is invoked on the dispatching contract": the contract whose response is being processed is the one handed to
    process_response at all five dispatch sites (execute, instantiate, migrate, sudo, reply) - C05.R4's dispatch obligations
    under C03's id (R3 covers the way from process_response down to the reply call)"""
    from rules import C05
    C05.r4_dispatch(ctx, cfg, "C03.R6")


def r5(ctx, cfg):
    """premise shared with C17: the reply mode, id and payload that execute_submsg acts on are the ones the contract put
    into its sub-message - for contracts written against `Empty` the sub-message passes through customize_msg first, which
    must carry id, payload, gas_limit and reply_on over unchanged"""
    from rules import C17
    C17.submsg_fields(ctx, cfg, "C03.R5")


def r1(ctx, cfg):
    R = "C03.R1"
    a = submsg.analyse(cfg)
    if a is None:
        ctx.fail(R, KEY, "anchor-missing", "execute_submsg not found")
        return
    f = a["fn"]
    for p in a["problems"]:
        ctx.fail(R, KEY, "unrecognised-idiom", p, fn=f)
    for cell, want in sorted(EXPECT.items()):
        seqs = a["table"].get(cell, set())
        inst = "replies(%s,%s)=%d" % (cell[0], cell[1], want)
        if not seqs:
            ctx.fail(R, KEY, inst, "no path for this cell", fn=f)
            continue
        counts = sorted({submsg.count_replies(s) for s in seqs})
        loops = any("<loop>" in s for s in seqs)
        ctx.ob(R, KEY, inst, counts == [want] and not loops,
               "reply is called %s times on paths of this cell, expected exactly %d" % (counts, want), fn=f,
               sample="%d paths, reply count on each = %s" % (len(seqs), counts))


def _submsg_field(o, name):
    o = peel(o)
    return o[0] == "field" and o[2] == name and is_param(o[1], "msg")


def r2(ctx, cfg):
    F, P = cfg.facts, cfg.prov
    R = "C03.R2"
    f = ctx.need_fn(R, KEY)
    if f is None:
        return
    # the Reply values are read where they are used - at the `reply` call sites - so that it does not matter whether the
    # envelope is written out twice or built by a local constructor closure (`let make_reply = |result| Reply { id, .., result }`)
    aggs = []
    for bid, t in q.calls(f, submsg.REPLY):
        args = P.call_args(f, t, bid)
        rep = peel(args[6]) if len(args) > 6 else ("unknown", "")
        if rep[0] == "agg" and rep[1].startswith("cosmwasm_std::Reply"):
            aggs.append((bid, rep, {"line": t["line"]}))
    ctx.ob(R, KEY, "two-Reply-aggregates", len(aggs) == 2, "expected two Reply{..} values handed to reply (success and error side), found %d" % len(aggs),
           fn=f, sample="2")
    sides = set()
    for bid, o, st in aggs:
        fields = dict(o[2])
        ctx.ob(R, KEY, "Reply.id@%d" % len(sides), _submsg_field(fields.get("id", ("unknown", "")), "id"),
               "Reply.id is %s, expected the sub-message's id" % fmt(fields.get("id", ("unknown", ""))), fn=f, line=st["line"],
               sample=fmt(fields.get("id", ("unknown", ""))))
        ctx.ob(R, KEY, "Reply.payload@%d" % len(sides), _submsg_field(fields.get("payload", ("unknown", "")), "payload"),
               "Reply.payload is %s, expected the sub-message's payload" % fmt(fields.get("payload", ("unknown", ""))), fn=f,
               line=st["line"], sample=fmt(fields.get("payload", ("unknown", ""))))
        res = peel(fields.get("result", ("unknown", "")))
        if res[0] == "agg" and res[1].endswith("SubMsgResult::Ok"):
            sides.add("Ok")
            inner = peel(res[2][0][1])
            ok = inner[0] == "agg" and inner[1].startswith("cosmwasm_std::SubMsgResponse")
            ev = dt = ("unknown", "")
            if ok:
                d = dict(inner[2])
                raw_ev, raw_dt = d.get("events", ev), d.get("data", dt)
                ev, dt = peel(raw_ev), peel(raw_dt)
                # (`r.data.take()`: the value itself, moved out of the response - which gets the reply's data right after)
                if dt[0] == "call" and dt[1] == "std::option::Option::take" and len(dt[2]) == 1:
                    x = dt[2][0]
                    while x[0] in ("vp", "upd"):
                        if x[0] == "upd" and not all(p0 and p0[0] == "&mut" and v0[0] == "mutby" and v0[1] == "std::option::Option::take" for p0, v0 in x[2]):
                            break
                        x = x[1] if x[0] == "upd" else x[2]
                    raw_dt = x
                    dt = peel(x)
                # (as they are: nothing written to them, nothing filtered / sorted / truncated in place on the way)
                ok_ev = ev[0] == "field" and ev[2] == "events" and submsg._is_ok_outcome(ev[1]) and _no_updates(ev[1]) and not contains(raw_ev, lambda x: x[0] == "upd")
                ok_dt = dt[0] == "field" and dt[2] == "data" and submsg._is_ok_outcome(dt[1]) and _no_updates(dt[1]) and not contains(raw_dt, lambda x: x[0] == "upd")
                ok = ok_ev and ok_dt
            ctx.ob(R, KEY, "Reply.result-Ok-carries-submsg-events-and-data", ok,
                   "success Reply carries events=%s data=%s, expected the sub-message's own response" % (fmt(ev)[:120], fmt(dt)[:120]),
                   fn=f, line=st["line"], sample="events=%s data=%s" % (fmt(ev)[:80], fmt(dt)[:80]))
            # dominated by the Ok edge of the outcome
            conds = q.dominating_conditions(P, f, bid)
            dom = any(c[0] == "variant_in" and c[2] == ("Ok",) and submsg._is_outcome(c[1]) for e, c in conds)
            ctx.ob(R, KEY, "success-Reply-only-on-Ok", dom, "success Reply built outside the Ok branch", fn=f, line=st["line"],
                   sample="dominated by outcome==Ok")
        elif res[0] == "agg" and res[1].endswith("SubMsgResult::Err"):
            sides.add("Err")
            pay = res[2][0][1]
            ok = contains(pay, lambda x: x[0] == "err" and submsg._is_outcome(x[1])) and not contains(
                pay, lambda x: x[0] == "call" and x[1] == submsg.REPLY)
            ctx.ob(R, KEY, "Reply.result-Err-built-from-submsg-error", ok,
                   "error Reply is built from %s, expected the sub-message's error" % fmt(pay)[:160], fn=f, line=st["line"],
                   sample=fmt(pay)[:160])
            conds = q.dominating_conditions(P, f, bid)
            dom = any(c[0] == "variant_in" and c[2] == ("Err",) and submsg._is_outcome(c[1]) for e, c in conds)
            ctx.ob(R, KEY, "error-Reply-only-on-Err", dom, "error Reply built outside the Err branch", fn=f, line=st["line"],
                   sample="dominated by outcome==Err")
        else:
            ctx.fail(R, KEY, "Reply.result-shape", "Reply.result is %s" % fmt(res)[:160], fn=f, line=st["line"])
    ctx.ob(R, KEY, "both-sides-present", sides == {"Ok", "Err"}, "Reply aggregates cover %s" % sorted(sides), fn=f,
           sample="Ok and Err")
    # each reply call receives one of these aggregates
    for bid, t in q.calls(f, submsg.REPLY):
        args = P.call_args(f, t, bid)
        rep = peel(args[6]) if len(args) > 6 else ("unknown", "")
        ctx.ob(R, KEY, "reply-arg-is-Reply-aggregate@bb", rep[0] == "agg" and rep[1].startswith("cosmwasm_std::Reply"),
               "reply receives %s" % fmt(rep)[:120], fn=f, line=t["line"], sample="Reply{..} aggregate")


def _no_updates(o):
    """the value read is the sub-message's response before any later overwrite (site-sensitive origin has no update)"""
    o = peel(o)
    return o[0] != "upd"


def r3(ctx, cfg, R="C03.R3"):
    F, P = cfg.facts, cfg.prov
    f = ctx.need_fn(R, KEY)
    if f is None:
        return
    n = 0
    for bid, t in q.calls(f, submsg.REPLY):
        args = P.call_args(f, t, bid)
        c = args[5] if len(args) > 5 else ("unknown", "")
        n += 1
        ctx.ob(R, KEY, "reply-on-dispatching-contract", is_param(c, "contract"),
               "reply is invoked on %s, expected the dispatching contract" % fmt(c), fn=f, line=t["line"], sample=fmt(c))
    ctx.floor(R, "reply call sites", n, 2)
    for g, bid, t in q.lexical_calls(F, KEY, ("app::CosmosRouter", "execute")):
        args = P.call_args(g, t, bid)
        s = args[4] if len(args) > 4 else ("unknown", "")
        ctx.ob(R, KEY, "submsg-sender-is-dispatching-contract", is_param(s, "contract"),
               "sub-message sender is %s, expected the dispatching contract" % fmt(s), fn=g, line=t["line"], sample=fmt(s))
    # inside reply(): call_reply(address = contract), then process_response(contract)
    key = submsg.REPLY
    r = ctx.need_fn(R, key)
    if r is not None:
        cr = q.calls(r, "wasm::WasmKeeper::call_reply")
        ctx.ob(R, key, "one-call_reply", len(cr) == 1, "expected one call_reply, found %d" % len(cr), fn=r, sample="1")
        for bid, t in cr:
            args = P.call_args(r, t, bid)
            ctx.ob(R, key, "call_reply-address-is-contract", is_param(args[1], "contract"),
                   "call_reply address is %s" % fmt(args[1]), fn=r, line=t["line"], sample=fmt(args[1]))
            ctx.ob(R, key, "call_reply-gets-the-Reply", is_param(args[6], "reply"),
                   "call_reply receives %s" % fmt(args[6]), fn=r, line=t["line"], sample=fmt(args[6]))
        pr = q.calls(r, "wasm::WasmKeeper::process_response")
        for bid, t in pr:
            args = P.call_args(r, t, bid)
            ctx.ob(R, key, "reply-submessages-run-as-contract", is_param(args[5], "contract"),
                   "process_response contract is %s" % fmt(args[5]), fn=r, line=t["line"], sample=fmt(args[5]))
    # process_response passes its own contract to execute_submsg
    pk = "wasm::WasmKeeper::process_response"
    for g, bid, t in q.lexical_calls(F, pk, KEY):
        args = P.call_args(g, t, bid)
        ctx.ob(R, pk, "execute_submsg-contract-is-own-contract", is_param(args[5], "contract"),
               "execute_submsg contract is %s" % fmt(args[5]), fn=g, line=t["line"], sample=fmt(args[5]))


def r4(ctx, cfg):
    F, P = cfg.facts, cfg.prov
    R = "C03.R4"
    # reply() ends in process_response (depth-first: the reply's own sub-messages run before the next sibling)
    key = submsg.REPLY
    r = ctx.need_fn(R, key)
    if r is not None:
        ret = peel(P.ret(r))
        oks = [o for o in alts(ret) if o[0] == "call" and o[1] == "wasm::WasmKeeper::process_response"]
        others = [o for o in alts(ret) if not (o[0] == "call" and (o[1] == "wasm::WasmKeeper::process_response"
                                                                  or o[1].endswith("FromResidual::from_residual")))]
        ctx.ob(R, key, "reply-returns-process_response", bool(oks) and not others,
               "reply returns %s" % fmt(ret)[:200], fn=r, sample="process_response(..) | propagated error")
        # call_reply dominates build_app_response dominates process_response
        cfgr = cfg_of(r)
        cr = q.calls(r, "wasm::WasmKeeper::call_reply")
        pr = q.calls(r, "wasm::WasmKeeper::process_response")
        if cr and pr:
            ok = cfgr.dominates(cr[0][0], pr[0][0])
            ctx.ob(R, key, "handler-before-its-submessages", ok, "call_reply does not dominate process_response", fn=r,
                   sample="call_reply dominates process_response")
    # reply is called from inside execute_submsg only (so before the fold advances)
    callers = sorted({f.key for f, b, t in q.all_calls(F, submsg.REPLY)})
    ctx.ob(R, submsg.REPLY, "reply-called-only-from-execute_submsg", callers == [KEY], "reply is called from %s" % callers,
           sample=str(callers))
    callers = sorted({f.key.split("::{closure")[0] for f, b, t in q.all_calls(F, KEY)})
    ctx.ob(R, KEY, "execute_submsg-called-only-from-process_response", callers == ["wasm::WasmKeeper::process_response"],
           "execute_submsg is called from %s" % callers, sample=str(callers))
    # the fold consumes sub_messages (parameter) without a reordering adapter
    pk = "wasm::WasmKeeper::process_response"
    f = ctx.need_fn(R, pk)
    if f is None:
        return
    sub = q.lexical_calls(F, pk, KEY)
    for g, bid, t in sub:
        args = P.call_args(g, t, bid)
        m = peel(args[6]) if len(args) > 6 else ("unknown", "")
        ok = m[0] == "bound" and m[1] == "elem" and is_param(m[2], "sub_messages")
        if not ok:
            from vlib.prov import leaves
            lv = leaves(m)
            ok = any(x[0] == "param" and x[2] == "sub_messages" for x in lv) and all(
                x[2] == "sub_messages" for x in lv if x[0] == "param") and not any(x[0] == "const" for x in lv)
        ctx.ob(R, pk, "submsg-is-element-of-sub_messages", ok, "executed sub-message is %s" % fmt(m)[:120], fn=g,
               line=t["line"], sample=fmt(m)[:120])
    bad = []
    for h in F.lexical(pk):
        for b2, t2 in h.calls():
            c = t2["callee"]
            if c["name"] in DENY_ADAPTERS and not c["local"]:
                bad.append("%s (line %d)" % (c["key"], t2["line"]))
    ctx.ob(R, pk, "no-reordering-adapter", not bad, "order-changing adapter in process_response: %s" % bad, fn=f,
           sample="none")
