"""C09 — the bank ledger conserves coins and never overdraws: decided structural clauses (DESIGN.md §5 C09)."""
from vlib import q
from vlib.cfg import cfg_of
from vlib.prov import peel, fmt, is_param, contains, alts, deep_peel, same_origin, is_param_field, just

LEVEL = "other"
LEVEL_TEXT = (
    "Partial: decides which ledger operations are applied, to whom and in what order — debit (checked subtraction, "
    "error propagated) strictly before credit with the same amount in send; burn writes back load(from) - amount, mint "
    "writes back load(to) + amount, both after normalisation that drops zero coins and rejects an empty result; the "
    "same account is read and written; BALANCES is written only by set_balance; the three balance queries read the "
    "same map through the bank's read view; message dispatch table. NOT decided: exactness of NativeBalance/Uint128 "
    "arithmetic (repeated denominations, 128-bit range) which lives in cw-utils / cosmwasm-std."
)
EXPLANATION = LEVEL_TEXT
TRUSTED = ["rustc MIR construction", "cwmt-facts driver", "vlib (provenance, dominators)",
           "cw_utils::NativeBalance: `-` is checked (returns Err on overdraw), `+` adds per denomination",
           "cw-storage-plus Map"]
ASSUMPTIONS = ["arithmetic of NativeBalance/Uint128 is correct"]

B = "bank::BankKeeper::"
EXEC = "<bank::BankKeeper as module::Module>::execute"
QUERY = "<bank::BankKeeper as module::Module>::query"
SUDO = "<bank::BankKeeper as module::Module>::sudo"


def check(ctx, cfg):
    r1(ctx, cfg)
    r2_r4(ctx, cfg)
    r3(ctx, cfg)
    r5(ctx, cfg)
    r6(ctx, cfg)
    r7(ctx, cfg)
    r_overlay(ctx, cfg)
    r9(ctx, cfg)


def r9(ctx, cfg):
    """"an operation that carries no positive amount fails and changes nothing" on the path most transfers take: the funds
    attached to a wasm message reach the bank as they are - `WasmKeeper::send` forwards `BankMsg::Send { recipient, amount }`
    with its own `amount`, and skips the bank only for an empty list (C05.R2 under C09's id)"""
    from rules import C05
    C05.r2_send(ctx, cfg, R="C09.R9")


def r_overlay(ctx, cfg):
    """premise shared with C06 (the transaction overlay is faithful), under this property's id: debit and credit of one transfer, and every later message of the transaction, read the balances the earlier steps wrote"""
    from rules import C06
    C06.overlay_premise(ctx, cfg, "C09.R8")


def ledger_premise(ctx, cfg, R):
    """the obligations of C09 that other modules' money movements rest on, under another property's id: a `BankMsg::Send`
    reaches `send(sender, to, amount)` and a `BankSudo::Mint` reaches `mint`, a transfer is one debit and one credit of the
    same normalised amount, the debit fails on an overdraw before anything is stored, each step loads and stores the same
    account.  Whoever pays through the bank (funds attached to a contract call, a delegation, an unbonding payout, a
    reward) moves exactly the amount only if these hold."""
    r1(ctx, cfg, R=R)
    r2_r4(ctx, cfg, R=R)
    r3(ctx, cfg, R=R)
    r6(ctx, cfg, R=R)


def r7(ctx, cfg):
    """who may change the ledger"""
    F = cfg.facts
    R = "C09.R7"
    q.who_may_call(ctx, R, F, B + "set_balance", {B + "init_balance", B + "mint", B + "burn"}, "balances are written by init_balance, mint and burn only",
                   accept=lambda caller: caller == B + "send" and _send_steps(cfg))      # (the two steps written out in send itself: C09.R1)
    def module_arm(helper):
        # a further message arm of the bank module may use the helper when it does what the existing arms do: the amount is a
        # field of the message as it is, the account is the sender or a validated address of the message, the store is the
        # bank's view, and the helper's verdict is what the arm answers
        def acc(caller):
            if caller not in (EXEC, SUDO):
                return False
            P0 = cfg.prov
            ok0 = False
            for h, b, t in q.lexical_calls(F, caller, B + helper):
                a = P0.call_args(h, t, b)
                st, who, amt = peel(a[1]), a[2], a[3]
                good_store = st[0] == "call" and st[1] == "prefixed_storage::prefixed" and is_param(st[2][0], "storage") and peel(st[2][1]) == ("item", "bank::NAMESPACE_BANK")
                good_who = is_param(who, "sender") or (peel(who)[0] == "ok" and contains(peel(who)[1], lambda x: x[0] == "call" and x[1].endswith("Api::addr_validate") and
                                                                                          contains(x[2][1], lambda y: y[0] == "field" and is_param(peel(y[1])[1] if peel(y[1])[0] == "variant" else y[1], "msg"))))
                good_amt = just(amt, lambda y: y[0] == "field" and y[2] == "amount" and is_param(peel(y[1])[1] if peel(y[1])[0] == "variant" else y[1], "msg"))
                if not (good_store and good_who and good_amt and q.error_propagates(P0, h, b)):
                    return False
                ok0 = True
            return ok0
        return acc
    q.who_may_call(ctx, R, F, B + "mint", {B + "send", SUDO}, "coins are created only by a transfer's credit side or BankSudo::Mint", accept=module_arm("mint"))
    q.who_may_call(ctx, R, F, B + "burn", {B + "send", EXEC}, "coins are destroyed only by a transfer's debit side or BankMsg::Burn", accept=module_arm("burn"))
    def keeper_entry(caller):
        # a further public way to transfer is fine when it hands its own arguments to `send` as they are, on the bank's view
        # of the store it was given (or of a cache of it), and answers with send's verdict
        P0 = cfg.prov
        g0 = F.fn(caller)
        if g0 is None or not caller.startswith(B):
            return False
        ok0 = False
        for h, b, t in q.lexical_calls(F, caller, B + "send"):
            a = P0.call_args(h, t, b)
            st = peel(a[1])
            if not (st[0] == "call" and st[1] == "prefixed_storage::prefixed" and peel(st[2][1]) == ("item", "bank::NAMESPACE_BANK")):
                return False
            base = peel(st[2][0])
            if not (base[0] == "param" or (base[0] == "bound" and base[1] == "cache_of" and peel(base[2])[0] == "param")):
                return False
            if not all(just(x, lambda y: y[0] == "param" and y[2] != "self") for x in a[2:5]):
                return False
            if not (q.error_propagates(P0, h, b) or h.key != caller):
                return False
            ok0 = True
        return ok0
    q.who_may_call(ctx, R, F, B + "send", {EXEC}, "transfers are performed by BankMsg::Send only", accept=keeper_entry)


def _unwrap(o):
    while o[0] == "vp":
        o = o[2]
    return o


def _nb_of(o):
    """payload X of `NativeBalance(X)`"""
    o = peel(o)
    return o[2][0][1] if o[0] == "agg" and o[1].startswith("cw_utils::NativeBalance") and o[2] else None


def _loaded(o):
    """(store, account) when o is `get_balance(store, account)?`"""
    o = peel(o)
    if o[0] == "ok" and peel(o[1])[0] == "call" and peel(o[1])[1] == B + "get_balance":
        c = peel(o[1])
        return c[2][1], c[2][2], c
    return None


def _ledger_steps(cfg, f):
    """what `f` does to balances, in execution order, whatever it is composed of: calls of `burn` / `mint` (each a debit / credit of
    its arguments: C09.R2) or the same steps written out - `set_balance(store, A, (NativeBalance(get_balance(store, A)?) - amount)?)`,
    the subtraction taken for the whole amount or coin by coin over all of it, and `set_balance(store, A, NativeBalance(get_balance(store,
    A)?) + NativeBalance(amount))`. Each step: dict(kind, via, block, call, store, who, amount, load (the get_balance call origin or None), detail)"""
    F, P = cfg.facts, cfg.prov
    cf = cfg_of(f)
    steps = []
    for bid, t in f.calls():
        k = t["callee"]["key"]
        if k in (B + "burn", B + "mint"):
            a = P.call_args(f, t, bid)
            steps.append(dict(kind="debit" if k.endswith("burn") else "credit", via=k, block=bid, call=t, store=a[1], who=a[2], amount=a[3], load=None, detail=""))
        elif k == B + "set_balance":
            a = P.call_args(f, t, bid)
            st = dict(kind="other", via="inline", block=bid, call=t, store=a[1], who=a[2], amount=None, load=None, detail=fmt(a[3])[:160])
            val = peel(a[3])
            inner = peel(val[2][0]) if val[0] == "call" and val[1] == "cw_utils::NativeBalance::into_vec" and val[2] else None
            if inner is not None and inner[0] == "call" and inner[1] == "std::ops::Add::add" and (inner[3] or "").startswith("<cw_utils::NativeBalance as std::ops::Add<cw_utils::NativeBalance>"):
                l, r = _nb_of(inner[2][0]), _nb_of(inner[2][1])
                ld = _loaded(l) if l is not None else None
                if ld and r is not None:
                    st.update(kind="credit", amount=r, load=ld)
            elif inner is not None and inner[0] == "ok" and peel(inner[1])[0] == "call" and peel(inner[1])[1] == "std::ops::Sub::sub" and \
                    (peel(inner[1])[3] or "").startswith("<cw_utils::NativeBalance as std::ops::Sub<std::vec::Vec<cosmwasm_std::Coin>>"):
                c = peel(inner[1])
                l = _nb_of(c[2][0])
                ld = _loaded(l) if l is not None else None
                if ld and q.error_propagates(P, f, c[4][1]) if len(c) > 4 and c[4] else False:
                    st.update(kind="debit", amount=c[2][1], load=ld)
            elif inner is not None and inner[0] == "multi" and len(inner[1]) == 2:
                # coin by coin: `let mut b = NativeBalance(load); for c in amount { b = (b - c.clone())?; }`
                al = [peel(x) for x in inner[1]]
                init = [x for x in al if _nb_of(x) is not None]
                stepv = [x for x in al if x[0] == "ok" and peel(x[1])[0] == "call" and peel(x[1])[1] == "std::ops::Sub::sub"]
                if len(init) == 1 and len(stepv) == 1:
                    c = peel(stepv[0][1])
                    ld = _loaded(_nb_of(init[0]))
                    acc = peel(c[2][0])
                    e = peel(c[2][1])
                    whole = e[0] == "bound" and e[1] == "elem" and [lp for lp in q.loops_yielding(P, f, e)
                                                                        if set(q.chain_adapters(lp[1])) <= {"cloned", "copied", "iter", "into_iter"}]
                    if ld and (acc == init[0] or acc[0] == "cycle") and (c[3] or "").startswith("<cw_utils::NativeBalance as std::ops::Sub<cosmwasm_std::Coin>") and \
                            whole and len(q.loops_yielding(P, f, e)) == 1 and len(c) > 4 and c[4] and q.error_propagates(P, f, c[4][1]):
                        st.update(kind="debit", amount=e[2], load=ld)
            steps.append(st)
    rank = {id(x): sum(1 for y in steps if y is not x and cf.dominates(y["block"], x["block"])) for x in steps}
    steps.sort(key=lambda x: rank[id(x)])
    return steps


def _normalised(o, pname="amount"):
    """o is `normalize_amount(<param amount, possibly cloned>)?`"""
    o = peel(o)
    return o[0] == "ok" and peel(o[1])[0] == "call" and peel(o[1])[1] == B + "normalize_amount" and is_param(peel(o[1])[2][1], pname)



def _ok_of_call(o, key):
    o = peel(o)
    return o[0] == "ok" and peel(o[1])[0] == "call" and peel(o[1])[1] == key


def _send_steps(cfg, R=None, ctx=None):
    """send = debit(from, amount) then credit(to, amount): returns True when all obligations hold (reports them when ctx is given)"""
    F, P = cfg.facts, cfg.prov
    key = B + "send"
    f = F.fn(key)
    if f is None:
        return False
    cf = cfg_of(f)
    steps = _ledger_steps(cfg, f)
    res = []

    def ob(inst, ok, msg, sample, line=None):
        res.append(bool(ok))
        if ctx is not None:
            ctx.ob(R, key, inst, ok, msg, fn=f, line=line, sample=sample)
    kinds = [st["kind"] for st in steps]
    ob("one-burn-one-mint", kinds == ["debit", "credit"], "send must debit once and then credit once (found %s)" % kinds, "debit, credit")
    if kinds != ["debit", "credit"]:
        return False
    d, c = steps
    ob("debit-from-sender", is_param(d["who"], "from_address") and (d["load"] is None or is_param(d["load"][1], "from_address")), "debit hits %s" % fmt(d["who"]), fmt(d["who"]),
       line=d["call"]["line"])
    ob("credit-to-recipient", is_param(c["who"], "to_address") and (c["load"] is None or is_param(c["load"][1], "to_address")), "credit hits %s" % fmt(c["who"]), fmt(c["who"]),
       line=c["call"]["line"])

    def amount_ok(st):
        # a call of burn / mint normalises its argument itself; a step written out works on the normalised amount
        return is_param(st["amount"], "amount") if st["load"] is None else _normalised(st["amount"])
    ob("same-amount", amount_ok(d) and amount_ok(c), "debit %s vs credit %s" % (fmt(d["amount"])[:80], fmt(c["amount"])[:80]), "amount / amount")
    ob("same-store", is_param(d["store"], "bank_storage") and is_param(c["store"], "bank_storage") and
       all(st["load"] is None or is_param(st["load"][0], "bank_storage") for st in steps), "different stores", "bank_storage")
    conds = q.dominating_conditions(P, f, c["block"])
    ok = q.succeeded(conds, d["call"]["callee"]["key"]) and any(
        c1[0] == "variant_in" and c1[2] in (("Continue",), ("Ok",)) and peel(c1[1])[0] == "call" and peel(c1[1])[4] and peel(c1[1])[4][1] == d["block"] for e, c1 in conds)
    ob("credit-only-after-successful-debit", ok, "the credit is not dominated by the success edge of the debit", "credit dominated by Continue(debit)", line=c["call"]["line"])
    # the recipient's balance is read after the sender's was written (a transfer to oneself reads its own debited balance)
    ok = c["load"] is None or (len(c["load"][2]) > 4 and c["load"][2][4] and cf.dominates(d["block"], c["load"][2][4][1]) and c["load"][2][4][1] != d["block"])
    ob("credit-reads-the-balance-left-by-the-debit", ok, "the recipient's balance is loaded before the sender's debited balance is stored: a transfer to oneself "
       "would overwrite the debit", "get_balance(to) after set_balance(from)", line=c["call"]["line"])
    ret = peel(P.ret(f))
    rest = [o for o in alts(ret) if not (o[0] == "call" and o[1].endswith("FromResidual::from_residual"))]
    ok = len(rest) == 1 and rest[0][0] == "call" and rest[0][1] == c["call"]["callee"]["key"] and len(rest[0]) > 4 and rest[0][4] and rest[0][4][1] == c["block"]
    ob("credit-result-returned", ok, "send returns %s" % fmt(ret)[:120], "credit(..) | propagated debit error")
    return all(res)


def r1(ctx, cfg, R="C09.R1"):
    if ctx.need_fn(R, B + "send") is None:
        return
    _send_steps(cfg, R, ctx)


def r2_r4(ctx, cfg, R=None):
    F, P = cfg.facts, cfg.prov
    for name, addr, kind, sign in (("burn", "from_address", "debit", "-"), ("mint", "to_address", "credit", "+")):
        key = B + name
        f = ctx.need_fn((R or "C09.R2"), key)
        if f is None:
            continue
        norm = q.calls(f, B + "normalize_amount")
        steps = _ledger_steps(cfg, f)
        ok = len(norm) == 1 and len(steps) == 1 and steps[0]["via"] == "inline"
        ctx.ob((R or "C09.R2"), key, "shape", ok, "%s must normalise once and store one balance (found %d normalisations, steps %s)" % (name, len(norm), [st["kind"] for st in steps]), fn=f,
               sample="normalize, get_balance, set_balance")
        if not ok:
            continue
        (nb, nt), st = norm[0], steps[0]
        na = P.call_args(f, nt, nb)
        sb, stt = st["block"], st["call"]
        # R3: normalisation first, on the parameter, error propagated
        ctx.ob((R or "C09.R3"), key, "normalize(param amount)", is_param(na[1], "amount"), "normalize_amount receives %s" % fmt(na[1]), fn=f,
               line=nt["line"], sample="normalize_amount(amount)")
        conds = q.dominating_conditions(P, f, sb)
        ok = any(c[0] == "variant_in" and c[2] in (("Continue",), ("Ok",)) and peel(c[1])[0] == "call" and peel(c[1])[1] == B + "normalize_amount"
                 for e, c in conds)
        ctx.ob((R or "C09.R3"), key, "store-only-after-normalisation-succeeded", ok, "set_balance is not dominated by the success of normalize_amount", fn=f,
               line=stt["line"], sample="set_balance dominated by Continue(normalize_amount)")
        # R4: same account, same store
        ld = st["load"]
        ctx.ob((R or "C09.R4"), key, "load-and-store-same-account", ld is not None and is_param(ld[1], addr) and is_param(st["who"], addr),
               "%s loads %s and stores %s" % (name, fmt(ld[1]) if ld else "?", fmt(st["who"])), fn=f, sample="%s / %s" % (addr, addr))
        ctx.ob((R or "C09.R4"), key, "load-and-store-same-store", ld is not None and is_param(ld[0], "bank_storage") and is_param(st["store"], "bank_storage"),
               "%s uses different stores" % name, fn=f, sample="bank_storage")
        # R2: the balance written: load(addr) -/+ the normalised amount, by the cw-utils operator (checked subtraction, its error
        # propagated - taken for the whole amount or coin by coin over all of it)
        ok = st["kind"] == kind and _normalised(st["amount"])
        ctx.ob((R or "C09.R2"), key, "writes load(%s) %s amount" % (addr, sign), ok, "%s stores %s" % (name, st["detail"]), fn=f,
               line=stt["line"], sample=st["detail"][:160])
        if name == "burn":
            subs = [(b0, t0) for b0, t0 in f.calls() if t0["callee"].get("trait") == "std::ops::Sub"]
            ok = st["kind"] == "debit" and bool(subs) and all(q.error_propagates(P, f, b0) for b0, t0 in subs)
            ctx.ob((R or "C09.R2"), key, "overdraw-error-propagated", ok, "set_balance is reachable although the checked subtraction failed", fn=f,
                   line=stt["line"], sample="the error of `a - amount` leaves burn")
        ret = peel(P.ret(f))
        rest = [o for o in alts(ret) if not (o[0] == "call" and o[1].endswith("FromResidual::from_residual"))]
        ok = len(rest) == 1 and rest[0][0] == "call" and rest[0][1] == B + "set_balance"
        ctx.ob((R or "C09.R2"), key, "returns-store-result", ok, "%s returns %s" % (name, fmt(ret)[:120]), fn=f, sample="set_balance(..) | propagated errors")
    # BALANCES is written only by set_balance
    writers = []
    readers = []
    for f in F.user_fns():
        for bid, t in f.calls():
            c = t["callee"]
            if c["key"].startswith("cw_storage_plus::Map::") and t["args"]:
                a0 = peel(P.operand(f, t["args"][0], (bid, "t")))
                if a0 == ("item", "bank::BALANCES"):
                    if c["name"] in ("save", "remove", "update", "clear"):
                        writers.append(f.key)
                    else:
                        readers.append((f.key, c["name"]))
    ctx.ob((R or "C09.R4"), "bank::BALANCES", "single-writer", writers == [B + "set_balance"], "BALANCES is written by %s" % writers, sample=str(writers))
    key = B + "set_balance"
    f = ctx.need_fn((R or "C09.R4"), key)
    if f is not None:
        sv = q.calls(f, "cw_storage_plus::Map::save")
        ok = len(sv) == 1
        if ok:
            a = P.call_args(f, sv[0][1], sv[0][0])
            bal = peel(a[3])
            while bal[0] == "upd":
                bal = peel(bal[1])
            ok = is_param(a[1], "bank_storage") and is_param(a[2], "account") and bal[0] == "agg" and bal[1].startswith("cw_utils::NativeBalance") and \
                is_param(bal[2][0][1], "amount")
        ctx.ob((R or "C09.R4"), key, "saves(account -> amount)", ok, "set_balance does not save NativeBalance(amount) under account", fn=f,
               sample="BALANCES.save(bank_storage, account, &NativeBalance(amount))")
        # ... in normal form: zero coins dropped, denominations sorted and merged (the single-denomination query reads the first
        # entry of a denomination, AllBalances lists every entry, Supply adds all of them - they agree only on normalised lists)
        okn = len(sv) == 1 and contains(P.call_args(f, sv[0][1], sv[0][0])[3], lambda x: x[0] == "mutby" and x[1] == "cw_utils::NativeBalance::normalize")
        ctx.ob((R or "C09.R4"), key, "saved-balance-is-normalised", okn, "set_balance saves the coin list without NativeBalance::normalize()", fn=f,
               sample="balance.normalize() before BALANCES.save")
    key = B + "init_balance"
    f = ctx.need_fn((R or "C09.R4"), key)
    if f is not None:
        vals = [peel(v) for v in q.success_payloads(P, f)]
        ok = bool(vals)
        for v in vals:
            if not (v[0] == "call" and v[1] == B + "set_balance"):
                ok = False
                continue
            a = v[2]
            st = peel(a[1])
            ok = ok and st[0] == "call" and st[1] == "prefixed_storage::prefixed" and is_param(st[2][0], "storage") and peel(st[2][1]) == ("item", "bank::NAMESPACE_BANK") and \
                is_param(a[2], "account") and is_param(a[3], "amount")
        ctx.ob((R or "C09.R4"), key, "sets-the-given-balance-of-the-given-account", ok, "init_balance does not answer set_balance(bank view, account, amount)", fn=f,
               sample="set_balance(prefixed(storage, NAMESPACE_BANK), account, amount)")
    key = B + "get_balance"
    f = ctx.need_fn((R or "C09.R4"), key)
    if f is not None:
        ld = q.calls(f, "cw_storage_plus::Map::may_load")
        ok = len(ld) == 1
        if ok:
            a = P.call_args(f, ld[0][1], ld[0][0])
            ok = peel(a[0]) == ("item", "bank::BALANCES") and is_param(a[1], "bank_storage") and is_param(a[2], "addr")
        ctx.ob((R or "C09.R4"), key, "loads(addr)", ok, "get_balance does not load BALANCES[addr]", fn=f, sample="BALANCES.may_load(bank_storage, addr)")


def r3(ctx, cfg, R="C09.R3"):
    """normalize_amount keeps exactly the non-zero coins of its argument, in order, and succeeds only when something
    remains.  Form-agnostic (vlib/pipeline.py): `amount.into_iter().filter(|c| !c.amount.is_zero()).collect()` and
    `for c in amount { if !c.amount.is_zero() { v.push(c) } }` have the same contributions."""
    from vlib import pipeline
    F, P = cfg.facts, cfg.prov
    key = B + "normalize_amount"
    f = ctx.need_fn(R, key)
    if f is None:
        return
    n = 0
    seen_ok = False
    for bid, i, st in f.stmts():
        if st["k"] == "assign" and st["dst"]["l"] == 0 and not st["dst"]["p"]:
            raw = P.rvalue(f, st["rv"], (bid, i))
            o = peel(raw)
            conds = q.dominating_conditions(P, f, bid)
            if o[0] == "agg" and o[1].endswith("Result::Ok"):
                n += 1
                seen_ok = True
                pay = o[2][0][1]
                cs = pipeline.contents(P, F, f, pay)
                d = str(cs)[:200]
                one = len(cs) == 1 and cs[0].kind in ("all-of", "expr")
                ctx.ob(R, key, "filters-the-argument", one and is_param(cs[0].src, "amount") and cs[0].is_identity() and not cs[0].adapters,
                       "normalize_amount does not return (a selection of) the coins of its argument in order: %s" % d, fn=f, line=st["line"], sample=d)
                okp = one and len(cs[0].conds) == 1
                if okp:
                    pred, args, pol = cs[0].conds[0]
                    a0 = peel(args[0]) if args else ("?",)
                    okp = pred == "is_zero" and pol is False and a0[0] == "field" and a0[2] == "amount" and peel(a0[1])[0] == "bound" and peel(a0[1])[1] == "elem"
                ctx.ob(R, key, "keeps-exactly-non-zero-coins", okp, "the coins kept are selected by %s, expected exactly `!coin.amount.is_zero()`" % (cs[0].conds if one else d,), fn=f,
                       line=st["line"], sample="!coin.amount.is_zero()")
                # .. and only under the non-empty guard on that very vector
                ok = q.has_cond(conds, "is_empty", pol=False, arg_pred=lambda a: same_origin(a[0], pay) or same_origin(peel(a[0]), peel(pay)))
                ctx.ob(R, key, "Ok-only-when-something-remains", ok, "Ok(..) returned without the non-empty guard: %s" % fmt(o)[:100], fn=f,
                       line=st["line"], sample="Ok(res) under !res.is_empty()")
            elif (o[0] == "agg" and o[1].endswith("Result::Err")) or (o[0] == "call" and o[1].endswith("FromResidual::from_residual")):
                n += 1
                ctx.ob(R, key, "Err-when-nothing-remains", q.has_cond(conds, "is_empty", pol=True), "Err returned outside the empty case", fn=f,
                       line=st["line"], sample="Err under res.is_empty()")
    for bid, t in f.calls():
        if t["dst"]["l"] == 0 and not t["dst"]["p"]:
            n += 1
            conds = q.dominating_conditions(P, f, bid)
            ctx.ob(R, key, "Err-when-nothing-remains", q.has_cond(conds, "is_empty", pol=True) and t["callee"]["key"].endswith("FromResidual::from_residual"),
                   "a call result is returned outside the empty case", fn=f, line=t["line"], sample="Err under res.is_empty()")
    ctx.ob(R, key, "two-returns", n == 2 and seen_ok, "expected one Ok and one Err return, found %d" % n, fn=f, sample="2")


def r5(ctx, cfg, R="C09.R5"):
    F, P = cfg.facts, cfg.prov
    f = ctx.need_fn(R, QUERY)
    if f is None:
        return
    views = q.calls(f, "prefixed_storage::prefixed_read")
    ok = len(views) == 1
    if ok:
        a = P.call_args(f, views[0][1], views[0][0])
        ok = is_param(a[0], "storage") and peel(a[1]) == ("item", "bank::NAMESPACE_BANK")
    ctx.ob(R, QUERY, "bank-read-view", ok, "query does not read through prefixed_read(storage, NAMESPACE_BANK)", fn=f, sample="prefixed_read(storage, NAMESPACE_BANK)")
    arms = {"AllBalances": B + "get_balance", "Balance": B + "get_balance"}
    if cfg.has("cosmwasm_1_1"):
        arms["Supply"] = B + "get_supply"
    for bid, t in f.calls():
        k = t["callee"]["key"]
        if k not in (B + "get_balance", B + "get_supply"):
            continue
        conds = q.dominating_conditions(P, f, bid)
        arm = [c[2][0] for e, c in conds if c[0] == "variant_in" and len(c[2]) == 1 and is_param(c[1], "request")]
        a = P.call_args(f, t, bid)
        st_ok = peel(a[1])[0] == "call" and peel(a[1])[1] == "prefixed_storage::prefixed_read"
        if k == B + "get_balance":
            ad = peel(a[2])
            ok = st_ok and ad[0] == "ok" and contains(ad[1], lambda x: x[0] == "call" and x[1].endswith("Api::addr_validate") and
                                                      contains(x[2][1], lambda y: is_param_field(y, "request", "address")))
        else:
            ok = st_ok and just(a[2], lambda y: is_param_field(y, "request", "denom"))
        ctx.ob(R, QUERY, "%s-reads-ledger-of-queried-account" % (arm[0] if arm else "?"), ok and len(arm) == 1 and arms.get(arm[0]) == k,
               "query arm %s calls %s(%s)" % (arm, k, ", ".join(fmt(x)[:50] for x in a[1:])), fn=f, line=t["line"],
               sample="%s -> %s(bank view, validated address)" % (arm, k.rsplit("::", 1)[1]))
        arms.pop(arm[0] if arm else None, None)
    ctx.ob(R, QUERY, "all-balance-arms-present", not arms, "arms without ledger read: %s" % sorted(arms), fn=f, sample="all arms read BALANCES")
    # the single-denomination answer: the entry whose denom EQUALS the requested one, otherwise coin(0, denom)
    # (`.find(|c| c.denom == denom)` is rewritten into its loop by vlib/inline.py A9, so it and a hand-written
    # `for c in balance { if c.denom == denom { found = Some(c); break } }` are the same shape: the place where an element of
    # get_balance(..) is picked, and the conditions on that element under which it happens)
    # what is put into the BalanceResponse: an element of get_balance(..) picked under `elem.denom == request.denom`
    # (and nothing else about the element), or coin(0, denom)
    ab = [(b, t) for b, t in f.calls() if t["callee"]["key"].endswith("AllBalanceResponse::new")]
    okab = len(ab) == 1
    if okab:
        a0 = P.call_args(f, ab[0][1], ab[0][0])[0]
        okab = just(a0, lambda y: y[0] == "ok" and peel(y[1])[0] == "call" and peel(y[1])[1] == B + "get_balance")
    ctx.ob(R, QUERY, "AllBalances-answers-the-whole-ledger-entry", okab, "the AllBalances answer is not get_balance(..) as it is", fn=f, sample="AllBalanceResponse::new(get_balance(..)?)")
    picks = []
    zero_fallback = False
    for b1, t1 in f.calls():
        if t1["callee"]["key"].endswith("BalanceResponse::new") and t1["args"]:
            l1 = q.local_of_operand(t1["args"][0])
            for val, conds, site in (q.value_cases(P, f, l1) if l1 is not None else []):
                for v in alts(peel(val)):
                    v = peel(v)
                    if v[0] == "bound" and v[1] == "elem" and contains(v[2], lambda x: x[0] == "call" and x[1] == B + "get_balance"):
                        picks.append((v, conds, site))
                    elif v[0] == "call" and v[1] == "cosmwasm_std::coin" and peel(v[2][0]) == ("const", "int", 0) and contains(v[2][1], lambda y: is_param_field(y, "request", "denom")):
                        zero_fallback = True
    ok = len(picks) >= 1
    d = "%d places pick an element of the balance" % len(picks)
    for e0, conds, site in picks:
        ec = [c[1] for e, c in conds if c[0] == "bool" and not q.is_derived(c) and any(contains(x, lambda y: y[0] == "bound" and y[1] == "elem") for x in c[1][1])]
        # the conditions of `.filter(..)` adapters of the scan count as well
        for nb, src in q.loops_yielding(P, f, e0):
            ec += [c[1] for e, c in q.filter_conditions(P, F, src)]
        d = str([(p, [fmt(x)[:40] for x in a], pol) for p, a, pol in ec])
        ok1 = len(ec) == 1
        if ok1:
            pred, args, pol = ec[0]
            ok1 = pred == "eq" and pol is True and any(peel(x)[0] == "field" and peel(x)[2] == "denom" and same_origin(peel(x)[1], e0) for x in args) and \
                any(contains(x, lambda y: is_param_field(y, "request", "denom")) for x in args)
        # the scan runs over all entries, front to back
        lp = q.loops_yielding(P, f, e0)
        ok1 = ok1 and len(lp) == 1 and not [a0 for a0 in q.chain_adapters(lp[0][1]) if a0 != "filter"]
        ok = ok and ok1
    ok = ok and zero_fallback
    ctx.ob(R, QUERY, "Balance-selects-by-denom-equality", ok, "single-denomination balance is selected by %s" % d, fn=f, sample="find(|c| c.denom == denom)")
    dflt = q.lexical_calls(F, QUERY, "cosmwasm_std::coin")
    ok = False
    for g, b, t in dflt:
        a = P.call_args(g, t, b)
        if peel(a[0]) == ("const", "int", 0) and contains(a[1], lambda y: is_param_field(y, "request", "denom")):
            ok = True
    ctx.ob(R, QUERY, "absent-denom-reports-zero-of-that-denom", ok, "the fallback for an absent denomination is not coin(0, denom)", fn=f, sample="unwrap_or_else(|| coin(0, denom))")
    if cfg.has("cosmwasm_1_1"):
        key = B + "get_supply"
        g = ctx.need_fn(R, key)
        if g is not None:
            rg = q.calls(g, "cw_storage_plus::Map::range")
            ok = len(rg) == 1
            if ok:
                a = P.call_args(g, rg[0][1], rg[0][0])
                ok = peel(a[0]) == ("item", "bank::BALANCES") and is_param(a[1], "bank_storage") and \
                    all(peel(x)[0] == "agg" and peel(x)[1].endswith("Option::None") for x in a[2:4])
            ctx.ob(R, key, "supply-folds-all-balances", ok, "get_supply does not range over all of BALANCES", fn=g,
                   sample="BALANCES.range(bank_storage, None, None, ..)")
            # what is summed: the amount of a held coin is added only where that coin's denomination has been compared equal
            # with the queried one (an `if`, a `continue` on `!=`, a `.filter(..)` on the scan - one normal form), and the
            # answer carries the queried denomination.  A summation without a recognisable "add elem.amount" site is a
            # different spelling: NOT DECIDED (recorded, not reported)
            sites = []
            for b, t in g.calls():
                if t["callee"]["local"]:
                    continue
                for x in P.call_args(g, t, b):
                    px = peel(x)
                    if px[0] == "field" and px[2] == "amount" and peel(px[1])[0] == "bound" and peel(px[1])[1] == "elem":
                        sites.append((b, t, peel(px[1])))
            bad = []
            for b, t, e0 in sites:
                ec = [c[1] for e, c in q.dominating_conditions(P, g, b) if c[0] == "bool" and not q.is_derived(c) and
                      any(contains(x, lambda y: y[0] == "bound" and y[1] == "elem" and same_origin(y, e0)) for x in c[1][1])]
                for nb, src in q.loops_yielding(P, g, e0):
                    ec += [c[1] for e, c in q.filter_conditions(P, F, src)]
                good = [1 for pred, args, pol in ec if pred == "eq" and pol is True and
                        any(peel(x)[0] == "field" and peel(x)[2] == "denom" and same_origin(peel(x)[1], e0) for x in args) and
                        any(contains(x, lambda y: is_param(y, "denom")) for x in args)]
                if not good or len(ec) != len(good):
                    bad.append("%s at line %s under %s" % (t["callee"]["name"], t["line"], [(p0, pol) for p0, a0, pol in ec]))
            # the same sum as an iterator chain: `<all coins of all balances>.filter(|c| c.denom == denom).map(|c| c.amount).sum()`
            chain_ok = None
            sums = [(b0, t0) for b0, t0 in g.calls() if t0["callee"]["key"] in ("std::iter::Iterator::sum", "std::iter::Sum::sum")]
            if not sites and len(sums) == 1:
                o = peel(P.call_args(g, sums[0][1], sums[0][0])[0])
                filters, maps, other = [], [], []
                while o[0] == "call" and o[1].startswith(("std::iter::Iterator::", "std::iter::IntoIterator::", "std::iter::DoubleEndedIterator::")) and o[2]:
                    nm = o[1].rsplit("::", 1)[-1]
                    cl = peel(o[2][1]) if len(o[2]) > 1 else None
                    h = F.fn(cl[1]) if cl is not None and cl[0] == "closure" else None
                    if nm == "filter":
                        filters.append(h)
                    elif nm == "map":
                        maps.append(h)
                    elif nm in ("flat_map", "flatten", "into_iter", "iter", "copied", "cloned"):
                        pass
                    else:
                        other.append(nm)
                    o = peel(o[2][0])
                def of_elem(x):
                    return contains(x, lambda y: y[0] in ("bound", "cparam"))
                okf = len(filters) == 1 and filters[0] is not None
                if okf:
                    pred, args0, pol = q.norm_cond(P.ret(filters[0]), True)
                    okf = pred == "eq" and pol is True and len(args0) == 2 and \
                        any(peel(x)[0] == "field" and peel(x)[2] == "denom" and of_elem(peel(x)[1]) for x in args0) and \
                        any(contains(x, lambda y: (y[0] in ("param", "upvar") and y[-1] == "denom") or is_param(y, "denom")) and not of_elem(x) for x in args0)
                okm = len(maps) == 1 and maps[0] is not None
                if okm:
                    mv = peel(P.ret(maps[0]))
                    okm = mv[0] == "field" and mv[2] == "amount" and of_elem(mv[1])
                chain_ok = okf and okm and not other
                if not chain_ok:
                    bad.append("the summed chain is not `.filter(|c| c.denom == denom).map(|c| c.amount)` over all coins (filters %d, maps %d, other adapters %s)" % (len(filters), len(maps), other))
            # every coin of every balance counts: nothing in get_supply may pick single coins out (`binary_search`, `find`, `first`, ..)
            picks = sorted({t0["callee"]["name"] for g0 in F.lexical(key) for b0, t0 in g0.calls() if not t0["callee"]["local"] and t0["callee"]["name"] in (
                "binary_search", "binary_search_by", "binary_search_by_key", "find", "find_map", "position", "rposition", "nth", "first", "last", "min", "max", "min_by", "max_by",
                "min_by_key", "max_by_key", "take", "skip", "step_by", "take_while", "skip_while", "get", "partition_point", "pop", "swap_remove", "truncate", "dedup")})
            if picks:
                bad.append("coins are picked out with %s instead of all being looked at" % picks)
            if not sites and chain_ok is None:
                # the scan with its denomination test is there, but nothing is added under it
                scan = any(c[0] == "bool" and c[1][0] == "eq" and any(peel(x)[0] == "field" and peel(x)[2] == "denom" and peel(peel(x)[1])[0] == "bound" for x in c[1][1]) and
                           any(contains(x, lambda y: is_param(y, "denom")) for x in c[1][1])
                           for g0 in F.lexical(key) for b0 in g0.order for e0, c in q.dominating_conditions(P, g0, b0))
                if scan:
                    bad.append("the scan tests coin.denom == denom but adds no coin.amount")
            ctx.ob(R, key, "supply-adds-only-coins-of-the-queried-denomination", not bad,
                   "an amount is added to the supply without (only) `coin.denom == denom` having held: %s" % bad, fn=g,
                   sample="%d add site(s) guarded by coin.denom == denom" % len(sites) if sites else
                   "the summed chain filters on coin.denom == denom and maps to coin.amount" if chain_ok else
                   "NOT DECIDED: no `add(.., coin.amount)` site recognised in get_supply")
            # only additions, and the answer is made from what was added (a summation whose add is gone answers zero)
            arith = [(t0["callee"]["name"], t0["line"]) for g0 in F.lexical(key) for b0, t0 in g0.calls()
                     if t0["callee"]["name"] in ("sub", "sub_assign", "checked_sub", "saturating_sub", "mul", "mul_assign", "div", "checked_mul", "mul_floor")]
            ctx.ob(R, key, "supply-is-a-sum", not arith, "get_supply applies %s" % arith, fn=g, sample="add / add_assign / sum only")
            if sites:
                res0 = [v for site, v in q.success_return_sites(P, g)]
                fed = bool(res0) and all(contains(v, lambda y: y[0] == "mutby" and y[1].rsplit("::", 1)[-1] in ("add_assign", "add", "checked_add") or
                                                  y[0] == "call" and y[1].rsplit("::", 1)[-1] in ("sum", "add", "checked_add") and
                                                  contains(y, lambda z: z[0] == "field" and z[2] == "amount")) for v in res0)
                ctx.ob(R, key, "supply-answer-is-the-sum", fed, "the amount get_supply answers is not made from the amounts it adds", fn=g, sample="coin(sum of coin.amount, denom)")
            if sites:
                res = [peel(v) for site, v in q.success_return_sites(P, g)]
                ok = bool(res) and all(contains(v, lambda y: y[0] == "call" and y[1] == "cosmwasm_std::coin" and is_param(y[2][1], "denom")) for v in res)
                ctx.ob(R, key, "supply-reported-in-the-queried-denomination", ok, "get_supply answers %s" % [fmt(v)[:80] for v in res], fn=g,
                       sample="Ok(coin(supply, denom))")


def r6(ctx, cfg, R="C09.R6"):
    F, P = cfg.facts, cfg.prov
    f = ctx.need_fn(R, EXEC)
    if f is not None:
        view = q.calls(f, "prefixed_storage::prefixed")
        okv = len(view) == 1 and is_param(P.call_args(f, view[0][1], view[0][0])[0], "storage") and \
            peel(P.call_args(f, view[0][1], view[0][0])[1]) == ("item", "bank::NAMESPACE_BANK")
        ctx.ob(R, EXEC, "bank-write-view", okv, "execute does not write through prefixed(storage, NAMESPACE_BANK)", fn=f, sample="prefixed(storage, NAMESPACE_BANK)")
        table = {"Send": (B + "send", None), "Burn": (B + "burn", None)}
        seen = set()
        for bid, t in f.calls():
            k = t["callee"]["key"]
            if k not in (B + "send", B + "burn", B + "mint"):
                continue
            conds = q.dominating_conditions(P, f, bid)
            arm = [c[2][0] for e, c in conds if c[0] == "variant_in" and len(c[2]) == 1 and is_param(c[1], "msg")]
            a = P.call_args(f, t, bid)
            st_ok = peel(a[1])[0] == "call" and peel(a[1])[1] == "prefixed_storage::prefixed"
            if k == B + "send":
                ok = arm == ["Send"] and is_param(a[2], "sender") and just(a[3], lambda y: is_param_field(y, "msg", "to_address")) and \
                    is_param_field(a[4], "msg", "amount")
                want = "Send -> send(sender, to_address, amount)"
            elif k == B + "burn":
                ok = arm == ["Burn"] and is_param(a[2], "sender") and is_param_field(a[3], "msg", "amount")
                want = "Burn -> burn(sender, amount)"
            else:
                ok = False
                want = "no mint from execute"
            seen.update(arm)
            ctx.ob(R, EXEC, "dispatch:%s" % (arm[0] if arm else k), ok and st_ok, "arm %s performs %s(%s); expected %s" % (
                arm, k, ", ".join(fmt(x)[:40] for x in a[1:]), want), fn=f, line=t["line"], sample=want)
            # errors propagate
            after = q.dominating_conditions(P, f, bid)
        ctx.ob(R, EXEC, "both-arms-present", seen == {"Send", "Burn"}, "arms dispatching ledger operations: %s" % sorted(seen), fn=f, sample="Send, Burn")
        # Ok responses only after the ledger operation succeeded
        for bid, i, st in f.stmts():
            if st["k"] == "assign" and st["dst"]["l"] == 0 and not st["dst"]["p"]:
                o = peel(P.rvalue(f, st["rv"], (bid, i)))
                if o[0] == "agg" and o[1].endswith("Result::Ok"):
                    conds = q.dominating_conditions(P, f, bid)
                    ok = any(c[0] == "variant_in" and c[2] in (("Continue",), ("Ok",)) and peel(c[1])[0] == "call" and peel(c[1])[1] in (B + "send", B + "burn")
                             for e, c in conds)
                    ctx.ob(R, EXEC, "Ok-only-after-ledger-success@%s" % ("Send" if any(c[0] == "variant_in" and c[2] == ("Send",) for e, c in conds) else "Burn"),
                           ok, "Ok(..) returned without a successful ledger operation", fn=f, line=st["line"], sample="dominated by Continue(send|burn)")
    f = ctx.need_fn(R, SUDO)
    if f is not None:
        ms = q.calls(f, B + "mint")
        ok = len(ms) == 1
        if ok:
            bid, t = ms[0]
            a = P.call_args(f, t, bid)
            ad = peel(a[2])
            ok = peel(a[1])[0] == "call" and peel(a[1])[1] == "prefixed_storage::prefixed" and ad[0] == "ok" and \
                contains(ad[1], lambda x: x[0] == "call" and x[1].endswith("Api::addr_validate") and contains(x[2][1], lambda y: is_param_field(y, "msg", "to_address"))) and \
                is_param_field(a[3], "msg", "amount")
        ctx.ob(R, SUDO, "dispatch:Mint", ok, "BankSudo::Mint does not perform mint(validated to_address, amount)", fn=f,
               sample="Mint -> mint(addr_validate(to_address)?, amount)")
