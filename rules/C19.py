"""C19 — the simulator is deterministic and instances do not interfere (DESIGN.md §5 C19)."""
from vlib import q, crate_rules
from vlib.prov import peel, fmt, is_param, contains, alts, leaves, is_param_field

LEVEL = "proof"
LEVEL_TEXT = (
    "Proof relative to the stated trusted base: the crate has no statics, thread-locals or unsafe code; no local body "
    "(including derive-generated ones) calls a time, randomness, environment, process, thread, filesystem, network or "
    "allocator-address API, casts a pointer to an integer or formats one; no local or field type mentions HashMap / "
    "HashSet / RandomState (iteration order would be per-process random); default components have no interior "
    "mutability, so two App values share nothing and `&self` methods keep no hidden counters; generated code ids, "
    "checksums and contract addresses derive only from explicit state. Hence every run is a function of the sequence of "
    "calls. Each zero-count rule fires on a positive fixture analysed by the same driver on every run."
)
EXPLANATION = LEVEL_TEXT
TRUSTED = ["rustc (name resolution, types, MIR)", "cwmt-facts driver", "the effect deny-list (vlib/crate_rules.py) is complete for the std APIs that read process state",
           "dependencies (cosmwasm-std, cw-storage-plus, sha2, bech32, prost, serde) are deterministic"]
ASSUMPTIONS = ["anyhow's and StdError's `{:?}` output includes a backtrace when RUST_BACKTRACE is set (environment read outside this crate); C19.R6 forbids formatting them that way on returning paths; their Display output is environment-independent",
               "user-supplied components are deterministic"]

NO_INTERIOR_MUT_EXCEPTIONS = {"custom_handler::CachingCustomHandler", "custom_handler::CachingCustomHandlerState"}


def check(ctx, cfg):
    F, P = cfg.facts, cfg.prov
    # R1
    ctx.ob("C19.R1", "-", "no-statics", not F.statics, "statics: %s" % [s["path"] for s in F.statics], sample="0 statics (incl. thread_local!, lazy_static)")
    ctx.ob("C19.R1", "-", "no-unsafe", not F.unsafe, "unsafe: %s" % F.unsafe[:3], sample="0 unsafe blocks/fns/impls")
    # R2
    eff = crate_rules.denied_effects(F)
    ctx.count_sites(F.n_calls())
    for f, line, what in eff:
        ctx.fail("C19.R2", f.key, "effect:" + what, "%s in %s (line %d): behaviour would depend on the process environment" % (what, f.key, line), fn=f, line=line)
    ctx.ob("C19.R2", "-", "no-environment-dependent-effects", not eff, "%d denied effects" % len(eff),
           sample="%d bodies / %d calls scanned against %d denied API prefixes, pointer casts and {:p}" % (len(F.fns), F.n_calls(), len(crate_rules.DENY_PREFIXES)))
    # R3
    ht = crate_rules.hash_types(F)
    for where, what in ht:
        ctx.fail("C19.R3", where, "hash-container", "%s: %s (iteration order is per-process random)" % (where, what))
    ctx.ob("C19.R3", "-", "no-hash-containers", not ht, "%d hash-container types" % len(ht), sample="%d ADTs and the locals of %d bodies scanned" % (len(F.adts), len(F.fns)))
    # R4
    im = [(p, b) for p, b in crate_rules.interior_mut_types(F) if p not in NO_INTERIOR_MUT_EXCEPTIONS]
    for p, b in im:
        ctx.fail("C19.R4", p, "interior-mutability", "type %s has interior mutability in %s" % (p, b))
    ctx.ob("C19.R4", "-", "no-shared-hidden-state", not im, "%d types with interior mutability" % len(im),
           sample="%d local ADTs; named exception: CachingCustomHandler (opt-in recorder)" % len(F.adts))
    # R5
    r5(ctx, cfg)
    # R6
    de = crate_rules.debug_formatted_errors(F)
    for f, line, ty in de:
        ctx.fail("C19.R6", f.key, "debug-formatted-error:" + ty, "%s formats a %s with {:?} (line %d) on a returning path: the text embeds a stack backtrace whenever "
                 "RUST_BACKTRACE is set, so results would depend on the process environment and the call stack" % (f.key, ty, line), fn=f, line=line)
    nd = sum(1 for f in F.fns.values() for b, t in f.calls() if t["callee"]["key"].endswith("Argument::new_debug"))
    ctx.floor("C19.R6", "debug-format-sites", nd, 15)
    ctx.ob("C19.R6", "-", "no-backtrace-bearing-value-is-debug-formatted", not de, "%d sites" % len(de),
           sample="%d `{:?}` sites scanned; backtrace-bearing types: anyhow::Error, StdError and %d local ADTs containing them" % (nd, len(crate_rules.backtrace_adts(F))))


def _param_names(o):
    return {x[2] for x in leaves(o) if x[0] == "param"}


def r5(ctx, cfg):
    F, P = cfg.facts, cfg.prov
    R = "C19.R5"
    key = "wasm::WasmKeeper::next_code_id"
    f = ctx.need_fn(R, key)
    if f is not None:
        ret = P.ret(f)
        ok = _param_names(ret) == {"self"} and contains(ret, lambda x: x[0] == "field" and x[2] == "code_data") and \
            not contains(ret, lambda x: x[0] == "field" and x[2] not in ("code_data", "0", "1") and is_param(x[1], "self"))
        ctx.ob(R, key, "next-id-depends-only-on-stored-codes", ok, "next_code_id depends on %s" % fmt(ret)[:120], fn=f, sample="self.code_data only")
    key = "<checksums::SimpleChecksumGenerator as checksums::ChecksumGenerator>::checksum"
    f = ctx.need_fn(R, key)
    if f is not None:
        ret = P.ret(f)
        ctx.ob(R, key, "checksum-depends-only-on-code_id", _param_names(ret) == {"code_id"}, "checksum depends on %s" % sorted(_param_names(ret)), fn=f,
               sample="code_id only")
    key = "addresses::AddressGenerator::contract_address"      # (instantiate_address spliced in: vlib/inline.py ALWAYS_INLINE)
    f = ctx.need_fn(R, key)
    if f is not None:
        ret = P.ret(f)
        # the hashed key is built by &mut pushes: follow the builder local
        names = set(_param_names(ret)) - {"api"}
        ctx.ob(R, key, "classic-address-depends-only-on(code_id, instance_id)", names == {"code_id", "instance_id"}, "the classic address depends on %s" % sorted(names), fn=f,
               sample="code_id, instance_id")
    key = "wasm::WasmKeeper::save_code"
    f = ctx.need_fn(R, key)
    if f is not None:
        for bid, t in q.calls(f, ("checksums::ChecksumGenerator", "checksum")):
            a = P.call_args(f, t, bid)
            ctx.ob(R, key, "generated-checksum-from(creator, code_id)", is_param(a[1], "creator") and is_param(a[2], "code_id"),
                   "checksum generator called with (%s, %s)" % (fmt(a[1]), fmt(a[2])), fn=f, line=t["line"], sample="checksum(&creator, code_id)")
    # App::store_code uses a fixed creator (no ambient input)
    key = "app::App::store_code"
    f = ctx.need_fn(R, key)
    if f is not None:
        cs = q.calls(f, ("wasm::Wasm", "store_code"))
        fw = q.calls(f, "app::App::store_code_with_creator")
        ok = len(cs) + len(fw) == 1
        if ok and cs:
            a = P.call_args(f, cs[0][1], cs[0][0])
            ok = _param_names(a[1]) == set() and contains(a[1], lambda x: x[0] == "const" and x[2] == "creator") and is_param(a[2], "code")
        elif ok:
            # forwarded through the sibling entry point, which hands (creator, code) on unchanged
            a = P.call_args(f, fw[0][1], fw[0][0])
            ok = _param_names(a[1]) == set() and contains(a[1], lambda x: x[0] == "const" and x[2] == "creator") and is_param(a[2], "code")
            g = F.fn("app::App::store_code_with_creator")
            gs = q.calls(g, ("wasm::Wasm", "store_code")) if g is not None else []
            ok = ok and len(gs) == 1
            if ok:
                ga = P.call_args(g, gs[0][1], gs[0][0])
                ok = is_param(ga[1], "creator") and is_param(ga[2], "code")
        ctx.ob(R, key, "default-creator-is-a-constant", ok, "App::store_code creator is not the constant `creator` address", fn=f, sample='addr_make("creator")')


def post(ctx, thorough):
    ctx.cur = None
    res = crate_rules.selftest()
    for name, (fired, detail) in res.items():
        ctx.ob("C19.FIX", "fixtures/rules-selftest", "fixture:" + name, fired, "rule does not fire on its positive fixture: " + detail, sample="fires: " + detail[:120])
    return {"fixture_rules": len(res)}
