"""C16 — slashing scales the slashed validator's stake and nothing else: decided structural clauses (DESIGN.md §5 C16)."""
from vlib import q
from vlib.cfg import cfg_of
from vlib.prov import peel, fmt, is_param, contains, alts, leaves, is_param_field, same_origin, deep_peel, just
from rules.C14 import store_calls, staker_set_calls, STAKES, VINFO, QUEUE, SK, _succ_dom, _arm, vinfo_source

LEVEL = "other"
LEVEL_TEXT = (
    "Partial (feature `staking`): decides that (R1) slash is reachable only after validate_percentage succeeded, which "
    "accepts exactly percentage <= 1, and that an unknown validator fails before any write; (R2) the validator total, "
    "every staker's stake and every pending unbonding of that validator are multiplied by the one factor "
    "`Decimal::one() - percentage`, integer quantities through mul_floor (rounding down, never up); (R3) every key "
    "written has the slashed validator as its validator component, queue entries are filtered by `ub.validator == "
    "validator`, the staker closure writes `stake` only (accrued rewards untouched) and no bank call is reachable from "
    "slash; (R4) when the slashed total is zero every staker's entry is removed and the staker set cleared. NOT "
    "decided: exactness of the (1-p) scaling and rounding of each amount."
    " Every non-Err result of the Slash arm is dominated by the percentage guard and a successful slash; of slash by a successful update_rewards (unknown validator)."
)
EXPLANATION = LEVEL_TEXT
TRUSTED = ["rustc MIR construction", "cwmt-facts driver", "vlib (dominators, provenance, call graph)", "cosmwasm-std Decimal / Uint128::mul_floor"]
ASSUMPTIONS = ["Decimal multiplication by a factor in [0,1] does not increase a value"]

CONFIGS_QUICK = ["all-features", "staking"]
CONFIGS_THOROUGH = ["all-features", "staking", "staking-stargate"]
SUDO = "<staking::StakeKeeper as module::Module>::sudo"


def check(ctx, cfg):
    if not cfg.has("staking"):
        return
    r1(ctx, cfg)
    r2_r3(ctx, cfg)
    r4(ctx, cfg)
    r5(ctx, cfg)
    r6(ctx, cfg)
    r_overlay(ctx, cfg)
    r8(ctx, cfg)


def r_overlay(ctx, cfg):
    """premise shared with C06 (the transaction overlay is faithful), under this property's id: slashing rewrites every stake entry of the validator inside one transaction, and removes the ones that reach zero"""
    from rules import C06
    C06.overlay_premise(ctx, cfg, "C16.R7")


def r5(ctx, cfg):
    """"reduces ... every pending unbonding from it ... leaves delegations to other validators ... unchanged": slash selects queue
    entries by their `validator` tag (R3), so the tag must be the validator the tokens were undelegated from and each
    undelegation must stay an entry of its own - the Undelegate part of C14.R4 (entry = (sender, validator, amount, maturity)
    appended at the back of the loaded queue and saved), under C16's id"""
    from rules import C14
    C14.r4(ctx, cfg, R="C16.R5", parts=("Undelegate",))


def r8(ctx, cfg):
    """"leaves ... already accrued rewards unchanged": a delegator's accrued rewards live in the same `STAKES` entry as the stake
    (`Shares { stake, rewards }`, and `update_rewards` has just credited them), so `slash` must not remove an entry unless its
    rewards are known to be nothing.  (Stated under C16 only.)"""
    F, P = cfg.facts, cfg.prov
    R = "C16.R8"
    key = SK + "slash"
    f = ctx.need_fn(R, key)
    if f is None:
        return
    n = 0
    for g in F.lexical(key):
        for b, t in g.calls():
            if not (t["callee"]["key"] == "cw_storage_plus::Map::remove" and peel(P.call_args(g, t, b)[0]) == STAKES):
                continue
            conds = q.conditions_at(P, F, g, b)
            spared = any(c[0] == "bool" and c[1][0] == "is_zero" and c[1][2] is True and
                         contains(c[1][1][0], lambda x: x[0] == "field" and x[2] == "rewards") for e, c in conds)
            # (the instance is named after the branch it sits in, not after its position: a site added elsewhere keeps this key)
            wipe = any(c[0] == "bool" and c[1][0] == "is_zero" and c[1][2] is True and contains(c[1][1][0], lambda x: x[0] == "field" and x[2] == "stake")
                       for e, c in conds)
            ctx.ob(R, key, "accrued-rewards-survive:%s" % ("all-gone-branch" if wipe else "remove#%d" % n), spared,
                   "slash removes a delegator's STAKES entry (line %d) together with the rewards accrued on it: after delegating 100 for a year (9 accrued) "
                   "a slash by 100 %% - or any slash that leaves less than one token of total stake - makes the 9 vanish, WithdrawDelegatorReward fails" % t["line"],
                   fn=g, line=t["line"], sample="removed only when rewards.is_zero()")
            n += 1
    ctx.floor(R, "STAKES.remove sites in slash", n, 1)


def r1(ctx, cfg):
    F, P = cfg.facts, cfg.prov
    R = "C16.R1"
    f = ctx.need_fn(R, SUDO)
    if f is not None:
        sl = q.calls(f, SK + "slash")
        ok = len(sl) == 1
        ctx.ob(R, SUDO, "one-slash-site", ok, "expected one slash call in sudo", fn=f, sample="1")
        if ok:
            b, t = sl[0]
            a = P.call_args(f, t, b)
            # slash only runs for percentage <= 1: dominated by the false edge of `percentage > Decimal::one()` on the same
            # percentage, whose true edge ends in an error (the guard helper validate_percentage is always spliced -
            # vlib/inline.py ALWAYS_INLINE - so an inlined `if` is the same form)
            conds = q.dominating_conditions(P, f, b)
            okv = q.has_cond(conds, "lt", pol=False, arg_pred=lambda x: peel(x[0])[0] == "call" and peel(x[0])[1].endswith("Decimal::one") and same_origin(x[1], a[5]))
            gs = [g for g in q.guards(P, f) if g[1] == "lt" and peel(g[2][0])[0] == "call" and peel(g[2][0])[1].endswith("Decimal::one") and same_origin(g[2][1], a[5])]
            okv = okv and len(gs) == 1
            if okv:
                cf0 = cfg_of(f)
                reach = cf0.reachable_from(gs[0][3])
                okv = b not in reach
                for b2, i2, st2 in f.stmts():
                    if b2 in reach and st2["k"] == "assign" and st2["dst"]["l"] == 0 and not st2["dst"]["p"]:
                        o2 = peel(P.rvalue(f, st2["rv"], (b2, i2)))
                        if not ((o2[0] == "agg" and o2[1].endswith("Result::Err")) or (o2[0] == "call" and o2[1].endswith("FromResidual::from_residual"))):
                            okv = False
            ctx.ob(R, SUDO, "percentage-validated-before-slash", okv, "slash is reachable for a percentage above 1 (no `percentage > Decimal::one()` guard ending in an error on the same percentage)", fn=f, line=t["line"],
                   sample="slash dominated by !(percentage > 1); the other edge only returns Err")
            # "a fraction above one or an unknown validator is rejected": no success result of the Slash arm without the guard
            # and a successful slash
            def arm_of(b2):
                arms = [c[2][0] for e, c in q.dominating_conditions(P, f, b2) if c[0] == "variant_in" and len(c[2]) == 1 and is_param(c[1], "msg")]
                return arms[0] if arms else ""
            # (StakingSudo has a single variant today: no switch on the message then, the whole function is the arm)
            switches_on_msg = any(t2["k"] == "switch" and "discr_of" in t2 and is_param(P.place(f, t2["discr_of"], (b2, "t")), "msg")
                                  for b2 in f.order for t2 in [f.blocks[b2]["term"]])
            out = q.successes_outside(P, f, lambda cs: q.succeeded(cs, SK + "slash") and q.has_cond(cs, "lt", pol=False, arg_pred=lambda x: peel(x[0])[0] == "call" and
                                                                                                peel(x[0])[1].endswith("Decimal::one") and same_origin(x[1], a[5])),
                                      only=(lambda b2: arm_of(b2) == "Slash") if switches_on_msg else None)
            ctx.ob(R, SUDO, "slash-succeeds-only-validated-and-applied", not out,
                   "the Slash arm can produce a success at block(s) %s without `!(percentage > 1)` and a successful slash" % out, fn=f,
                   sample="every non-Err result of the arm dominated by the guard and Continue(slash(..))")
            ctx.ob(R, SUDO, "slash(validator, percentage)-of-the-message", just(a[4], lambda x: is_param_field(x, "msg", "validator")) and is_param_field(a[5], "msg", "percentage"),
                   "slash(%s, %s)" % (fmt(a[4])[:40], fmt(a[5])[:40]), fn=f, sample="(&validator, percentage)")
            st = peel(a[2])
            ctx.ob(R, SUDO, "slash-on-staking-view", st[0] == "call" and st[1] == "prefixed_storage::prefixed" and peel(st[2][1]) == ("item", "staking::NAMESPACE_STAKING"),
                   "slash operates on %s" % fmt(st)[:80], fn=f, sample="prefixed(storage, NAMESPACE_STAKING)")
    key = SK + "slash"
    f = ctx.need_fn(R, key)
    if f is not None:
        out = q.successes_outside(P, f, lambda cs: q.succeeded(cs, SK + "update_rewards"))
        ctx.ob(R, key, "succeeds-only-for-a-known-validator", not out,
               "slash can produce a success at block(s) %s without update_rewards (which rejects an unknown validator) having succeeded" % out, fn=f,
               sample="every non-Err result dominated by Continue(update_rewards(..))")
        ur = q.calls(f, SK + "update_rewards")
        accesses = store_calls(P, f, STAKES, ("save", "remove", "update", "load", "may_load")) + store_calls(P, f, VINFO, ("save", "remove", "update", "load", "may_load")) + \
            store_calls(P, f, QUEUE, ("save", "may_load"))
        ok = len(ur) == 1 and all(_succ_dom(P, f, b, SK + "update_rewards") for b, t in accesses) and len(accesses) >= 5
        ctx.ob(R, key, "unknown-validator-rejected-before-any-access", ok, "slash touches state before update_rewards(validator) succeeded", fn=f,
               sample="%d accesses dominated by Continue(update_rewards)" % len(accesses))


def _is_factor(o):
    """Decimal::one() - percentage"""
    o = peel(o)
    return o[0] == "call" and o[1] == "std::ops::Sub::sub" and peel(o[2][0])[0] == "call" and peel(o[2][0])[1].endswith("Decimal::one") and is_param(o[2][1], "percentage")


def _sum_of_scaled_entries(P, F, f, acc, ups):
    """`acc` is a Decimal that starts at zero and receives, once per staker, the `stake` of the entry that the slash has just
    scaled: `let mut sum = Decimal::zero(); for d in stakers { let e = STAKES.update(.., |e| ..)?; sum += e.stake; }`"""
    o = acc
    while o[0] == "vp":
        o = o[2]
    addends = []
    if o[0] == "upd":
        base = peel(o[1])
        for pth, v in o[2]:
            if pth == ("&mut",) and v[0] == "mutby" and v[1].endswith("AddAssign::add_assign") and v[2]:
                addends.append(v[2][0])
            else:
                return False
    else:
        al = [peel(x) for x in alts(peel(o))]
        base = next((x for x in al if x[0] == "call" and x[1].endswith("Decimal::zero")), ("?",))
        for x in al:
            if x is base:
                continue
            if x[0] == "call" and x[1].endswith("Add::add") and len(x[2]) == 2:
                addends.append(x[2][1])
            else:
                return False
    if not (base[0] == "call" and base[1].endswith("Decimal::zero")) or len(addends) != 1 or len(ups) != 1:
        return False
    u = ups[0]
    x = addends[0]
    while x[0] == "vp":
        x = x[2]
    scaled_here = False
    if x[0] == "upd":
        # `entry.stake *= factor; ..; sum += entry.stake`: the field of the loaded entry after its scaling
        if not all(pth == ("&mut",) and v[0] == "mutby" and v[1].endswith("MulAssign::mul_assign") and v[2] and _is_factor(v[2][0]) for pth, v in x[2]):
            return False
        scaled_here = True
        x = peel(x[1])
    if not (x[0] == "field" and x[2] == "stake"):
        return False
    e = peel(x[1])
    ub = u.site[1]
    if u.form == "update":
        c = peel(e[1]) if e[0] == "ok" else ("?",)
        if not (c[0] == "call" and c[1] == "cw_storage_plus::Map::update" and len(c) > 4 and c[4] == (f.key, ub)):
            return False
    else:
        # load / modify / save: the entry that was loaded under that key, after its scaling
        from rules import stakes as _st
        if not (scaled_here and _st.existing_entry(e, u.key)):
            return False
    # the addition runs once for every staker: same exhaustive loop as the entry update, under no condition on the element
    from vlib import pipeline
    adds = [(b, t) for b, t in f.calls() if t["callee"]["key"].endswith(("AddAssign::add_assign", "Add::add")) and
            any(same_origin(a, addends[0]) for a in P.call_args(f, t, b)[1:])]
    if len(adds) != 1:
        return False
    ab = adds[0][0]
    lu, la = q.enclosing_loops(P, f, ub), q.enclosing_loops(P, f, ab)
    if len(lu) != 1 or len(la) != 1 or lu[0][0] != la[0][0]:
        return False
    if pipeline._elem_conds(q.conditions_at(P, F, f, ab)) or q.chain_adapters(la[0][1]) not in ([], ["iter"], ["into_iter"]):
        return False
    return q.loop_is_exhaustive(f, la[0][0], ab) and q.loop_is_exhaustive(f, la[0][0], ub)


def r2_r3(ctx, cfg, R2="C16.R2", R3="C16.R3"):
    F, P = cfg.facts, cfg.prov
    key = SK + "slash"
    f = ctx.need_fn(R2, key)
    if f is None:
        return
    cf = cfg_of(f)
    # factor sites
    n = 0
    # (a) validator total.  The stakers' entries keep fractions of a token (Decimal `stake`), the validator's total is whole
    # tokens, and `update_stake` subtracts every undelegated amount from both: the total has to be derived from the entries -
    # floor(sum of the scaled entries) - where stakers remain.  Scaling and flooring the previous total on its own compounds
    # the floors: 13 staked, slashed by 70 % and then by 10 %, leaves an entry of 3.51 (a delegation of 3 is shown) and a
    # total of floor(floor(13 * 0.3) * 0.9) = 2, and the delegator's valid `Undelegate 3` fails with an underflow.
    n_expected = 2
    tw = [(b, i, st) for b, i, st in f.stmts() if st["k"] == "assign" and st["dst"]["p"] and st["dst"]["p"][-1]["k"] == "field" and
          st["dst"]["p"][-1]["name"] == "stake" and st["dst"]["p"][-1].get("of", "").startswith("staking::ValidatorInfo")]
    prelim, summed, other = [], [], []
    from rules import stakes as _stakes
    ups0 = _stakes.entry_updates(P, F, f)
    for b, i, st in tw:
        v = peel(P.rvalue(f, st["rv"], (b, i)))
        if v[0] == "call" and v[1].endswith("Uint128::mul_floor") and peel(v[2][0])[0] == "field" and peel(v[2][0])[2] == "stake" and _is_factor(v[2][1]):
            prelim.append((b, i, st))
        elif v[0] == "call" and v[1].endswith("Uint128::mul_floor") and peel(v[2][0])[0] == "call" and peel(v[2][0])[1].endswith("Uint128::new") and \
                peel(peel(v[2][0])[2][0]) == ("const", "int", 1) and _sum_of_scaled_entries(P, F, f, v[2][1], ups0):
            summed.append((b, i, st))
        else:
            other.append((b, i, fmt(v)[:100]))
    # ("p = 1 removes the delegations entirely": whether anything is left is decided on the scaled previous total)
    ok = len(summed) == 1 and not other and len(prelim) == 1
    d = "validator total is written as %s" % ([x[2] for x in other] or ("the previous total scaled and floored on its own" if prelim and not summed else
                                                  "the sum alone: nothing decides whether everything is gone" if summed and not prelim else "-"))
    svv0 = store_calls(P, f, VINFO, ("save",))
    if ok and prelim:
        # the scaled previous total may only decide "everything is gone" (its zero test); where stakers remain, the sum replaces
        # it before the record is saved
        n_expected = 3
        n += 1
        zg = [g for g in q.guards(P, f) if g[1] == "is_zero" and contains(g[2][0], lambda x: x[0] == "field" and x[2] == "stake")]
        ok = len(zg) == 1 and len(svv0) == 1
        if ok:
            gb, _p, _a, e_true, e_false = zg[0]
            ok = svv0[0][0] not in cf.reachable_from(e_false, avoid=[summed[0][0]]) and summed[0][0] not in cf.reachable_from(e_true, avoid=[])
            d = "where stakers remain the record can be saved with the scaled previous total instead of the sum of the entries"
    ctx.ob(R2, key, "total-stake=floor(sum of the scaled entries)", ok,
           "%s: the stakers' entries keep fractions, the total has to be floor(sum of the scaled entries) where stakers remain - a total floored on its own at "
           "every slash drifts below a single delegation (13 staked, slashes of 70 %% and 10 %%: entry 3.51, total 2) and a valid Undelegate fails" % d, fn=f,
           sample="validator_info.stake = floor(sum of entry.stake * (1 - p))")
    # (b) stakers: closure of STAKES.update multiplies `stake` by the factor and touches nothing else
    # (b) stakers: each existing entry is updated in place - `STAKES.update(key, |e| ..)` or load / modify / save (rules/stakes.py) -
    # by multiplying `stake` with the factor, and nothing else of the entry changes
    from rules import stakes
    ups = stakes.entry_updates(P, F, f)
    ok = len(ups) == 1
    d = "%d in-place updates of STAKES entries" % len(ups)
    if ok:
        u = ups[0]
        ops = u.ops()
        d = "; ".join("%s.%s %s" % (fld, op.rsplit("::", 1)[-1], fmt(v)[:60]) for op, fld, v in ops) or str(sorted(map(str, u.changes)))
        mul = [o for o in ops if o[0].endswith(("MulAssign::mul_assign",)) and o[1] == "stake" and _is_factor(o[2])]
        setmul = "stake" in u.changes and contains(u.changes["stake"], lambda x: x[0] == "call" and x[1].endswith("Mul::mul") and
                                                   contains(x[2][0], lambda y: y[0] == "field" and y[2] == "stake") and _is_factor(x[2][1]))
        ok = (len(mul) == 1 and set(u.changes) == {("&mut", "stake")} and len(ops) == 1) or (setmul and set(u.changes) == {"stake"})
        if ok:
            n += 1
    ctx.ob(R2, key, "each-stake*=(1-p), rewards untouched", ok, "staker update is %s" % d, fn=f, sample=d)
    # (c) queue entries of that validator.  Form-agnostic: `queue.iter_mut().filter(p).for_each(|ub| ..)` and
    # `for ub in queue.iter_mut() { if p(ub) { .. } }` are the same loop after normalisation (vlib/inline.py A9,
    # q.conditions_at): the write site, its value, the element it goes to and the conditions it runs under.
    def is_queue_elem(o):
        o = peel(o)
        return o[0] == "bound" and o[1] == "elem" and contains(o[2], lambda x: x[0] == "call" and x[1] == "cw_storage_plus::Item::may_load" and peel(x[2][0]) == QUEUE)

    ws = [(b, i, st) for b, i, st in f.stmts() if st["k"] == "assign" and st["dst"]["p"] and st["dst"]["p"][-1]["k"] == "field" and st["dst"]["p"][-1].get("of", "").startswith("staking::Unbonding")]
    d = "no write to a queue entry"
    ok = [st["dst"]["p"][-1]["name"] for b, i, st in ws] == ["amount"]
    okf = False
    fd = "?"
    if ok:
        wb, wi, wst = ws[0]
        tgt = P.local(f, wst["dst"]["l"], (wb, wi))
        val = peel(P.rvalue(f, wst["rv"], (wb, wi)))
        d = "%s.amount = %s" % (fmt(tgt)[:40], fmt(val)[:90])
        ok = is_queue_elem(tgt) and val[0] == "call" and val[1].endswith("Uint128::mul_floor") and _is_factor(val[2][1]) and \
            peel(val[2][0])[0] == "field" and peel(val[2][0])[2] == "amount" and same_origin(peel(val[2][0])[1], tgt)
        if ok:
            n += 1
        # conditions on the element under which the write runs: exactly `ub.validator == validator`
        ec = []
        for e, c in q.conditions_at(P, F, f, wb):
            if c[0] == "bool" and not q.is_derived(c) and any(contains(x, lambda y: y[0] == "bound" and y[1] == "elem") for x in c[1][1]):
                ec.append(c[1])
        fd = [(p, [fmt(x)[:40] for x in a], pol) for p, a, pol in ec]
        okf = len(ec) == 1 and ec[0][0] == "eq" and ec[0][2] is True and \
            any(peel(x)[0] == "field" and peel(x)[2] == "validator" and is_queue_elem(peel(x)[1]) for x in ec[0][1]) and any(is_param(x, "validator") for x in ec[0][1])
        # the loop visits the whole queue (no skipping adapter)
        from rules.C01 import DENY_ADAPTERS
        loops = q.enclosing_loops(P, f, wb)
        bad = []
        for nb, src in loops:
            o = peel(src)
            while o[0] == "call" and o[2]:
                nm = o[1].rsplit("::", 1)[-1]
                if nm in DENY_ADAPTERS and nm != "filter":
                    bad.append(nm)
                o = peel(o[2][0])
        ok = ok and len(loops) == 1 and not bad
    ctx.ob(R3, key, "only-unbondings-of-that-validator", okf, "the queue entry is slashed under %s" % (fd,), fn=f, sample="ub.validator == validator")
    ctx.ob(R2, key, "pending-unbondings=floor(amount*(1-p))", ok, "queue update is %s" % d, fn=f, sample=d)
    ctx.ob(R2, key, "one-factor-at-every-site", n == n_expected, "the factor (1 - percentage) is applied at %d sites, expected %d" % (n, n_expected), fn=f, sample=str(n_expected))
    sv = store_calls(P, f, QUEUE, ("save",))
    ok = len(sv) == 1 and contains(P.call_args(f, sv[0][1], sv[0][0])[2], lambda x: x[0] == "call" and x[1] == "cw_storage_plus::Item::may_load")
    ctx.ob(R2, key, "slashed-queue-saved", ok, "the slashed queue is not saved", fn=f, sample="UNBONDING_QUEUE.save(queue)")
    # ... on every successful path: a shortcut such as "nothing bonded, nothing to slash" in front of the queue walk leaves the
    # pending unbondings of that validator whole
    sites = q.success_return_sites(P, f)
    svv1 = store_calls(P, f, VINFO, ("save",))
    out = sorted({b for (b, i), v in sites if not (len(sv) == 1 and cf.dominates(sv[0][0], b) and len(svv1) == 1 and cf.dominates(svv1[0][0], b))})
    ctx.ob(R2, key, "succeeds-only-after-saving-queue-and-validator", bool(sites) and not out,
           "slash can produce a success at block(s) %s without having saved the scaled unbonding queue and the validator info" % out, fn=f,
           sample="every non-Err result dominated by UNBONDING_QUEUE.save and VALIDATOR_INFO.save")
    # R3: keys written carry the slashed validator
    n = 0
    for item, names in ((STAKES, ("remove", "update", "save")), (VINFO, ("save", "remove", "update"))):
        for b, t in store_calls(P, f, item, names):
            n += 1
            a = P.call_args(f, t, b)
            k = a[2]
            if item == STAKES:
                # (delegator from the slashed validator's own staker set, validator)
                kk = peel(k)
                ok = kk[0] == "agg" and kk[1] == "tuple" and len(kk[2]) == 2 and is_param(kk[2][1][1], "validator") and \
                    contains(kk[2][0][1], lambda x: x[0] == "field" and x[2] == "stakers" and contains(
                        x[1], lambda y: vinfo_source(y, lambda k0: is_param(k0, "validator"))))
            else:
                ok = is_param(k, "validator")
            ctx.ob(R3, key, "key-of-%s.%s-is-slashed-validator%s" % (item[1].rsplit("::", 1)[1], t["callee"]["name"], q_tag(f, t)), ok,
                   "%s.%s is keyed by %s" % (item[1], t["callee"]["name"], fmt(k)[:100]), fn=f, line=t["line"], sample=fmt(k)[:80])
    ctx.floor(R3, "keyed writes in slash", n, 3)
    # no bank / router call reachable from slash
    seen = set()
    stack = [key]
    router_calls = []
    while stack:
        k = stack.pop()
        if k in seen:
            continue
        seen.add(k)
        for g in F.lexical(k):
            for b, t in g.calls():
                c = t["callee"]
                if c.get("trait") == "app::CosmosRouter" or c["key"].startswith("bank::"):
                    router_calls.append("%s in %s" % (c["key"], g.key))
                tgt = c.get("resolved") or c["key"]
                if c["local"] and tgt in F.fns and tgt not in seen:
                    stack.append(tgt)
    ctx.ob(R3, key, "no-bank-call-reachable", not router_calls, "slash reaches %s" % router_calls, fn=f, sample="%d functions reachable, none dispatches a message" % len(seen))
    # the saved validator info is the loaded one with only stake (and cleared stakers) changed
    svv = store_calls(P, f, VINFO, ("save",))
    ok = len(svv) == 1
    if ok:
        rec = P.call_args(f, svv[0][1], svv[0][0])[3]
        while rec[0] == "vp":
            rec = rec[2]
        ok = rec[0] == "upd" and {p for p, v in rec[2] if not (p and p[0] == "&mut")} == {("stake",)} and \
            {p for p, v in rec[2] if p and p[0] == "&mut"} <= {("&mut", "stakers")}
    ctx.ob(R3, key, "validator-info: only stake (and cleared stakers) changed", ok, "slash saves a ValidatorInfo with other fields changed", fn=f, sample="{stake} + stakers.clear()")


def q_tag(f, t):
    k = t["callee"]["key"]
    i = 0
    for bid, tt in f.calls():
        if tt is t:
            break
        if tt["callee"]["key"] == k:
            i += 1
    return "#%d" % i


def r4(ctx, cfg):
    F, P = cfg.facts, cfg.prov
    R = "C16.R4"
    key = SK + "slash"
    f = ctx.need_fn(R, key)
    if f is None:
        return
    cf = cfg_of(f)
    clears = staker_set_calls(P, f, ("clear",))
    rms = store_calls(P, f, STAKES, ("remove",))
    ok = len(clears) == 1 and len(rms) == 1
    ctx.ob(R, key, "full-slash-shape", ok, "expected one stakers.clear() and one STAKES.remove in slash", fn=f, sample="1/1")
    if not ok:
        return
    cb, rb = clears[0][0], rms[0][0]
    for name, b in (("clear", cb), ("remove", rb)):
        conds = q.dominating_conditions(P, f, b)
        z = q.has_cond(conds, "is_zero", pol=True, arg_pred=lambda a: contains(a[0], lambda x: x[0] == "field" and x[2] == "stake"))
        ctx.ob(R, key, "%s-only-when-total-is-zero" % name, z, "stakers.%s / STAKES.remove is not guarded by validator_info.stake.is_zero()" % name, fn=f, sample="guard: stake.is_zero()")
    # the removal loop iterates the staker set, and clear() follows it on every path
    a = P.call_args(f, rms[0][1], rb)
    ctx.ob(R, key, "every-staker-entry-removed", contains(a[2], lambda x: x[0] == "field" and x[2] == "stakers") and rb in cf.reachable_from(rb),
           "STAKES.remove is not inside a loop over validator_info.stakers", fn=f, sample="for delegator in stakers { STAKES.remove((delegator, validator)) }")
    # the non-zero branch updates instead (no removal)
    from rules import stakes
    ups = [u for u in stakes.entry_updates(P, F, f) if u.site[0] == f.key]
    ok = len(ups) == 1 and q.has_cond(q.dominating_conditions(P, f, ups[0].site[1]), "is_zero", pol=False)
    ctx.ob(R, key, "partial-slash-updates-in-place", ok, "the partial-slash branch does not update stakes under !stake.is_zero()", fn=f, sample="else { STAKES.update(..) }")


def r6(ctx, cfg):
    """"to (1 - p) times its value rounded down to whole tokens ... never increases any amount": a slashed delegation is a fractional
    Decimal in STAKES; what a query reports of it is the floor.  Every conversion of a stored stake to whole tokens in
    staking.rs is `Uint128::new(1).mul_floor(stake)` (or `stake.to_uint_floor()`): get_stake and the Delegation query."""
    F, P = cfg.facts, cfg.prov
    R = "C16.R6"
    n = 0
    for f in F.user_fns():
        if f.file != "src/staking.rs":
            continue
        for b, t in f.calls():
            nm = t["callee"]["name"]
            if nm not in ("mul_floor", "mul_ceil", "to_uint_floor", "to_uint_ceil") or not t["args"]:
                continue
            a = P.call_args(f, t, b)
            val = a[-1]
            is_stake = contains(val, lambda x: x[0] == "field" and x[2] == "stake" and contains(x[1], lambda y: y == ("item", "staking::STAKES")))
            if not is_stake or contains(val, lambda x: x[0] == "field" and x[2] == "rewards"):
                continue
            n += 1
            ok = nm == "to_uint_floor" or (nm == "mul_floor" and len(a) == 2 and peel(a[0])[0] == "call" and peel(a[0])[1] == "cosmwasm_std::Uint128::new" and
                                           peel(peel(a[0])[2][0]) == ("const", "int", 1))
            ctx.ob(R, f.key, "stake-shown-rounded-down@%d" % t["line"] if False else "stake-shown-rounded-down#%d" % n, ok,
                   "a stored stake is converted to whole tokens by %s(%s, ..) at line %s" % (nm, fmt(a[0])[:40], t["line"]), fn=f, line=t["line"],
                   sample="Uint128::new(1).mul_floor(shares.stake)")
    ctx.floor(R, "stake-to-token conversions", n, 2)
