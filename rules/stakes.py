"""In-place updates of existing STAKES entries in one normal form, whatever the spelling:

    STAKES.update(storage, key, |e| { let mut e = e.expect(..); e.f op= v; Ok(e) })
    let mut e = STAKES.may_load(storage, key)?.expect(..);  e.f op= v;  STAKES.save(storage, key, &e)?;
    let mut e = STAKES.load(storage, key)?;                  e.f = v;    STAKES.save(storage, key, &e)?;

entry_updates(P, F, f) -> [Update]: site (block of the update / save call in f), key origin, `changes` in the format of
q.record_update ({field: new value} and {("&mut", field): mutby-origin}), `owner` (the function whose blocks hold the field
operations: the closure or f itself) and `ops` - the operator calls applied to fields of the entry:
[(trait name, field, origin of the other operand)]."""
from vlib import q
from vlib.prov import peel, contains, same_origin

STAKES = ("item", "staking::STAKES")


def existing_entry(o, key=None):
    """`o` is an entry that was found under `key`: may_load(..)?.expect(..) / .unwrap(), load(..)?, or the value handed to an
    update closure after expect/unwrap"""
    o = peel(o)
    if o[0] == "call" and o[1] in ("std::option::Option::expect", "std::option::Option::unwrap") and o[2]:
        inner = peel(o[2][0])
        if inner[0] == "cparam" and inner[3] == "cw_storage_plus::Map::update":
            return True
        if inner[0] == "ok":
            c = peel(inner[1])
            return c[0] == "call" and c[1] == "cw_storage_plus::Map::may_load" and peel(c[2][0]) == STAKES and (key is None or same_origin(c[2][2], key))
        return False
    if o[0] == "some":
        return existing_entry(("call", "std::option::Option::unwrap", (o[1],)), key)
    if o[0] == "ok":
        c = peel(o[1])
        return c[0] == "call" and c[1] == "cw_storage_plus::Map::load" and peel(c[2][0]) == STAKES and (key is None or same_origin(c[2][2], key))
    return False


class Update:
    def __init__(self, site, form, key, changes, owner, line):
        self.site, self.form, self.key, self.changes, self.owner, self.line = site, form, key, changes, owner, line

    def ops(self):
        out = []
        for k, v in self.changes.items():
            if isinstance(k, tuple) and k[0] == "&mut" and len(k) > 1:
                x = v
                while x[0] == "vp":
                    x = x[2]
                # ("upd", base, ((path, mutby), ..)) or a mutby itself
                muts = [x] if x[0] == "mutby" else [m for p_, m in (x[2] if x[0] == "upd" else ()) if m[0] == "mutby"]
                for m in muts:
                    out.append((m[1], k[1], m[2][0] if m[2] else ("unknown", "")))
        return out


def entry_updates(P, F, f):
    out = []
    for g in F.lexical(f.key):
        for bid, t in g.calls():
            c = t["callee"]
            if not c["key"].startswith("cw_storage_plus::Map::") or not t["args"]:
                continue
            a = P.call_args(g, t, bid)
            if peel(a[0]) != STAKES:
                continue
            if c["name"] == "update" and len(a) > 3:
                clo = peel(a[3])
                h = F.fn(clo[1]) if clo[0] == "closure" else None
                if h is None:
                    continue
                ret = peel(P.ret(h))
                rec = None
                for alt in (ret[1] if ret[0] == "multi" else [ret]):
                    alt = peel(alt)
                    if alt[0] == "agg" and alt[1].endswith("Result::Ok"):
                        rec = alt[2][0][1]
                ch = q.record_update(rec, existing_entry) if rec is not None else None
                if ch is not None:
                    out.append(Update((g.key, bid), "update", a[2], ch, h, t["line"]))
            elif c["name"] == "save" and len(a) > 3:
                ch = q.record_update(a[3], lambda o, k=a[2]: existing_entry(o, k))
                if ch is not None:
                    out.append(Update((g.key, bid), "load-save", a[2], ch, g, t["line"]))
    return out
