"""C12 — only the current admin can migrate or re-assign admin; migration keeps state (DESIGN.md §5 C12)."""
from vlib import q
from vlib.cfg import cfg_of
from vlib.prov import peel, fmt, is_param, contains, alts, deep_peel, same_origin, is_param_field, just

LEVEL = "other"
EXPLANATION = (
    "Static analysis of MIR facts: in update_admin and in the Migrate arm of execute_wasm every registry write "
    "(save_contract) and every call_migrate is dominated by the `equal` edge of a comparison between the stored "
    "record's admin and Some(sender) (normalised eq/ne), while the failing edge reaches only an Err return and no "
    "storage write; the saved record is the loaded record with exactly one field replaced (admin / code_id) under the "
    "address that was looked up; the registry write dominates call_migrate, which runs on the same address (handler "
    "resolution from the stored code id and the storage window are covered by C05.R4)."
    " Every non-Err result of update_admin and of the Migrate arm is dominated by the admin guard (a success for a non-admin is a violation even when nothing is written)."
)
TRUSTED = ["rustc MIR construction", "cwmt-facts driver", "vlib (dominators, provenance, condition normalisation)",
           "Option<Addr> equality", "C05.R4 (handler and window resolved from the same address)"]
ASSUMPTIONS = []

W = "wasm::WasmKeeper::"


def check(ctx, cfg):
    r_update_admin(ctx, cfg)
    r_migrate(ctx, cfg)
    r_layering(ctx, cfg)
    r_dispatch(ctx, cfg)
    r_overlay(ctx, cfg)
    r_record(ctx, cfg)


def r_record(ctx, cfg):
    """premises shared with C11 and C17.  A migration sets the new code id on the loaded record and saves it; an admin change
    does the same with the admin: both take effect only if `save_contract` stores the record it is given (C11.R5 under
    C12.R7) - and "runs the migrate entry point of the new code" ends in `ContractWrapper::migrate` handing over to the
    supplied function (C17.R13 under C12.R8)"""
    from rules import C11, C17
    C11.record_io(ctx, cfg, "C12.R7")
    C17.r13(ctx, cfg, R="C12.R8", only=("migrate",))


def r_overlay(ctx, cfg):
    """premise shared with C06 (the transaction overlay is faithful), under this property's id: an admin changed or a code id stored by an earlier message of the transaction decides what the next one may do"""
    from rules import C06
    C06.overlay_premise(ctx, cfg, "C12.R6")


def r_dispatch(ctx, cfg):
    """"succeed only when sent by the contract's current admin ... attempted by ... other contracts": what the migrate entry point
    (or any other) makes the contract send is sent as that contract, never with the identity of whoever triggered it - the
    callee == contract handed to process_response obligations of C05.R4 under C12's id"""
    from rules import C05
    C05.r4_dispatch(ctx, cfg, "C12.R5")


def r_layering(ctx, cfg):
    """who may rewrite a contract's registry record or run a migrate entry point"""
    F = cfg.facts
    R = "C12.R4"
    def keeps_who_owns_the_contract(caller):
        # another writer of the registry is fine when what it saves is the record it loaded under the same address with the
        # fields this property is about - admin, code_id (and creator, created) - left as they were
        P0 = cfg.prov
        ok0 = False
        for h, b, t in q.lexical_calls(F, caller, W + "save_contract"):
            a = P0.call_args(h, t, b)
            ch = q.record_update(a[3], lambda o: peel(o)[0] == "ok" and peel(peel(o)[1])[0] == "call" and peel(peel(o)[1])[1] == "wasm::Wasm::contract_data" and
                                 same_origin(peel(peel(o)[1])[2][2], a[2]))
            if ch is None or {k for k in ch if not (isinstance(k, tuple) and k[0] == "&mut")} & {"admin", "code_id", "creator", "created"} or \
                    any(isinstance(k, tuple) and k[0] == "&mut" and (len(k) < 2 or k[1] in ("admin", "code_id", "creator", "created")) for k in ch):
                return False
            ok0 = True
        return ok0
    q.who_may_call(ctx, R, F, W + "save_contract", {W + "register_contract", W + "update_admin", W + "execute_wasm"},
                   "the registry is written on instantiation, admin change and migration only", accept=keeps_who_owns_the_contract)
    q.who_may_call(ctx, R, F, W + "call_migrate", {W + "execute_wasm"}, "migrate entry points run from the Migrate arm only")
    def acts_for_its_own_caller(caller):
        # another way in is fine when it cannot forge the identity update_admin compares with the stored admin: the `sender` it
        # passes is its own parameter (not read from storage, not computed), the store is the one it was given (or a cache
        # of it) and update_admin's verdict is propagated.  The guard itself sits inside update_admin (C12.R1).
        P0 = cfg.prov
        g0 = F.fn(caller)
        if g0 is None:
            return False
        ok0 = False
        for h, b, t in q.lexical_calls(F, caller, W + "update_admin"):
            a = P0.call_args(h, t, b)
            snd, st = peel(a[3]), peel(a[2])
            own_store = st[0] == "param" or (st[0] == "bound" and st[1] == "cache_of" and peel(st[2])[0] == "param")
            if not (snd[0] == "param" and snd[2] != "self" and h.key.split("::{closure")[0] == caller and own_store and
                    (q.error_propagates(P0, h, b) or h.key != caller)):
                return False
            ok0 = True
        return ok0
    q.who_may_call(ctx, R, F, W + "update_admin", {W + "execute_wasm"}, "admin changes come from UpdateAdmin / ClearAdmin only", accept=acts_for_its_own_caller)
    # the registry map itself is written by save_contract only
    P = cfg.prov
    writers = set()
    for f in F.user_fns():
        for bid, t in f.calls():
            c = t["callee"]
            if c["key"].startswith("cw_storage_plus::Map::") and c["name"] in ("save", "remove", "update", "clear") and t["args"]:
                if peel(P.operand(f, t["args"][0], (bid, "t"))) == ("item", "wasm::CONTRACTS"):
                    writers.add(f.key.split("::{closure")[0])
    ctx.ob(R, "wasm::CONTRACTS", "single-writer", writers == {W + "save_contract"}, "CONTRACTS is written by %s" % sorted(writers), sample=str(sorted(writers)))


def _admin_guard(P, f, node, addr_origin):
    """is `node` dominated by  contract_data(storage, addr).admin == Some(sender)  - written as that comparison, or as
    `match &data.admin { Some(a) if a == &sender => .., _ => fail }` (the Some edge and the equality of its payload).
    Returns the list of guarding edges (their sibling edges are the failing ones) or None."""
    def is_admin_field(a):
        a = peel(a)
        return a[0] == "field" and a[2] == "admin" and peel(a[1])[0] == "ok" and peel(peel(a[1])[1])[0] == "call" and \
            peel(peel(a[1])[1])[1] == "wasm::Wasm::contract_data" and same_origin(peel(peel(a[1])[1])[2][2], addr_origin) and \
            is_param(peel(peel(a[1])[1])[2][1], "storage")
    conds = q.dominating_conditions(P, f, node)
    some_edge = None
    for e, c in conds:
        if c[0] == "variant_in" and c[2] == ("Some",) and is_admin_field(c[1]):
            some_edge = e
    for e, c in conds:
        if c[0] != "bool":
            continue
        pred, args, pol = c[1]
        if pred != "eq" or pol is not True or len(args) != 2:
            continue
        for a, b in (args, args[::-1]):
            a, b = peel(a), peel(b)
            if is_admin_field(a) and b[0] == "agg" and b[1].endswith("Option::Some") and is_param(b[2][0][1], "sender"):
                return [e]
            if some_edge is not None and a[0] == "some" and is_admin_field(a[1]) and is_param(b, "sender"):
                return [some_edge, e]
    return None


def _writes_after(f, cfgf, edge):
    """storage-writing calls reachable from `edge`"""
    out = []
    reach = cfgf.reachable_from(edge)
    for bid, t in f.calls():
        if bid in reach and any(q.is_storage_mut_ty(ty) for ty in t["callee"].get("inputs", [])):
            out.append(t["callee"]["key"])
    return out


def _failing_edge(P, f, cfgf, guard_edges):
    out = []
    for guard_edge in guard_edges:
        _, bid, idx = guard_edge
        out += [e for e, v, n, tb in cfgf.switch_edges(bid) if e != guard_edge and not cfgf.is_unreachable_block(tb)]
    return out


def r_update_admin(ctx, cfg):
    F, P = cfg.facts, cfg.prov
    key = W + "update_admin"
    f = ctx.need_fn("C12.R1", key)
    if f is None:
        return
    cf = cfg_of(f)
    sc = q.calls(f, W + "save_contract")
    ctx.ob("C12.R1", key, "one-registry-write", len(sc) == 1, "expected one save_contract in update_admin, found %d" % len(sc), fn=f, sample="1")
    for bid, t in sc:
        a = P.call_args(f, t, bid)
        addr = a[2]
        g = _admin_guard(P, f, bid, addr)
        ctx.ob("C12.R1", key, "admin-change-only-by-current-admin", g is not None,
               "save_contract in update_admin is not dominated by `contract_data(addr).admin == Some(sender)`", fn=f, line=t["line"],
               sample="dominated by admin == Some(sender)")
        if g is not None:
            bad = []
            for fe in _failing_edge(P, f, cf, g):
                bad += _writes_after(f, cf, fe)
                # the failing edge must end in Err
            ctx.ob("C12.R1", key, "non-admin-path-writes-nothing", not bad, "the non-admin path reaches %s" % bad, fn=f, sample="no storage write after the failing edge")
            ok = True
            for fe in _failing_edge(P, f, cf, g):
                reach = cf.reachable_from(fe)
                for b2, i2, st in f.stmts():
                    if b2 in reach and st["k"] == "assign" and st["dst"]["l"] == 0 and not st["dst"]["p"]:
                        o = peel(P.rvalue(f, st["rv"], (b2, i2)))
                        if not (o[0] == "agg" and o[1].endswith("Result::Err")):
                            ok = False
            ctx.ob("C12.R1", key, "non-admin-path-returns-Err", ok, "the non-admin path can return something other than Err", fn=f, sample="Err only")
        # "succeed only when sent by the current admin": no way to a success result around the guard (a shortcut such as
        # `if data.admin == new_admin { return Ok(..) }` placed before it)
        around = [site for site, val in q.success_return_sites(P, f) if _admin_guard(P, f, site[0], addr) is None]
        ctx.ob("C12.R1", key, "success-only-by-current-admin", not around,
               "update_admin can produce a success result at block(s) %s without passing `contract_data(addr).admin == Some(sender)`" % sorted(set(b for b, i in around)),
               fn=f, sample="every non-Err result dominated by the admin guard")
        # R2: what is saved
        # `data.admin = x; save(data)` or `save(ContractData { admin: x, ..data })`: the loaded record with only `admin` replaced
        def is_loaded_cd(o):
            o = peel(o)
            return o[0] == "ok" and peel(o[1])[0] == "call" and peel(o[1])[1] == "wasm::Wasm::contract_data"
        ch = q.record_update(a[3], is_loaded_cd)
        ok = ch is not None and set(k for k in ch if not (isinstance(k, tuple) and k[0] == "&mut")) == {"admin"}
        newv = [ch["admin"]] if ok else []
        if ok:
            # the new value comes from `new_admin` alone (so None clears): nothing of the sender, of the record loaded before
            # or of any other input goes into it
            ok = contains(newv[0], lambda x: x[0] == "param" and x[2] == "new_admin") and \
                not contains(newv[0], lambda x: x[0] == "param" and x[2] not in ("new_admin", "api")) and \
                not contains(newv[0], lambda x: x[0] == "call" and x[1] == "wasm::Wasm::contract_data")
        ctx.ob("C12.R2", key, "saves-loaded-record-with-only-admin-replaced", ok, "update_admin saves %s" % fmt(a[3])[:200], fn=f, line=t["line"],
               sample="contract_data with {admin: validated new_admin | None}")
        ctx.ob("C12.R2", key, "saved-under-looked-up-address", contains(addr, lambda x: x[0] == "call" and x[1].endswith("Api::addr_validate") and is_param(x[2][1], "contract_addr")),
               "record saved under %s" % fmt(addr)[:100], fn=f, sample="addr_validate(contract_addr)?")
    # the new admin is validated: in the value stored as `admin`, the caller-supplied string occurs only as the argument of
    # addr_validate (`new_admin.map(|a| api.addr_validate(&a)).transpose()?` and the `match` form have the same origin)
    def _unvalidated(o, under=False):
        o0 = o
        k = o[0]
        if k == "param":
            return o[2] == "new_admin" and not under
        if k == "call":
            u = under or o[1].endswith("Api::addr_validate")
            return any(_unvalidated(a, u) for a in o[2])
        if k == "vp":
            return _unvalidated(o[2], under)
        if k in ("agg", "closure"):
            return any(_unvalidated(v, under) for f_, v in o[2])
        if k == "multi":
            return any(_unvalidated(x, under) for x in o[1])
        if k == "upd":
            return _unvalidated(o[1], under) or any(_unvalidated(v, under) for p_, v in o[2])
        if k in ("ok", "err", "some", "discr", "index"):
            return _unvalidated(o[1], under)
        if k in ("field", "variant"):
            return _unvalidated(o[1], under)
        if k == "bound":
            return _unvalidated(o[2], under)
        if k in ("binop",):
            return _unvalidated(o[2], under) or _unvalidated(o[3], under)
        if k in ("unop", "cast"):
            return _unvalidated(o[2], under)
        if k == "mutby":
            return any(_unvalidated(a, under) for a in o[2])
        return False
    ok = False
    for f2, bid2, t2 in q.all_calls(F, "wasm::WasmKeeper::save_contract"):
        if f2.key != key:
            continue
        ch2 = q.record_update(P.call_args(f2, t2, bid2)[3], lambda o: peel(o)[0] == "ok" and peel(peel(o)[1])[0] == "call" and peel(peel(o)[1])[1] == "wasm::Wasm::contract_data")
        if ch2 is not None and "admin" in ch2:
            nv = [ch2["admin"]]
            ok = len(nv) == 1 and contains(nv[0], lambda x: x[0] == "call" and x[1].endswith("Api::addr_validate")) and not _unvalidated(nv[0])
    ctx.ob("C12.R2", key, "new-admin-validated", ok, "the new admin address is stored without passing through addr_validate", fn=f, sample="Some(api.addr_validate(&a)?) | None")
    # callers: UpdateAdmin passes Some(admin), ClearAdmin passes None, both with the message's contract_addr and the sender
    ek = W + "execute_wasm"
    e = ctx.need_fn("C12.R1", ek)
    if e is not None:
        n = 0
        for bid, t in q.calls(e, key):
            n += 1
            a = P.call_args(e, t, bid)
            arms = [c[2][0] for ee, c in q.dominating_conditions(P, e, bid) if c[0] == "variant_in" and len(c[2]) == 1 and is_param(c[1], "msg")]
            arm = arms[0] if arms else "?"
            ok = is_param(a[3], "sender") and just(a[4], lambda x: is_param_field(x, "msg", "contract_addr")) and is_param(a[2], "storage")
            na = peel(a[5])
            if arm == "UpdateAdmin":
                ok = ok and na[0] == "agg" and na[1].endswith("Option::Some") and is_param_field(na[2][0][1], "msg", "admin")
            elif arm == "ClearAdmin":
                ok = ok and na[0] == "agg" and na[1].endswith("Option::None")
            else:
                ok = False
            ctx.ob("C12.R1", ek, "dispatch:%s" % arm, ok, "arm %s calls update_admin(%s)" % (arm, ", ".join(fmt(x)[:40] for x in a[2:])), fn=e,
                   line=t["line"], sample="update_admin(api, storage, sender, &contract_addr, %s)" % ("Some(admin)" if arm == "UpdateAdmin" else "None"))
        ctx.ob("C12.R1", ek, "two-admin-arms", n == 2, "expected UpdateAdmin and ClearAdmin arms, found %d" % n, fn=e, sample="2")


def r_migrate(ctx, cfg, R3="C12.R3", full=True):
    F, P = cfg.facts, cfg.prov
    ob1 = ctx.ob if full else (lambda *a, **k: None)
    key = W + "execute_wasm"
    f = ctx.need_fn("C12.R1" if full else R3, key)
    if f is None:
        return
    cf = cfg_of(f)

    def arm_of(bid):
        arms = [c[2][0] for e, c in q.dominating_conditions(P, f, bid) if c[0] == "variant_in" and len(c[2]) == 1 and is_param(c[1], "msg")]
        return arms[0] if arms else ""

    sc = [(b, t) for b, t in q.calls(f, W + "save_contract") if arm_of(b) == "Migrate"]
    cm = [(b, t) for b, t in q.calls(f, W + "call_migrate") if arm_of(b) == "Migrate"]
    ctx.ob("C12.R1" if full else R3, key, "migrate-shape", len(sc) == 1 and len(cm) == 1, "Migrate arm must have one save_contract and one call_migrate (found %d/%d)" % (len(sc), len(cm)),
           fn=f, sample="1/1")
    if len(sc) != 1 or len(cm) != 1:
        return
    (sb, st), (mb, mt) = sc[0], cm[0]
    sa, ma = P.call_args(f, st, sb), P.call_args(f, mt, mb)
    addr = sa[2]
    for name, bid, t in (("save_contract", sb, st), ("call_migrate", mb, mt)):
        g = _admin_guard(P, f, bid, addr)
        ob1("C12.R1", key, "migrate-only-by-admin:%s" % name, g is not None,
               "%s in the Migrate arm is not dominated by `contract_data(addr).admin == Some(sender)`" % name, fn=f, line=t["line"],
               sample="dominated by admin == Some(sender)")
        if g is not None and name == "save_contract":
            bad = []
            for fe in _failing_edge(P, f, cf, g):
                bad += _writes_after(f, cf, fe)
            ob1("C12.R1", key, "non-admin-migrate-writes-nothing", not bad, "the non-admin path reaches %s" % bad, fn=f, sample="no storage write")
    around = [site for site, val in q.success_return_sites(P, f) if arm_of(site[0]) == "Migrate" and _admin_guard(P, f, site[0], addr) is None]
    ob1("C12.R1", key, "migrate-success-only-by-current-admin", not around,
           "the Migrate arm can produce a success result at block(s) %s without passing `contract_data(addr).admin == Some(sender)`" % sorted(set(b for b, i in around)),
           fn=f, sample="every non-Err result of the arm dominated by the admin guard")
    rec = peel(sa[3])
    chm = q.record_update(sa[3], lambda o: peel(o)[0] == "ok" and peel(peel(o)[1])[0] == "call" and peel(peel(o)[1])[1] == "wasm::Wasm::contract_data")
    ok = chm is not None and set(k for k in chm if not (isinstance(k, tuple) and k[0] == "&mut")) == {"code_id"} and is_param_field(chm["code_id"], "msg", "new_code_id")
    ob1("C12.R2", key, "saves-loaded-record-with-only-code_id-replaced", ok, "Migrate saves %s" % fmt(rec)[:200], fn=f, line=st["line"],
           sample="contract_data with {code_id: new_code_id}")
    ob1("C12.R2", key, "saved-under-looked-up-address", contains(addr, lambda x: x[0] == "call" and x[1].endswith("Api::addr_validate") and
                                                                      contains(x[2][1], lambda y: is_param_field(y, "msg", "contract_addr"))),
           "record saved under %s" % fmt(addr)[:100], fn=f, sample="addr_validate(contract_addr)?")
    # R3: new code id recorded before the migrate entry point runs, on the same address and store
    conds = q.dominating_conditions(P, f, mb)
    ok = any(c[0] == "variant_in" and c[2] in (("Continue",), ("Ok",)) and peel(c[1])[0] == "call" and peel(c[1])[1] == W + "save_contract" for e, c in conds)
    ctx.ob(R3, key, "new-code-recorded-before-migrate-runs", ok, "call_migrate is not dominated by the success of save_contract", fn=f, line=mt["line"],
           sample="call_migrate dominated by Continue(save_contract(..))")
    ctx.ob(R3, key, "migrate-runs-on-same-address-and-store", same_origin(ma[1], addr) and is_param(ma[3], "storage") and is_param(sa[1], "storage"),
           "call_migrate runs on %s, record saved under %s" % (fmt(ma[1])[:60], fmt(addr)[:60]), fn=f, line=mt["line"], sample="same address, same storage")
    ctx.ob(R3, key, "migrate-message-forwarded", just(ma[6], lambda x: is_param_field(x, "msg", "msg")), "migrate message is %s" % fmt(ma[6])[:80], fn=f,
           sample="msg.to_vec()")
