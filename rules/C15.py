"""C15 — staking rewards: decided necessary conditions (DESIGN.md §5 C15)."""
from vlib import q
from vlib.cfg import cfg_of
from vlib.prov import peel, fmt, is_param, contains, alts, leaves, is_param_field, same_origin, deep_peel, just
from rules.C14 import store_calls, STAKES, VINFO, SK, _succ_dom, _arm

LEVEL = "other"
LEVEL_TEXT = (
    "Partial (feature `staking`): decides necessary conditions of the reward property that are visible in the shape of "
    "the code: (R1) update_rewards dominates the first write of stake-influencing state in update_stake, slash and "
    "remove_rewards (the code's own rule); (R2) the query path (get_rewards_internal) and the payout path "
    "(update_rewards) call calculate_rewards with the same argument origins and use the same share/rounding helpers, so "
    "what is shown is computed like what is paid; (R3) withdrawal mints exactly remove_rewards(sender, validator) in the "
    "bonded denomination to get_withdraw_address(sender), once, and remove_rewards zeroes the rewards of the entry it "
    "loaded; (R4) the formula of calculate_rewards has the shape stake*apr*dt/YEAR*(1-commission) with YEAR = 31 536 000. "
    "NOT decided: the linear bound, the rounding slack per withdrawal and independence from block slicing (numeric, "
    "history-dependent)."
    " (R5) The STAKES-entry / staker-set pairing of C14.R1 is re-stated under C15's id: the reward shown is computed from the entry, the reward paid was credited by walking the set."
)
EXPLANATION = LEVEL_TEXT
TRUSTED = ["rustc MIR construction", "cwmt-facts driver", "vlib (dominators, provenance)", "cosmwasm-std Decimal/Uint128 arithmetic"]
ASSUMPTIONS = ["fixed-point arithmetic of Decimal is exact up to its 18 decimals"]

CONFIGS_QUICK = ["all-features", "staking"]
CONFIGS_THOROUGH = ["all-features", "staking", "staking-stargate"]
DK = "staking::DistributionKeeper::"
DEXEC = "<staking::DistributionKeeper as module::Module>::execute"


def check(ctx, cfg):
    if not cfg.has("staking"):
        return
    r1(ctx, cfg)
    r2(ctx, cfg)
    r3(ctx, cfg)
    r4(ctx, cfg)
    r5(ctx, cfg)
    r6(ctx, cfg)
    r7(ctx, cfg)
    r8(ctx, cfg)
    r_overlay(ctx, cfg)
    r_bank(ctx, cfg)


def r_bank(ctx, cfg):
    """premise shared with C09 (the bank moves exactly what it is told to), under this property's id: a withdrawal mints the reward shown with a `BankSudo::Mint` to the withdraw address - and nothing else"""
    from rules import C09
    C09.ledger_premise(ctx, cfg, "C15.R10")


def r_overlay(ctx, cfg):
    """premise shared with C06 (the transaction overlay is faithful), under this property's id: accrued rewards are written and read back inside one transaction (update_rewards, then the withdrawal)"""
    from rules import C06
    C06.overlay_premise(ctx, cfg, "C15.R9")


def r8(ctx, cfg):
    """what update_rewards hands back, when it hands anything back, is the validator's record as it is stored: callers that go on
    with the returned record instead of looking it up again (rules read `update_rewards(.., validator)?` as that lookup:
    C14.vinfo_source) then work on the stored state. Every success payload is the record found under VALIDATOR_INFO[validator] in
    the module's view it was given, and a payload that was changed on the way is the very value saved there before returning."""
    F, P = cfg.facts, cfg.prov
    R = "C15.R8"
    key = SK + "update_rewards"
    f = ctx.need_fn(R, key)
    if f is None:
        return
    from vlib.cfg import cfg_of
    cf = cfg_of(f)
    saves = store_calls(P, f, VINFO, ("save",))

    def strip(o):
        while o[0] == "vp":
            o = o[2]
        return o
    bad = []
    n = 0
    rty = f.locals[0].get("s", "") if f.locals else ""
    if "Result<()," in rty.replace(" ", "").replace("std::result::", ""):
        ctx.ob(R, key, "hands-back-the-stored-record", True, "", fn=f, sample="hands nothing back (%s)" % rty[:60])
        return
    for site, v in q.success_return_sites(P, f):
        o = peel(v)
        if not (o[0] == "agg" and o[1].endswith("Result::Ok") and o[2]):
            bad.append("the result of %s is handed on" % fmt(o)[:60])
            continue
        pay = strip(o[2][0][1])
        if (pay[0] == "const" and pay[1] in ("unit", "zst", "()")) or (pay[0] == "agg" and pay[1] == "tuple" and not pay[2]) or fmt(pay) in ("()", "const ()"):
            continue        # nothing handed back
        n += 1
        base = pay
        while base[0] in ("upd", "vp"):
            base = base[1] if base[0] == "upd" else base[2]
        loaded = contains(base, lambda x: x[0] == "call" and x[1] in ("cw_storage_plus::Map::may_load", "cw_storage_plus::Map::load") and peel(x[2][0]) == VINFO and
                          is_param(x[2][1], "staking_storage") and is_param(x[2][2], "validator")) and \
            not contains(base, lambda x: x[0] == "call" and not (x[1].startswith("cw_storage_plus::Map::") or x[1].rsplit("::", 1)[-1] in (
                "ok_or_else", "ok_or", "expect", "unwrap", "branch", "from_residual")))
        if not loaded:
            bad.append("%s is not the record stored for `validator`" % fmt(pay)[:80])
        elif pay[0] == "upd":
            same = [b for b, t in saves if strip(P.call_args(f, t, b)[3]) == pay and is_param(P.call_args(f, t, b)[1], "staking_storage") and
                    is_param(P.call_args(f, t, b)[2], "validator")]
            if not (same and all(cf.dominates(b, site[0]) for b in same)):
                bad.append("the record is changed after (or without) being saved")
    ctx.ob(R, key, "hands-back-the-stored-record", not bad, "update_rewards: %s" % "; ".join(bad[:2]), fn=f,
           sample="%d record-bearing success results" % n if n else "hands nothing back")


def r6(ctx, cfg):
    """"pays exactly the pending reward shown ... and mints nothing else": shown and paid amounts and the denomination they are
    minted in come from the staking module's own records - every read and write of a staking / distribution item goes to a
    view of that module's namespace, and a helper reached from several places sees the same namespace from all of them (the
    C08.R3 store-discipline obligations for staking.rs under C15's id; a lookup under the wrong namespace silently yields
    the default parameters)"""
    from rules import C08
    C08.r3(ctx, cfg, R="C15.R6", files=("src/staking.rs",), floor=37)


def r5(ctx, cfg):
    """"a successful withdrawal pays exactly the pending reward shown beforehand": what is shown is computed from the
    delegator's STAKES entry, what is paid was credited by walking the validator's staker set - the two agree only while
    "has a STAKES entry" and "is in the staker set" are the same thing, which is the pairing invariant C14.R1 (every
    removal of one paired with the other, on every path), re-stated under C15's id"""
    from rules import C14
    C14.r1(ctx, cfg, R="C15.R5")


def r1(ctx, cfg):
    F, P = cfg.facts, cfg.prov
    R = "C15.R1"
    for key in (SK + "update_stake", SK + "slash", DK + "remove_rewards"):
        f = ctx.need_fn(R, key)
        if f is None:
            continue
        ur = q.calls(f, SK + "update_rewards")
        writes = store_calls(P, f, STAKES, ("save", "remove", "update")) + store_calls(P, f, VINFO, ("save", "remove", "update"))
        reads = store_calls(P, f, STAKES, ("load", "may_load")) + store_calls(P, f, VINFO, ("load", "may_load"))
        ok = len(ur) == 1 and bool(writes) and all(_succ_dom(P, f, b, SK + "update_rewards") for b, t in writes + reads)
        ctx.ob(R, key, "rewards-settled-before-stake-changes", ok,
               "%s reads or writes STAKES / VALIDATOR_INFO before update_rewards(validator) succeeded" % key, fn=f,
               sample="%d accesses, all dominated by Continue(update_rewards)" % len(writes + reads))
        if ur:
            a = P.call_args(f, ur[0][1], ur[0][0])
            ctx.ob(R, key, "settles-the-same-validator", is_param(a[3], "validator") and is_param(a[2], "block"),
                   "update_rewards(%s, %s)" % (fmt(a[2]), fmt(a[3])), fn=f, sample="update_rewards(api, storage, block, validator)")


def _calc_args(P, f):
    cs = q.calls(f, SK + "calculate_rewards")
    if len(cs) != 1:
        return None
    return P.call_args(f, cs[0][1], cs[0][0])


def r2(ctx, cfg):
    F, P = cfg.facts, cfg.prov
    R = "C15.R2"
    qf = ctx.need_fn(R, SK + "get_rewards_internal")
    uf = ctx.need_fn(R, SK + "update_rewards")
    if qf is None or uf is None:
        return
    qa, ua = _calc_args(P, qf), _calc_args(P, uf)
    ok = qa is not None and ua is not None
    ctx.ob(R, "-", "both-paths-call-calculate_rewards-once", ok, "query / payout path do not call calculate_rewards exactly once", sample="1/1")
    if not ok:
        return

    def fld(o, name):
        return contains(o, lambda x: x[0] == "field" and x[2] == name)
    checks = [("now=block.time", lambda a: fld(a[0], "time") and contains(a[0], lambda x: x[0] == "param" and x[2] == "block")),
              ("since=validator_info.last_rewards_calculation", lambda a: fld(a[1], "last_rewards_calculation")),
              ("rate=staking_info.apr", lambda a: fld(a[2], "apr") and contains(a[2], lambda x: x[0] == "call" and x[1] == SK + "get_staking_info")),
              ("commission=validator.commission", lambda a: fld(a[3], "commission")),
              ("stake=validator_info.stake", lambda a: fld(a[4], "stake"))]
    for name, pred in checks:
        ctx.ob(R, "-", "sibling-agreement:" + name, pred(qa) and pred(ua),
               "query path uses %s, payout path uses %s" % (fmt(qa[[c[0] for c in checks].index(name)])[:60], fmt(ua[[c[0] for c in checks].index(name)])[:60]),
               sample=name)
    # the validator info used is the stored one for the same validator on both paths; `since` and `stake` come from the same record
    for f, a, label in ((qf, qa, "query"), (uf, ua, "payout")):
        r1o, r4o = peel(a[1]), peel(a[4])
        ok = r1o[0] == "field" and r4o[0] == "field" and same_origin(r1o[1], r4o[1])
        ctx.ob(R, f.key, "since-and-stake-from-one-record", ok, "%s path takes `since` and `stake` from different records" % label, fn=f, sample="same ValidatorInfo")
    # share_of_rewards(validator_info, new_rewards) on both paths, with the result of calculate_rewards
    for f, label in ((qf, "query"), (uf, "payout")):
        sites = q.lexical_calls(F, f.key, "staking::Shares::share_of_rewards")
        ok = len(sites) == 1
        if ok:
            g, b, t = sites[0]
            a = P.call_args(g, t, b)
            ok = contains(a[2], lambda x: x[0] == "call" and x[1] == SK + "calculate_rewards") and contains(a[1], lambda x: (x[0] == "param" and x[2] == "validator_info") or (x[0] == "call" and x[1] == "cw_storage_plus::Map::may_load"))
        ctx.ob(R, f.key, "share_of_rewards(validator_info, new rewards)", ok, "%s path does not take the delegator's share of the newly calculated rewards" % label, fn=f,
               sample="shares.share_of_rewards(&validator_info, new_rewards)")
    # conversion Decimal -> Uint128 by floor on the shown amount and on the paid amount
    rf = ctx.need_fn(R, DK + "remove_rewards")
    for f, label in ((qf, "shown"), (rf, "paid")):
        if f is None:
            continue
        mf = [(b, t) for b, t in f.calls() if t["callee"]["key"].endswith("Uint128::mul_floor")]
        ok = len(mf) == 1
        if ok:
            a = P.call_args(f, mf[0][1], mf[0][0])
            one = peel(a[0])
            ok = one[0] == "call" and one[1].endswith("Uint128::new") and peel(one[2][0]) == ("const", "int", 1) and contains(a[1], lambda x: x[0] == "field" and x[2] == "rewards")
        ctx.ob(R, f.key, "%s-amount=floor(rewards)" % label, ok, "%s amount is not Uint128::new(1).mul_floor(rewards)" % label, fn=f, sample="Uint128::new(1).mul_floor(shares.rewards [+ share])")
    # the accumulated rewards are part of what is shown: shares.rewards + share
    adds = [(b, t) for b, t in qf.calls() if t["callee"].get("trait") == "std::ops::Add"]
    ok = len(adds) == 1
    if ok:
        a = P.call_args(qf, adds[0][1], adds[0][0])
        ok = is_param_field(a[0], "shares", "rewards") and contains(a[1], lambda x: x[0] == "call" and x[1] == "staking::Shares::share_of_rewards")
    ctx.ob(R, qf.key, "shown=accrued+new-share", ok, "the shown reward is not shares.rewards + share_of_rewards(..)", fn=qf, sample="shares.rewards + shares.share_of_rewards(..)")
    shown_is_total(ctx, cfg, R)
    # payout path: accrual adds the same share to shares.rewards
    from rules import stakes
    ok = False
    for u in stakes.entry_updates(P, F, uf):
        for op, fld, v in u.ops():
            if op.endswith("AddAssign::add_assign") and fld == "rewards" and contains(v, lambda x: x[0] == "call" and x[1] == "staking::Shares::share_of_rewards") and \
                    set(u.changes) == {("&mut", "rewards")}:
                ok = True
        if "rewards" in u.changes and set(u.changes) == {"rewards"} and contains(u.changes["rewards"], lambda x: x[0] == "call" and x[1].endswith("Add::add") and
                                                                                 contains(x, lambda y: y[0] == "call" and y[1] == "staking::Shares::share_of_rewards")):
            ok = True
    ctx.ob(R, uf.key, "accrual+=share", ok, "update_rewards does not accrue shares.rewards += share_of_rewards(..)", fn=uf, sample="shares.rewards += shares.share_of_rewards(..)")
    # last_rewards_calculation advanced to block.time and saved before stakers are updated
    sv = store_calls(P, uf, VINFO, ("save",))
    ok = len(sv) == 1
    if ok:
        a = P.call_args(uf, sv[0][1], sv[0][0])
        rec = a[3]
        while rec[0] == "vp":
            rec = rec[2]
        ok = rec[0] == "upd" and any(p == ("last_rewards_calculation",) and contains(v, lambda x: x[0] == "field" and x[2] == "time" and is_param(x[1], "block")) for p, v in rec[2])
    ctx.ob(R, uf.key, "clock-advanced-to-block.time", ok, "update_rewards does not save last_rewards_calculation = block.time", fn=uf, sample="validator_info.last_rewards_calculation = block.time; save")


def r3(ctx, cfg):
    F, P = cfg.facts, cfg.prov
    R = "C15.R3"
    f = ctx.need_fn(R, DEXEC)
    if f is not None:
        sudo = [(b, t) for b, t in q.calls(f, ("app::CosmosRouter", "sudo")) if _arm(P, f, b) == "WithdrawDelegatorReward"]
        allsudo = q.calls(f, ("app::CosmosRouter", "sudo"))
        ok = len(sudo) == 1 and len(allsudo) == 1 and not q.calls(f, ("app::CosmosRouter", "execute"))
        ctx.ob(R, DEXEC, "exactly-one-mint", ok, "withdrawal must mint exactly once and move nothing else (sudo sites: %d)" % len(allsudo), fn=f, sample="1 router.sudo, 0 router.execute")
        if len(sudo) == 1:
            b, t = sudo[0]
            a = P.call_args(f, t, b)
            m = a[4]
            ok = contains(m, lambda x: x[0] == "agg" and x[1] == "bank::BankSudo::Mint")
            d = "?"
            if ok:
                mint = [x for x in [m] if True]
                found = {}

                def grab(x):
                    if x[0] == "agg" and x[1] == "bank::BankSudo::Mint":
                        found.update(dict(x[2]))
                    return False
                contains(m, grab)
                to, amt = found.get("to_address"), found.get("amount")
                d = "Mint{to: %s, amount: %s}" % (fmt(to)[:80], fmt(amt)[:120])
                ok_to = contains(to, lambda x: x[0] == "call" and x[1] == DK + "get_withdraw_address" and is_param(x[2][1], "sender"))
                def _is_reward(o):
                    o = peel(o)
                    while o[0] == "call" and o[1].endswith(("Uint128::u128", "Uint128::new", "Uint128::from")):
                        o = peel(o[2][0])       # `coin(rewards.u128(), ..)` round trip through the integer
                    return o[0] == "ok" and contains(o, lambda y: y[0] == "call" and y[1] == DK + "remove_rewards")
                # `Coin { amount, denom }` or `coin(amount.u128(), denom)`
                ok_amt = contains(amt, lambda x: (x[0] == "agg" and x[1].startswith("cosmwasm_std::Coin") and _is_reward(dict(x[2])["amount"]) and
                                                  contains(dict(x[2])["denom"], lambda y: y[0] == "field" and y[2] == "bonded_denom")) or
                                  (x[0] == "call" and x[1] == "cosmwasm_std::coin" and len(x[2]) == 2 and _is_reward(x[2][0]) and
                                   contains(x[2][1], lambda y: y[0] == "field" and y[2] == "bonded_denom")))
                ok = ok_to and ok_amt
            ctx.ob(R, DEXEC, "mints(remove_rewards(sender,validator)) to withdraw address in bonded denom", ok, "withdrawal performs %s" % d, fn=f, line=t["line"], sample=d[:200])
            rr = q.calls(f, DK + "remove_rewards")
            ok = len(rr) == 1
            if ok:
                ra = P.call_args(f, rr[0][1], rr[0][0])
                ok = is_param(ra[4], "sender") and just(ra[5], lambda x: is_param_field(x, "msg", "validator")) and is_param(ra[2], "storage") and _succ_dom(P, f, b, DK + "remove_rewards")
            ctx.ob(R, DEXEC, "pending-reward-of(sender, validator)-removed-first", ok, "remove_rewards is not called for (sender, msg.validator) before minting", fn=f,
                   sample="remove_rewards(api, storage, block, &sender, &validator)?")
    f = ctx.need_fn(R, DK + "remove_rewards")
    if f is not None:
        ld = store_calls(P, f, STAKES, ("load",))
        sv = store_calls(P, f, STAKES, ("save",))
        ok = len(ld) == 1 and len(sv) == 1
        if ok:
            la, sa = P.call_args(f, ld[0][1], ld[0][0]), P.call_args(f, sv[0][1], sv[0][0])
            def is_loaded(o):
                o = peel(o)
                return o[0] == "ok" and peel(o[1])[0] == "call" and peel(o[1])[1] == "cw_storage_plus::Map::load" and peel(peel(o[1])[2][0]) == STAKES
            ch = q.record_update(sa[3], is_loaded)
            ok = same_origin(la[2], sa[2]) and ch is not None and list(ch) == ["rewards"] and \
                contains(ch["rewards"], lambda x: x[0] == "call" and x[1].endswith("Decimal::zero"))
            ok = ok and contains(la[2], lambda x: x[0] == "param" and x[2] == "delegator") and contains(la[2], lambda x: x[0] == "param" and x[2] == "validator")
        ctx.ob(R, f.key, "loaded-entry-saved-with-rewards=0-only", ok, "remove_rewards does not save the loaded (delegator, validator) entry with only rewards reset to zero", fn=f,
               sample="shares = load(k); shares.rewards = 0; save(k, shares)")
        ret = P.ret(f)
        ok = contains(ret, lambda x: x[0] == "agg" and x[1].endswith("Result::Ok") and contains(x[2][0][1], lambda y: y[0] == "call" and y[1].endswith("Uint128::mul_floor")))
        ctx.ob(R, f.key, "returns-the-floored-reward", ok, "remove_rewards returns %s" % fmt(ret)[:120], fn=f, sample="Ok(floor(shares.rewards))")
        # the value returned is read before the reset
        mf = [(b, t) for b, t in f.calls() if t["callee"]["key"].endswith("Uint128::mul_floor")]
        zero = [(b, i) for b, i, st in f.stmts() if st["k"] == "assign" and st["dst"]["p"] and st["dst"]["p"][-1].get("name") == "rewards"]
        if not zero and len(mf) == 1:
            # no in-place reset (the cleared record is a new value): the amount must be computed from the loaded rewards
            ma = P.call_args(f, mf[0][1], mf[0][0])
            ok = contains(ma[1], lambda x: x[0] == "field" and x[2] == "rewards" and peel(x[1])[0] == "ok" and peel(peel(x[1])[1])[0] == "call" and
                          peel(peel(x[1])[1])[1] == "cw_storage_plus::Map::load") and not contains(ma[1], lambda x: x[0] == "call" and x[1].endswith("Decimal::zero"))
        else:
            ok = len(mf) == 1 and len(zero) == 1 and cfg_of(f).site_dominates((mf[0][0], "t"), zero[0]) or (len(mf) == 1 and len(zero) == 1 and cfg_of(f).dominates(mf[0][0], zero[0][0]))
        ctx.ob(R, f.key, "reward-read-before-reset", ok, "the reward is read after it was reset", fn=f, sample="floor(..) dominates rewards = 0")
    f = ctx.need_fn(R, DK + "get_withdraw_address")
    if f is not None:
        ld = [(b, t) for b, t in f.calls() if t["callee"]["key"] == "cw_storage_plus::Map::may_load"]
        ok = len(ld) == 1 and is_param(P.call_args(f, ld[0][1], ld[0][0])[2], "delegator_addr")
        ret = P.ret(f)
        # `match stored { Some(a) => a, None => delegator.clone() }`, `stored.unwrap_or_else(|| delegator.clone())`, ..: the
        # returned address is the stored one or the delegator itself
        def _stored(x):
            return x[0] == "some" and contains(x[1], lambda y: y[0] == "call" and y[1] == "cw_storage_plus::Map::may_load")
        def _unwrap_stored(x):
            return x[0] == "call" and x[1] in ("std::option::Option::unwrap_or_else", "std::option::Option::unwrap_or") and x[2] and \
                contains(x[2][0], lambda y: y[0] == "call" and y[1] == "cw_storage_plus::Map::may_load")
        self_alt = contains(ret, lambda x: x[0] == "param" and x[2] == "delegator_addr")
        if not self_alt:
            for g0 in F.lexical(f.key):
                if g0.kind == "closure" and contains(P.ret(g0), lambda x: x[0] == "upvar" and x[1] == "delegator_addr" or (x[0] == "param" and x[2] == "delegator_addr")):
                    self_alt = True
        ok = ok and self_alt and (contains(ret, _stored) or contains(ret, _unwrap_stored))
        ctx.ob(R, f.key, "withdraw-address=stored-or-self", ok, "get_withdraw_address is not `stored address or the delegator itself`", fn=f, sample="WITHDRAW_ADDRESS[delegator] or delegator")


def r4(ctx, cfg):
    F, P = cfg.facts, cfg.prov
    R = "C15.R4"
    key = SK + "calculate_rewards"
    f = ctx.need_fn(R, key)
    if f is None:
        return
    ret = deep_peel(P.ret(f))
    # (the 256-bit result narrowed back: `Decimal::try_from(reward - commission).expect(..)`)
    while ret[0] == "call" and ret[1].rsplit("::", 1)[-1] in ("expect", "unwrap", "try_from", "try_into") and ret[2]:
        ret = deep_peel(ret[2][0])
        while ret[0] in ("ok", "some"):
            ret = deep_peel(ret[1])
    # a shortcut for the factor that makes the whole product zero (`if stake.is_zero() { return Decimal::zero() }`) answers what the
    # formula would: accepted only under exactly that test on one of the formula's own numerator inputs
    zero_under = None
    cases = q.value_cases(P, f, 0)
    zs = [(v, cs) for v, cs, site in cases if peel(v)[0] == "call" and peel(v)[1].endswith("Decimal::zero")]
    rest = [v for v, cs, site in cases if not (peel(v)[0] == "call" and peel(v)[1].endswith("Decimal::zero"))]
    if zs and len(rest) == 1:
        oks = []
        for v, cs in zs:
            tests = [c[1] for e, c in cs if c[0] == "bool" and not q.is_derived(c)]
            oks.append(len(tests) == 1 and tests[0][0] == "is_zero" and tests[0][2] is True and peel(tests[0][1][0])[0] == "param" and
                       peel(tests[0][1][0])[2] in ("stake", "interest_rate"))
        if all(oks):
            ret = deep_peel(rest[0])
            zero_under = True
            while ret[0] == "call" and ret[1].rsplit("::", 1)[-1] in ("expect", "unwrap", "try_from", "try_into") and ret[2]:
                ret = deep_peel(ret[2][0])
                while ret[0] in ("ok", "some"):
                    ret = deep_peel(ret[1])
    c = F.consts.get("staking::YEAR")
    year = 1
    for l in (c or {}).get("lits", []):
        if l.get("ck") == "int":
            year *= l["int"]
    ctx.ob(R, "staking::YEAR", "YEAR=31536000", year == 31536000, "YEAR evaluates to %d" % year, sample="60*60*24*365")

    # normalise the origin tree to a product of factors: numerator set / denominator set, and (1 - commission)
    def widen(o):
        """see through conversions between the 128- and the 256-bit fixed point: `Decimal256::from(x)`, `x.into()`,
        `Decimal::try_from(y).expect(..)` - the same number"""
        o = peel(o)
        while True:
            if o[0] in ("ok", "some"):
                o = peel(o[1])
            elif o[0] == "call" and o[1].rsplit("::", 1)[-1] in ("expect", "unwrap") and o[2]:
                o = peel(o[2][0])
            elif o[0] == "call" and len(o[2]) == 1 and o[1].rsplit("::", 1)[-1] in ("from", "into", "try_from", "try_into") and \
                    ("Decimal" in (o[3] or o[1]) if len(o) > 3 else "Decimal" in o[1]):
                o = peel(o[2][0])
            else:
                return o

    def op(o):
        o = widen(o)
        if o[0] == "call":
            n = o[1]
            for tr, sym in (("std::ops::Mul::mul", "*"), ("std::ops::Div::div", "/"), ("std::ops::Sub::sub", "-"), ("std::ops::Add::add", "+")):
                if n == tr:
                    return sym, o[2]
        return None, None

    def atom(o):
        o = widen(o)
        if o[0] == "param":
            return o[2]
        if o[0] == "item":
            return o[1]
        if o[0] == "call" and o[1].endswith(("Decimal::from_ratio", "Decimal256::from_ratio")):
            return atom(o[2][0])
        if o[0] == "call" and o[1].endswith("Timestamp::seconds"):
            return atom(o[2][0])
        if o[0] == "call" and o[1].endswith("Timestamp::minus_seconds"):
            return "(%s-%s)" % (atom(o[2][0]), atom(o[2][1]))
        if o[0] == "const":
            return repr(o[2])
        return fmt(o)[:40]

    def factors(o):
        """returns (num list, den list) for a pure product/quotient tree"""
        s, args = op(o)
        if s == "*":
            n1, d1 = factors(args[0])
            n2, d2 = factors(args[1])
            return n1 + n2, d1 + d2
        if s == "/":
            n1, d1 = factors(args[0])
            n2, d2 = factors(args[1])
            return n1 + d2, d1 + n2
        return [atom(o)], []
    s, args = op(ret)
    ok = s == "-"
    d = fmt(ret)[:200]
    if ok:
        reward, commission = args
        n, dn = factors(reward)
        d = "reward = (%s) / (%s); result = reward - %s" % (" * ".join(sorted(n)), " * ".join(sorted(dn)), "commission")
        ok = sorted(n) == sorted(["stake", "interest_rate", "(current_time-since)"]) and dn == ["staking::YEAR"]
        s2, a2 = op(commission)
        if ok and s2 == "*":
            n2, d2 = factors(commission)
            ok = sorted(n2) == sorted(["stake", "interest_rate", "(current_time-since)", "validator_commission"]) and d2 == ["staking::YEAR"]
            d += " with commission = reward * validator_commission"
        else:
            ok = False
    ctx.ob(R, key, "formula=stake*apr*dt/YEAR*(1-commission)", ok, "calculate_rewards computes %s" % d, fn=f, sample=d)
    # stake x rate x seconds is formed before the division by YEAR: in the 128-bit Decimal (3.4e20) it overflows once
    # stake x apr x dt reaches that - 1e15 base units (a billion tokens of a coin with six decimals) at 10 % after 39 days.
    # Same shape as defect 10 (share_of_rewards): the products of amounts have to be formed in 256 bits.
    narrow = [t["callee"].get("resolved") or t["callee"]["key"] for g in F.lexical(key) for b, t in g.calls()
              if (t["callee"].get("resolved") or "").startswith("<cosmwasm_std::Decimal as std::ops::Mul<cosmwasm_std::Decimal>>") and
              contains(P.call_args(g, t, b)[0], lambda x: x[0] == "call" and x[1].endswith("from_ratio"))]
    ctx.ob("C15.R7", key, "product-of-amount-rate-and-time-formed-in-256-bits", not narrow,
           "calculate_rewards forms stake x rate x seconds in the 128-bit Decimal (%d products): delegate 1_000_000_000_000_000, advance 365 days, and "
           "query_delegation panics with \"attempt to multiply with overflow\"" % len(narrow), fn=f, sample="Decimal256 intermediates")


def r7(ctx, cfg):
    """the decisions around the reward arithmetic, each in the one direction that keeps the property:
    - update_rewards credits the delegators where time has passed since the last calculation (`last < now`) and the new rewards
      are not zero - never under the inverse of either test;
    - share_of_rewards is zero for a validator without stake and `rewards * self.stake / validator.stake` otherwise
      (the delegator's part of what the validator earned: C15.R4 fixes what the validator earned);
    - the withdraw address: SetWithdrawAddress stores (sender -> validated address), removing the entry exactly when the two
      are equal - "pays ... to the delegator's current withdraw address" reads it back (C15.R3)."""
    from rules import stakes
    F, P = cfg.facts, cfg.prov
    R = "C15.R7"
    key = SK + "update_rewards"
    f = ctx.need_fn(R, key)
    if f is not None:
        ups = stakes.entry_updates(P, F, f)
        bad = []
        for u in ups:
            g = F.fn(u.site[0])
            cs = [c for e, c in q.dominating_conditions(P, g, u.site[1]) if c[0] == "bool" and not q.is_derived(c)]
            zs = [c for c in cs if c[1][0] == "is_zero" and contains(c[1][1][0], lambda x: x[0] == "call" and x[1] == SK + "calculate_rewards")]
            ts = [c for c in cs if c[1][0] == "lt" and any(contains(x, lambda y: y[0] == "field" and y[2] == "last_rewards_calculation") for x in c[1][1])]
            if any(c[1][2] is not False for c in zs):
                bad.append("credited only when the new rewards are zero")
            for c in ts:
                a0, a1 = c[1][1]
                last_first = contains(a0, lambda y: y[0] == "field" and y[2] == "last_rewards_calculation")
                # lt(last, now) must hold  /  lt(now, last) must not
                if (last_first and c[1][2] is not True) or (not last_first and c[1][2] is not False):
                    bad.append("credited only when no time has passed since the last calculation")
        ctx.ob(R, key, "credits-when-time-passed-and-rewards-nonzero", bool(ups) and not bad, "update_rewards: %s" % (bad or "no crediting of STAKES entries found"), fn=f,
               sample="last < now, !new_rewards.is_zero()")
    key = "staking::Shares::share_of_rewards"
    f = ctx.need_fn(R, key)
    if f is not None:
        ok = True
        d = []
        n_share = 0
        for val, conds, site in q.value_cases(P, f, 0):
            v = peel(val)
            zc = [c[1][2] for e, c in conds if c[0] == "bool" and c[1][0] == "is_zero" and
                  contains(c[1][1][0], lambda x: x[0] == "field" and x[2] == "stake" and is_param(x[1], "validator_info"))]
            if v[0] == "call" and v[1] == "cosmwasm_std::Decimal::zero":
                ok = ok and zc == [True]
                d.append("zero under is_zero=%s" % zc)
            else:
                n_share += 1
                def is_field(o, p, fld):
                    o = peel(o)
                    return o[0] == "field" and o[2] == fld and is_param(o[1], p)
                # (the quotient may be computed in a wider type and converted back: `Decimal::try_from(a256 * b256 / t256).expect(..)`)
                def unwide(o):
                    o = peel(o)
                    while o[0] in ("ok", "some") or (o[0] == "call" and o[1].rsplit("::", 1)[-1] in ("expect", "unwrap", "try_from", "try_into", "from", "into") and len(o[2]) >= 1 and
                                                      (o[1].rsplit("::", 1)[-1] in ("expect", "unwrap") or len(o[2]) == 1)):
                        o = peel(o[1] if o[0] in ("ok", "some") else o[2][0])
                    return o
                v = unwide(v)
                def is_total(o):
                    o = unwide(o)
                    if o[0] == "call" and o[1].endswith("from_ratio") and len(o[2]) == 2 and peel(o[2][1]) == ("const", "int", 1):
                        o = peel(o[2][0])
                    return o[0] == "field" and o[2] == "stake" and is_param(o[1], "validator_info")
                prod = unwide(v[2][0]) if v[0] == "call" and v[1].endswith("Div::div") else ("?",)
                shape = v[0] == "call" and v[1].endswith("Div::div") and is_total(v[2][1]) and prod[0] == "call" and prod[1].endswith("Mul::mul") and \
                    {("r" if is_param(unwide(x), "rewards") else "s" if is_field(unwide(x), "self", "stake") else "?") for x in prod[2]} == {"r", "s"}
                ok = ok and shape and zc in ([False], [])
                d.append("%s under is_zero=%s" % (fmt(v)[:80], zc))
                # rewards and stake are both amounts: their product leaves the range of the 128-bit `Decimal` (3.4e20) for ordinary
                # sizes - 1e12 staked (a million tokens of a coin with six decimals) once 3.4e8 of rewards have accrued, after
                # less than two days at 10 % - although the share itself is small; the product has to be formed in 256 bits
                if shape:
                    wide = "Decimal256" in (prod[3] or "") if len(prod) > 3 else False
                    ctx.ob(R, key, "product-of-two-amounts-formed-in-256-bits", wide,
                           "share_of_rewards multiplies rewards by stake in %s: the product overflows (a panic in every staking operation and query of "
                           "that validator from then on) as soon as rewards x stake reaches 3.4e20" % (prod[3] if len(prod) > 3 else "?"), fn=f,
                           sample="Decimal256::from(rewards) * Decimal256::from(self.stake) / total")
        n_zero = sum(1 for x in d if x.startswith("zero under"))
        ctx.ob(R, key, "share = rewards * own stake / validator stake (zero without stake)", ok and n_share == 1 and n_zero >= 1, "share_of_rewards yields %s" % d, fn=f,
               sample="rewards * self.stake / validator_info.stake")
    key = DK + "set_withdraw_address"
    f = ctx.need_fn(R, key)
    if f is not None:
        WA = ("item", "staking::WITHDRAW_ADDRESS")
        def eqs(b):
            return [c[1][2] for e, c in q.dominating_conditions(P, f, b) if c[0] == "bool" and c[1][0] == "eq" and
                    {("d" if is_param(x, "delegator_addr") else "w" if is_param(x, "withdraw_addr") else "?") for x in c[1][1]} == {"d", "w"}]
        rm = store_calls(P, f, WA, ("remove",))
        sv = store_calls(P, f, WA, ("save",))
        ok = len(rm) == 1 and len(sv) == 1
        if ok:
            ra, sa = P.call_args(f, rm[0][1], rm[0][0]), P.call_args(f, sv[0][1], sv[0][0])
            ok = eqs(rm[0][0]) == [True] and eqs(sv[0][0]) == [False] and is_param(ra[2], "delegator_addr") and is_param(sa[2], "delegator_addr") and is_param(sa[3], "withdraw_addr")
        ctx.ob(R, key, "stores(delegator -> withdraw address), removes when equal", ok, "set_withdraw_address does not save (delegator_addr -> withdraw_addr) / remove under equality",
               fn=f, sample="if d == w { remove(d) } else { save(d, w) }")
        def is_the_save(v):
            # the save's own verdict handed on (`WITHDRAW_ADDRESS.save(..).map_err(Into::into)`): Ok exactly when the save succeeded
            v = peel(v)
            while v[0] == "call" and v[1] in ("std::result::Result::map_err",) and v[2]:
                v = peel(v[2][0])
            return v[0] == "call" and v[1] == "cw_storage_plus::Map::save" and peel(v[2][0]) == WA
        ok = all(_succ_dom(P, f, site[0], "cw_storage_plus::Map::save") or eqs(site[0]) == [True] or is_the_save(v) for site, v in q.success_return_sites(P, f))
        ctx.ob(R, key, "succeeds-only-after-storing", ok, "set_withdraw_address can succeed without having stored the address", fn=f, sample="Ok after save / remove")
    ek = "<staking::DistributionKeeper as module::Module>::execute"
    e = ctx.need_fn(R, ek)
    if e is not None:
        cs = [(b, t) for b, t in q.calls(e, DK + "set_withdraw_address")]
        ok = len(cs) == 1
        if ok:
            a = P.call_args(e, cs[0][1], cs[0][0])
            ok = is_param(a[0], "storage") and is_param(a[1], "sender") and \
                contains(a[2], lambda x: x[0] == "call" and x[1].endswith("Api::addr_validate") and contains(x[2][1], lambda y: is_param_field(y, "msg", "address"))) and \
                _arm(P, e, cs[0][0]) == "SetWithdrawAddress"
            out = q.successes_outside(P, e, lambda conds: q.succeeded(conds, DK + "set_withdraw_address"), only=lambda b: _arm(P, e, b) == "SetWithdrawAddress")
            ok = ok and not out
        ctx.ob(R, ek, "SetWithdrawAddress-stores(sender -> validated address)", ok, "the SetWithdrawAddress arm does not store (sender -> addr_validate(address)) before succeeding",
               fn=e, sample="set_withdraw_address(storage, &sender, &api.addr_validate(&address)?)?")


def shown_is_total(ctx, cfg, R="C15.R2"):
    """every answer of get_rewards_internal is the whole outstanding reward: floor(shares.rewards + share of what accrued since
    the last calculation), in the bonded denomination - no path answers with something else (a "nothing new accrued" shortcut
    that answers zero forgets what was credited before)"""
    F, P = cfg.facts, cfg.prov
    key = SK + "get_rewards_internal"
    f = F.fn(key)
    if f is None:
        return
    bad = []
    n = 0
    for site, v in q.success_return_sites(P, f):
        n += 1
        o = peel(v)
        pay = peel(o[2][0][1]) if o[0] == "agg" and o[1].endswith("Result::Ok") and o[2] else o
        amt = den = None
        if pay[0] == "agg" and pay[1].startswith("cosmwasm_std::Coin"):
            d = dict(pay[2])
            amt, den = d.get("amount"), d.get("denom")
        elif pay[0] == "call" and pay[1] in ("cosmwasm_std::coin", "cosmwasm_std::Coin::new") and len(pay[2]) == 2:
            amt, den = pay[2]
        ok = amt is not None
        if ok:
            a = peel(amt)
            while a[0] == "call" and len(a[2]) == 1 and a[1].rsplit("::", 1)[-1] in ("u128", "into", "from"):
                a = peel(a[2][0])
            ok = a[0] == "call" and a[1].endswith("Uint128::mul_floor") and len(a[2]) == 2
            if ok:
                sm = peel(a[2][1])
                ok = sm[0] == "call" and sm[1].endswith("Add::add") and \
                    {("acc" if is_param_field(x, "shares", "rewards") else "new" if contains(x, lambda y: y[0] == "call" and y[1] == "staking::Shares::share_of_rewards") else "?")
                     for x in sm[2]} == {"acc", "new"}
            ok = ok and contains(den, lambda x: x[0] == "field" and x[2] == "bonded_denom")
        if not ok:
            bad.append(fmt(pay)[:100])
    ctx.ob(R, key, "every-answer-is-accrued-plus-new-share", n >= 1 and not bad, "get_rewards_internal can answer %s" % bad, fn=f,
           sample="Coin { bonded_denom, floor(shares.rewards + share_of_rewards(..)) } on every path")
