"""C05 — contracts see the true caller, own address, current block and attached funds (DESIGN.md §5 C05)."""
from vlib import q
from vlib.cfg import cfg_of
from vlib.prov import (peel, fmt, is_param, contains, alts, deep_peel, same_origin, leaves, is_param_field,
                       root_param, just)

LEVEL = "other"
EXPLANATION = (
    "Static analysis of MIR facts: provenance of the MessageInfo aggregates (sender, funds) at the execute and "
    "instantiate dispatch sites and agreement of `funds` with the amount moved by the preceding `send`; dominance of "
    "the transfer over the contract call with `?`-propagation; crate-wide provenance of every `&BlockInfo` argument "
    "(only the enclosing function's block parameter or App.block); Env construction; one address per call in "
    "with_storage / query_smart (with_storage_readonly spliced) and at the five dispatch sites. Rollback of the transfer follows from C01/C02."
    " (R3 addition) set_block / update_block make their argument / the action's result the current block on every path (the store dominates every return, in place or on a stored-back copy). (R5) the sub-message sender chain of C03.R3 and (R6) the sub-message cache of C02.R1 are re-stated under C05's id (emitting contract as sender; attached funds returned when an absorbed call fails)."
)
TRUSTED = ["rustc MIR construction", "cwmt-facts driver", "vlib (provenance, dominators)", "C01.R2, C02.R1 (rollback)",
           "C09 (overdraft fails)"]
ASSUMPTIONS = ["Api::addr_validate returns the address it validated (C18)"]

W = "wasm::WasmKeeper::"
SEND = W + "send"
BLOCK_FILES = ("src/app.rs", "src/wasm.rs", "src/bank.rs", "src/staking.rs")


def check(ctx, cfg):
    r1_r2(ctx, cfg)
    r2_send(ctx, cfg)
    r3(ctx, cfg)
    r4(ctx, cfg)
    r5(ctx, cfg)
    r6(ctx, cfg)
    r7(ctx, cfg)
    r_overlay(ctx, cfg)


def r_overlay(ctx, cfg):
    """premise shared with C06 (the transaction overlay is faithful), under this property's id: the funds moved before an entry point runs are visible to it only through the pending writes of the transaction"""
    from rules import C06
    C06.overlay_premise(ctx, cfg, "C05.R8")


def r7(ctx, cfg):
    """"attaching more than the sender owns fails without running the contract": the transfer that precedes the call debits the
    sender before it credits the recipient - otherwise a contract attaching funds to a call to itself is credited first and the
    debit of the inflated balance succeeds (the C09.R1 obligations on BankKeeper::send under C05's id)"""
    from rules import C09
    C09.ledger_premise(ctx, cfg, "C05.R7")


def r5(ctx, cfg):
    """"the sender it is told is ... the emitting contract for every sub-message": the C03.R3 obligations (execute_submsg hands
    its own `contract` to the router as sender, process_response hands its own contract on, reply runs on that contract)
    under C05's id"""
    from rules import C03
    C03.r3(ctx, cfg, R="C05.R5")


def r6(ctx, cfg):
    """"attached funds ... are returned if the call fails": a failing call made as a sub-message may be absorbed by the
    dispatcher's reply, so the transfer must have happened in a cache layer that is dropped with the failure - the C02.R1
    obligations (every sub-message is dispatched inside `transactional` on a cache of the parent's storage) under C05's id"""
    from rules import C02
    C02.r1(ctx, cfg, R="C05.R6")


def _msg_funds(o, fkey):
    # (the list as it is: one that was filtered, sorted or de-duplicated in place on the way is another list)
    if fkey.endswith("execute_wasm"):
        return just(o, lambda x: is_param_field(x, "msg", "funds"))
    return just(o, lambda x: is_param(x, "funds"))


def r1_r2(ctx, cfg, R1="C05.R1", R2="C05.R2"):
    F, P = cfg.facts, cfg.prov
    for fkey, callx, addr_idx in ((W + "execute_wasm", W + "call_execute", 3),
                                  (W + "process_wasm_msg_instantiate", W + "call_instantiate", 1)):
        f = ctx.need_fn(R1, fkey)
        if f is None:
            continue
        cf = cfg_of(f)
        aggs = [(b, i, st) for b, i, st in f.stmts()
                if st["k"] == "assign" and st["rv"].get("k") == "aggregate" and st["rv"].get("adt") == "cosmwasm_std::MessageInfo"]
        ctx.ob(R1, fkey, "one-MessageInfo", len(aggs) == 1, "expected one MessageInfo aggregate, found %d" % len(aggs), fn=f,
               sample="1")
        sends = q.calls(f, SEND)
        calls = q.calls(f, callx)
        ctx.ob(R2, fkey, "one-send-one-call", len(sends) == 1 and len(calls) == 1,
               "expected one send and one %s, found %d/%d" % (callx, len(sends), len(calls)), fn=f, sample="1/1")
        if len(aggs) != 1 or len(sends) != 1 or len(calls) != 1:
            continue
        b, i, st = aggs[0]
        o = P.rvalue(f, st["rv"], (b, i))
        d = dict(o[2])
        ctx.ob(R1, fkey, "MessageInfo.sender=sender", is_param(d["sender"], "sender"),
               "MessageInfo.sender is %s, expected the message's actual sender" % fmt(d["sender"]), fn=f, line=st["line"],
               sample=fmt(d["sender"]))
        ctx.ob(R1, fkey, "MessageInfo.funds=msg.funds", _msg_funds(d["funds"], fkey),
               "MessageInfo.funds is %s, expected the funds attached to the message" % fmt(d["funds"]), fn=f, line=st["line"],
               sample=fmt(d["funds"]))
        sb, stt = sends[0]
        sargs = P.call_args(f, stt, sb)
        ctx.ob(R1, fkey, "funds-shown=funds-moved", same_origin(sargs[7], d["funds"]),
               "funds moved (%s) differ from funds shown (%s)" % (fmt(sargs[7]), fmt(d["funds"])), fn=f, line=stt["line"],
               sample="send amount == MessageInfo.funds == %s" % fmt(d["funds"]))
        cb, ct = calls[0]
        cargs = P.call_args(f, ct, cb)
        # the MessageInfo handed to the contract is that aggregate
        info_idx = 6
        info = peel(cargs[info_idx])
        ctx.ob(R1, fkey, "call-receives-that-MessageInfo", info[0] == "agg" and info[1].startswith("cosmwasm_std::MessageInfo"),
               "%s receives %s as info" % (callx, fmt(info)[:100]), fn=f, line=ct["line"], sample="info = MessageInfo{..}")
        # R2: send(sender -> callee address) dominates the call and is `?`-propagated
        ctx.ob(R2, fkey, "send-from-sender", is_param(sargs[5], "sender"), "send debits %s" % fmt(sargs[5]), fn=f,
               line=stt["line"], sample=fmt(sargs[5]))
        ctx.ob(R2, fkey, "send-to-callee", same_origin(sargs[6], cargs[addr_idx]),
               "send credits %s but the callee is %s" % (fmt(sargs[6])[:80], fmt(cargs[addr_idx])[:80]), fn=f, line=stt["line"],
               sample="recipient == callee address")
        ctx.ob(R2, fkey, "send-on-same-storage", is_param(sargs[2], "storage") and is_param(cargs[2 if addr_idx == 3 else 3], "storage"),
               "send/call do not share the storage parameter", fn=f, line=stt["line"], sample="both on param storage")
        conds = q.dominating_conditions(P, f, cb)
        ok = any(c[0] == "variant_in" and c[2] in (("Continue",), ("Ok",)) and peel(c[1])[0] == "call" and peel(c[1])[1] == SEND
                 for e, c in conds)
        ctx.ob(R2, fkey, "funds-moved-before-call", ok,
               "%s is not dominated by the success edge of `self.send(..)?`" % callx, fn=f, line=ct["line"],
               sample="call dominated by Continue(send(..))")


def r2_send(ctx, cfg, R="C05.R2"):
    F, P = cfg.facts, cfg.prov
    f = ctx.need_fn(R, SEND)
    if f is None:
        return
    ex = q.calls(f, ("app::CosmosRouter", "execute"))
    ctx.ob(R, SEND, "one-router.execute", len(ex) == 1, "expected one router.execute in send, found %d" % len(ex), fn=f,
           sample="1")
    for bid, t in ex:
        a = P.call_args(f, t, bid)
        ctx.ob(R, SEND, "bank-send-sender", is_param(a[4], "sender"), "bank send sender is %s" % fmt(a[4]), fn=f,
               line=t["line"], sample=fmt(a[4]))
        ctx.ob(R, SEND, "bank-send-storage", is_param(a[2], "storage"), "bank send storage is %s" % fmt(a[2]), fn=f,
               line=t["line"], sample=fmt(a[2]))
        m = peel(a[5])
        ok = m[0] == "agg" and m[1] == "cosmwasm_std::BankMsg::Send"
        if ok:
            d = dict(m[2])
            ok = is_param(d["to_address"], "recipient") and is_param(d["amount"], "amount")
        else:
            # BankMsg::Send{..}.into(): CosmosMsg::Bank wrapper
            ok = contains(m, lambda x: x[0] == "agg" and x[1] == "cosmwasm_std::BankMsg::Send" and
                          is_param(dict(x[2])["to_address"], "recipient") and is_param(dict(x[2])["amount"], "amount"))
        ctx.ob(R, SEND, "BankMsg::Send{recipient, amount}", ok, "message sent is %s" % fmt(m)[:160], fn=f, line=t["line"],
               sample="BankMsg::Send{to_address: recipient, amount: amount}")
        # result propagated: returned Ok payload / error
        # (`let r = router.execute(..)?; Ok(r)` and the tail call `router.execute(..)` both qualify)
        ok = q.error_propagates(P, f, bid)
        ctx.ob(R, SEND, "transfer-error-propagates", ok, "send does not propagate the bank error", fn=f, sample="router.execute(..)? / returned as it is")
        # skipped only when there is nothing to send
        conds = q.dominating_conditions(P, f, bid)
        ok = q.has_cond(conds, "is_empty", pol=False, arg_pred=lambda args: is_param(args[0], "amount"))
        others = [c for e, c in conds if c[0] == "bool" and not q.is_derived(c) and not (c[1][0] == "is_empty")]
        ctx.ob(R, SEND, "skipped-only-for-empty-funds", ok and not others,
               "router.execute in send is guarded by %s" % [c for e, c in conds], fn=f, line=t["line"],
               sample="guard: !amount.is_empty()")


def _block_ok(o, F, g):
    """origin is a &BlockInfo parameter of the function (or of a lexical parent) or App.block"""
    for x in alts(o):
        b = x
        while b[0] == "upd":
            b = peel(b[1])
        if b[0] == "param":
            continue
        if b[0] == "field" and b[2] == "block" and is_param(b[1], "self"):
            continue
        # RouterQuerier carries the block it was created with (checked in r3: RouterQuerier::new)
        if b[0] == "field" and b[2] == "block_info" and is_param(b[1], "self") and g.key.startswith("<app::RouterQuerier as"):
            continue
        if b[0] == "bound":  # closure parameter of type &BlockInfo handed in by a higher-order callee
            continue
        return False
    return True


def r3(ctx, cfg):
    F, P = cfg.facts, cfg.prov
    R = "C05.R3"
    n = 0
    for f in F.user_fns():
        if f.file not in BLOCK_FILES:
            continue
        for bid, t in f.calls():
            c = t["callee"]
            for i, ty in enumerate(c.get("inputs", [])):
                if ty.get("ref") == "shared" and ty.get("pointee") == "cosmwasm_std::BlockInfo" and i < len(t["args"]):
                    n += 1
                    o = P.operand(f, t["args"][i], (bid, "t"))
                    ok = _block_ok(o, F, f)
                    root = root_param(o)
                    if ok and root is not None:
                        # must be a parameter whose type is &BlockInfo / BlockInfo or App (self.block)
                        pass
                    ctx.ob(R, f.key, "block-arg:%s#%d" % (c["key"], i), ok,
                           "block passed to %s is %s: not the caller's own block" % (c["key"], fmt(o)[:100]), fn=f,
                           line=t["line"], sample=fmt(o)[:60])
    ctx.floor(R, "&BlockInfo arguments", n, 25)
    # no BlockInfo is fabricated in the dispatch files (aggregate construction) outside of tests/next_block
    for f in F.user_fns():
        if f.file not in ("src/wasm.rs", "src/bank.rs", "src/staking.rs"):
            continue
        for bid, i, st in f.stmts():
            rv = st.get("rv", {})
            if st["k"] == "assign" and rv.get("k") == "aggregate" and rv.get("adt") == "cosmwasm_std::BlockInfo":
                ctx.fail(R, f.key, "fabricated-BlockInfo", "a BlockInfo is constructed in %s" % f.key, fn=f, line=st["line"])
    # "the simulator's current block": what set_block / update_block are given becomes App.block on every path (an early
    # return in front of the assignment - "the chain did not move" - leaves contracts with a stale chain id)
    def block_field_writes(fn):
        out = []
        for b2, i2, st2 in fn.stmts():
            if st2["k"] == "assign" and [e["k"] for e in st2["dst"]["p"]][:2] == ["deref", "field"] and \
                    st2["dst"]["p"][1].get("name") == "block" and len(st2["dst"]["p"]) == 2:
                base = peel(P.local(fn, st2["dst"]["l"], (b2, i2)))
                while base[0] == "upd":
                    base = peel(base[1])
                if is_param(base, "self"):       # (`self` itself or the reborrow a spliced helper received)
                    out.append((b2, i2, st2))
        return out
    key = "app::App::set_block"
    f = ctx.need_fn(R, key)
    if f is not None:
        cf = cfg_of(f)
        ws = [(b2, P.rvalue(f, st2["rv"], (b2, i2))) for b2, i2, st2 in block_field_writes(f)]
        ok = any(is_param(v, "block") and all(cf.must_pass(b2, r) for r in cf.return_blocks()) for b2, v in ws) and all(is_param(v, "block") for b2, v in ws)
        ctx.ob(R, key, "argument-becomes-the-current-block-on-every-path", ok,
               "set_block does not store its argument as App.block on every path (writes: %s)" % [fmt(v)[:40] for b2, v in ws], fn=f,
               sample="self.block = block dominates every return")
    key = "app::App::update_block"
    f = ctx.need_fn(R, key)
    if f is not None:
        cf = cfg_of(f)
        calls = [(b2, t2) for b2, t2 in f.calls() if t2["callee"].get("trait") in ("std::ops::Fn", "std::ops::FnMut", "std::ops::FnOnce") and
                 is_param(P.call_args(f, t2, b2)[0], "action")]
        ok = len(calls) == 1
        d = "%d action calls" % len(calls)
        if ok:
            ab, at = calls[0]
            tup = peel(P.call_args(f, at, ab)[1])
            tgt = peel(tup[2][0][1]) if tup[0] == "agg" and len(tup[2]) == 1 else ("?",)
            while tgt[0] == "upd":
                tgt = peel(tgt[1])
            every = all(cf.must_pass(ab, r) for r in cf.return_blocks())
            d = "action(%s)" % fmt(tgt)[:60]
            raw = tup[2][0][1] if tup[0] == "agg" and len(tup[2]) == 1 else ("?",)
            copied = contains(raw, lambda x: x[0] == "vp" and x[1] in ("clone", "to_owned"))
            if tgt[0] == "field" and tgt[2] == "block" and is_param(tgt[1], "self") and not copied:
                # in place: action(&mut self.block)
                ok = every and not block_field_writes(f)
            else:
                # on a copy of the current block that is then stored: every return passes `self.block = <that copy, mutated by action>`
                ws = [(b2, P.rvalue(f, st2["rv"], (b2, i2))) for b2, i2, st2 in block_field_writes(f)]

                def is_mutated_copy(v):
                    return contains(v, lambda x: x[0] == "mutby" and x[3] == (f.key, ab)) and \
                        contains(v, lambda x: x[0] == "field" and x[2] == "block" and is_param(x[1], "self"))
                ok = every and bool(ws) and all(is_mutated_copy(v) for b2, v in ws) and \
                    any(all(cf.must_pass(b2, r) for r in cf.return_blocks()) for b2, v in ws)
                d += "; writes %s" % [fmt(v)[:50] for b2, v in ws]
        ctx.ob(R, key, "action-result-becomes-the-current-block-on-every-path", ok,
               "update_block does not apply `action` to the current block and keep the result on every path (%s)" % d, fn=f,
               sample="action(&mut self.block) dominates every return")
    key = "app::RouterQuerier::new"
    f = ctx.need_fn(R, key)
    if f is not None:
        ret = peel(P.ret(f))
        ok = ret[0] == "agg" and is_param(dict(ret[2]).get("block_info", ("unknown", "")), "block_info")
        ctx.ob(R, key, "RouterQuerier.block_info=argument", ok, "RouterQuerier::new builds %s" % fmt(ret)[:120], fn=f,
               sample="block_info: block_info")
    # get_env: a private constructor-like helper; what matters - the Env every contract call receives carries this call's
    # block and address - is decided where the Env is used (C05.R4 `action(handler, deps, env)`, which looks through the
    # helper), so the helper itself is optional: checked when it exists, nothing is lost when it was inlined by hand
    key = W + "get_env"
    f = F.fn(key)
    if f is not None:
        envs = [(b, i, st) for b, i, st in f.stmts()
                if st["k"] == "assign" and st["rv"].get("k") == "aggregate" and st["rv"].get("adt") == "cosmwasm_std::Env"]
        ok = len(envs) == 1
        d = "no Env aggregate"
        if ok:
            b, i, st = envs[0]
            o = P.rvalue(f, st["rv"], (b, i))
            dd = dict(o[2])
            blk = dd["block"]
            ci = peel(dd["contract"])
            addr = dict(ci[2]).get("address") if ci[0] == "agg" else None
            ok = is_param(blk, "block") and addr is not None and is_param(addr, "address")
            d = "Env{block: %s, contract.address: %s}" % (fmt(blk), fmt(addr) if addr else "?")
        ctx.ob(R, key, "Env(block=param block, address=param address)", ok, "get_env builds %s" % d, fn=f, sample=d)
    # App hands out its own block: every App method passing a block uses self.block (covered above); set_block stores the argument
    key = "app::App::set_block"
    f = ctx.need_fn(R, key)
    if f is not None:
        ws = [(b, i, st) for b, i, st in f.stmts() if st["k"] == "assign" and st["dst"]["p"] and
              st["dst"]["p"][-1].get("name") == "block" and st["dst"]["p"][-1].get("of") == "app::App"]
        ok = len(ws) == 1 and is_param(P.rvalue(f, ws[0][2]["rv"], (ws[0][0], ws[0][1])), "block")
        ctx.ob(R, key, "set_block-stores-argument", ok, "set_block does not store its argument into App.block", fn=f,
               sample="self.block = block")


def r4(ctx, cfg, R="C05.R4"):
    F, P = cfg.facts, cfg.prov
    # (with_storage_readonly has one caller, query_smart, and is always spliced into it - vlib/inline.py ALWAYS_INLINE - so
    #  that the read-only obligations read the same whether the helper is kept or inlined by hand)
    for key, cs in ((W + "with_storage", "wasm::Wasm::contract_storage_mut"),
                    (W + "query_smart", "wasm::Wasm::contract_storage")):
        f = ctx.need_fn(R, key)
        if f is None:
            continue
        n = 0
        for g, bid, t in q.lexical_calls(F, key, lambda c: c["key"] in (cs, "wasm::Wasm::contract_data")):
            a = P.call_args(g, t, bid)
            n += 1
            ctx.ob(R, key, "%s-uses-address" % t["callee"]["name"], is_param(a[2], "address"),
                   "%s is keyed by %s, expected the call's address" % (t["callee"]["key"], fmt(a[2])), fn=g, line=t["line"],
                   sample=fmt(a[2]))
        ctx.ob(R, key, "lookup+storage+env", n == 2, "expected contract_data and %s keyed by the address (found %d)" % (cs, n), fn=f,
               sample="contract_data(address), %s(address)" % cs.rsplit("::", 1)[1])
        # handler comes from the stored code id of that contract
        cc = q.lexical_calls(F, key, W + "contract_code")
        ok = len(cc) == 1
        if ok:
            g, bid, t = cc[0]
            a = peel(P.call_args(g, t, bid)[1])
            ok = a[0] == "field" and a[2] == "code_id" and contains(a[1], lambda x: x[0] == "call" and x[1] == "wasm::Wasm::contract_data")
        ctx.ob(R, key, "handler-from-stored-code_id", ok, "handler is not resolved from the contract's stored code id", fn=f,
               sample="contract_code(contract_data(address).code_id)")
        # Env and Deps are what the action receives
        if key == W + "query_smart":
            # (what the contract's `query` receives, whether it is called in place or in a closure handed to a wrapper)
            once = [(g, bid, t) for g in F.lexical(key) for bid, t in g.calls() if t["callee"]["key"] == "contracts::Contract::query"]
        else:
            once = q.lexical_calls(F, key, ("std::ops::FnOnce", "call_once"))
        ok = len(once) == 1
        if ok:
            g, bid, t = once[0]
            if key == W + "query_smart":
                tup = ("agg", "tuple", tuple((str(i), v) for i, v in enumerate(P.call_args(g, t, bid)[:3])))
            else:
                tup = peel(P.call_args(g, t, bid)[1])
            ok = tup[0] == "agg" and len(tup[2]) == 3
            if ok:
                h, deps, env = [peel(v) for _, v in tup[2]]
                # the Env the contract sees: this call's block and this call's address (whether built by a helper such as
                # get_env - constructor-like functions are expanded by the provenance engine - or in place)
                ok = env[0] == "agg" and env[1].startswith("cosmwasm_std::Env") and deps[0] == "agg" and \
                    (contains(h, lambda x: x[0] == "call" and x[1] == W + "contract_code"))
                if ok:
                    ed = dict(env[2])
                    ci = peel(ed.get("contract", ("?",)))
                    ok = is_param(ed.get("block", ("?",)), "block") and ci[0] == "agg" and is_param(dict(ci[2]).get("address", ("?",)), "address")
        ctx.ob(R, key, "action(handler, deps, env)", ok, "action is not invoked with (handler, deps, env) built here", fn=f,
               sample="action(contract_code(..), Deps{..}, Env{block, contract: address})")
    r4_dispatch(ctx, cfg, R)


def r4_dispatch(ctx, cfg, R="C05.R4"):
    """dispatch sites: address given to call_X == contract given to process_response (whose sub-messages are sent as that contract)"""
    F, P = cfg.facts, cfg.prov
    from rules.C04 import DISPATCH, ADDR_ARG
    PR = W + "process_response"
    for fkey, callx, method, literal, _ in DISPATCH:
        f = ctx.need_fn(R, fkey)
        if f is None:
            continue
        for bid, t in q.calls(f, callx):
            a = P.call_args(f, t, bid)
            addr = a[ADDR_ARG[callx]]
            prs = [(b2, t2) for b2, t2 in q.calls(f, PR) if cfg_of(f).dominates(bid, b2)]
            ok = bool(prs) and all(same_origin(P.call_args(f, t2, b2)[5], addr) for b2, t2 in prs)
            ctx.ob(R, fkey, "%s-address==process_response-contract" % method, ok,
                   "sub-messages of %s are processed as a different contract than the callee" % method, fn=f, line=t["line"],
                   sample="callee == %s" % fmt(addr)[:60])
            # the address is the validated contract_addr of the message or the registered address
            ao = peel(addr)
            if method in ("execute", "migrate"):
                ok = ao[0] == "ok" and contains(ao[1], lambda x: x[0] == "call" and x[1].endswith("Api::addr_validate") and
                                                contains(x[2][1], lambda y: is_param_field(y, "msg", "contract_addr")))
            elif method == "instantiate":
                ok = ao[0] == "ok" and peel(ao[1])[0] == "call" and peel(ao[1])[1] == W + "register_contract"
            elif method == "sudo":
                ok = is_param_field(ao, "msg", "contract_addr")
            else:
                ok = is_param(ao, "contract")
            ctx.ob(R, fkey, "%s-callee-is-message-target" % method, ok, "callee address is %s" % fmt(ao)[:120], fn=f,
                   line=t["line"], sample=fmt(ao)[:80])
