"""C13 — malformed contract responses are rejected before any effect is kept (DESIGN.md §5 C13)."""
from vlib import q
from vlib.cfg import cfg_of
from vlib.prov import peel, fmt, is_param, contains, alts, deep_peel, same_origin, is_param_field

LEVEL = "other"
EXPLANATION = (
    "Static analysis of MIR facts: each of the five call_* wrappers passes the Response produced by with_storage "
    "through verify_response and returns only its Ok payload; Contract entry points are invoked nowhere else (C08.R4); "
    "verify_attributes rejects exactly keys that are empty or start with '_' after trim and never inspects values; "
    "verify_response applies it to the response's attributes and to every event's attributes, rejects event types "
    "shorter than 2 after trim, and returns its argument unchanged; the error leaves through `?` inside code covered by "
    "C01.R2/C02.R1 (same rollback as any contract error)."
)
TRUSTED = ["rustc MIR construction", "cwmt-facts driver", "vlib (dominators, provenance)", "std str::trim / starts_with / is_empty",
           "C01.R2, C02.R1 (rollback of the failing call)"]
ASSUMPTIONS = ["Unicode definition of trim is std's"]

W = "wasm::WasmKeeper::"
CALLS = ["call_execute", "call_instantiate", "call_reply", "call_sudo", "call_migrate"]


def check(ctx, cfg):
    r1(ctx, cfg)
    r2_attrs(ctx, cfg)
    r2_resp(ctx, cfg)
    r5(ctx, cfg)


def r5(ctx, cfg):
    """premise shared with C17: the response that is validated, and whose events surface, is the one the contract returned -
    nothing is filtered out of it before `verify_response` sees it (`customize_response`, C17.R4 under C13's id)"""
    from rules import C17
    C17.response_lift(ctx, cfg, "C13.R5")


def r1(ctx, cfg):
    F, P = cfg.facts, cfg.prov
    R = "C13.R1"
    for name in CALLS:
        key = W + name
        f = ctx.need_fn(R, key)
        if f is None:
            continue
        # "makes that call fail, with the same rollback as any other contract error ... before any effect is kept": with_storage
        # keeps the contract's writes as soon as its action answers Ok (its own `transactional`), so the response has to be
        # validated *inside* that action - `with_storage(.., |c, deps, env| verify_response(c.execute(..)?))`.  Validating the
        # result of with_storage rejects the call after its writes were committed: under an enclosing transaction that is
        # rolled back anyway, but `call_execute` on a plain store, or a module that catches the error, keeps them.
        ws = q.calls(f, W + "with_storage")
        ok = len(ws) == 1
        ctx.ob(R, key, "shape", ok, "%s must run with_storage once (found %d)" % (name, len(ws)), fn=f, sample="1")
        if not ok:
            continue
        ret = peel(P.ret(f))
        rest = [peel(o) for o in alts(ret) if not (peel(o)[0] == "call" and peel(o)[1].endswith("FromResidual::from_residual"))]
        vals = q.success_payloads(P, f)
        handed_on = len(rest) == 1 and rest[0][0] == "call" and rest[0][1] == W + "with_storage"
        rewrapped = bool(vals) and all(peel(v)[0] == "ok" and peel(peel(v)[1])[0] == "call" and peel(peel(v)[1])[1] == W + "with_storage" for v in vals)
        ctx.ob(R, key, "only-validated-response-returned", handed_on or rewrapped,
               "%s returns %s: the response is not the one validated inside with_storage%s" % (
                   name, fmt(ret)[:120], " (verify_response runs on with_storage's result: after the contract's writes were committed)"
                   if any(contains(o, lambda x: x[0] == "call" and x[1] == W + "verify_response") for o in rest) else ""), fn=f,
               sample="returns with_storage(.., |c, deps, env| verify_response(c.%s(..)?))" % name.replace("call_", ""))
        a = P.call_args(f, ws[0][1], ws[0][0])
        clo = peel(a[-1])
        g = F.fn(clo[1]) if clo[0] == "closure" else None
        ok = g is not None
        d = "the action handed to with_storage is %s" % fmt(clo)[:80]
        if ok:
            gv = q.success_payloads(P, g)
            def validated(v):
                v = peel(v)
                if v[0] == "ok":
                    v = peel(v[1])
                if not (v[0] == "call" and v[1] == W + "verify_response" and len(v[2]) == 1):
                    return False
                r = peel(v[2][0])
                c = peel(r[1]) if r[0] == "ok" else ("?",)
                return c[0] == "call" and c[1] == "contracts::Contract::" + name.replace("call_", "")
            # (`c.execute(..).and_then(Self::verify_response)` is the same answer: the error handed on, or the verified response)
            gv = [x for v in gv for x in alts(peel(v)) if not (peel(x)[0] == "call" and peel(x)[1].endswith("FromResidual::from_residual"))]
            ok = bool(gv) and all(validated(v) for v in gv)
            d = "the action answers %s" % [fmt(peel(v))[:100] for v in gv]
        ctx.ob(R, key, "response-is-validated", ok, "%s: every answer of the action must be verify_response(<entry point's response>)" % d, fn=f,
               sample="action = |c, deps, env| verify_response(c.%s(..)?)" % name.replace("call_", ""))
    # ... and with_storage keeps the writes only when its action answered Ok: its result is `transactional(storage, |cache, _| action(..))`
    wsf = ctx.need_fn(R, W + "with_storage")
    if wsf is not None:
        tr = [(g, b, t) for g in F.lexical(W + "with_storage") for b, t in g.calls() if t["callee"]["key"] == "transactions::transactional"]
        ok = len(tr) == 1
        d = "%d transactional calls" % len(tr)
        if ok:
            g0, b0, t0 = tr[0]
            clo = peel(P.call_args(g0, t0, b0)[1])
            h = F.fn(clo[1]) if clo[0] == "closure" else None
            hv = q.success_payloads(P, h) if h is not None else []
            def is_action(v):
                v = peel(v)
                if v[0] == "ok":
                    v = peel(v[1])
                return v[0] == "call" and v[1].startswith("std::ops::Fn") and is_param(v[2][0], "action")
            rs = [peel(o) for o in alts(peel(P.ret(wsf))) if not (peel(o)[0] == "call" and peel(o)[1].endswith("FromResidual::from_residual"))]
            ok = h is not None and bool(hv) and all(is_action(v) for v in hv) and len(rs) == 1 and rs[0][0] == "call" and rs[0][1] == "transactions::transactional"
            d = "the transaction's closure answers %s; with_storage answers %s" % ([fmt(peel(v))[:60] for v in hv], [fmt(r)[:60] for r in rs])
        ctx.ob(R, W + "with_storage", "writes-kept-iff-the-action-answers-Ok", ok, "with_storage: %s" % d, fn=wsf,
               sample="transactional(storage, |cache, _| action(handler, deps, env))")
    # with_storage is called only from the call_* wrappers; verify_response is total over its callers
    callers = sorted({f.key.split("::{closure")[0] for f, b, t in q.all_calls(F, W + "with_storage")})
    ctx.ob(R, W + "with_storage", "callers-are-the-validating-wrappers", callers == sorted(W + n for n in CALLS),
           "with_storage is called from %s" % callers, sample=str([c.rsplit("::", 1)[1] for c in callers]))
    # build_app_response consumes only validated responses (its `response` argument comes from a call_* result)
    n = 0
    for f, bid, t in q.all_calls(F, W + "build_app_response"):
        n += 1
        a = peel(P.call_args(f, t, bid)[3])
        ok = a[0] == "ok" and peel(a[1])[0] == "call" and peel(a[1])[1] in [W + c for c in CALLS]
        ctx.ob(R, f.key, "build_app_response-gets-validated-response", ok, "build_app_response consumes %s" % fmt(a)[:100], fn=f, line=t["line"],
               sample="ok(%s(..))" % (peel(a[1])[1].rsplit("::", 1)[1] if ok else "?"))
    ctx.floor(R, "build_app_response sites", n, 5)


def _trimmed(o, pred):
    o = peel(o)
    return o[0] == "call" and o[1].endswith("str::trim") and pred(o[2][0]) if o[0] == "call" and o[1].rsplit("::", 1)[1] == "trim" else False


def _is_trim_of(o, field):
    """o = <attr>.<field>.trim()  (attr is the iterated element)"""
    o = peel(o)
    if o[0] != "call" or o[1].rsplit("::", 1)[1] != "trim":
        return False
    return contains(o[2][0], lambda x: x[0] == "field" and x[2] == field)


def _is_event_elem(o):
    """an element of response.events (whatever adapter-free way it is iterated)"""
    o = peel(o)
    if o[0] != "bound" or o[1] != "elem":
        return False
    src = peel(o[2])
    return src[0] == "field" and src[2] == "events" and is_param(src[1], "response")


def r2_attrs(ctx, cfg):
    F, P = cfg.facts, cfg.prov
    R = "C13.R2"
    key = W + "verify_attributes"
    f = ctx.need_fn(R, key)
    if f is None:
        return
    cf = cfg_of(f)
    # guards: every switch on a bool in the loop body
    guards = []
    for bid in f.order:
        t = f.blocks[bid]["term"]
        if t["k"] == "switch" and t.get("discr_ty") == "bool" and "discr_of" not in t:
            o = P.operand(f, t["discr"], (bid, "t"))
            pred, args, pol = q.norm_cond(o, True)
            if pred in ("const",):
                continue
            guards.append((bid, t, pred, args, pol))
    user_guards = [g for g in guards if g[2] not in ("opaque",) or True]
    kinds = []
    for bid, t, pred, args, pol in guards:
        err_edge = None
        ok_edge = None
        for e, v, n, tb in cf.switch_edges(bid):
            val = True if v is None else (v != 0)
            # the edge on which `pred(args)` holds (taking polarity into account)
            holds = (val == pol)
            if holds:
                err_edge = e
            else:
                ok_edge = e
        # classify
        if pred == "is_empty" and len(args) == 1 and _is_trim_of(args[0], "key"):
            kind = "empty-key"
        elif pred == "eq" and len(args) == 2 and any(_is_trim_of(a, "key") for a in args) and any(peel(a) in (("const", "str", ""), ("const", "tyconst", '""')) for a in args):
            kind = "empty-key"       # `match key.trim() { "" => .. }` / `key.trim() == ""`
        elif pred == "starts_with" and len(args) == 2 and _is_trim_of(args[0], "key") and peel(args[1]) == ("const", "int", ord("_")):
            kind = "underscore-key"
        elif pred in ("is_empty", "starts_with", "eq", "lt", "contains", "ends_with") and any(contains(a, lambda x: x[0] == "field" and x[2] == "value") for a in args):
            kind = "value-inspected"
        else:
            kind = "other:" + pred
        kinds.append(kind)
        if kind in ("empty-key", "underscore-key"):
            # on the edge where the predicate holds every path ends in Err, no path returns Ok
            rets_ok = False
            reach = cf.reachable_from(err_edge)
            for b2, i2, st in f.stmts():
                if b2 in reach and st["k"] == "assign" and st["dst"]["l"] == 0 and not st["dst"]["p"]:
                    o = peel(P.rvalue(f, st["rv"], (b2, i2)))
                    if o[0] == "agg" and o[1].endswith("Result::Ok"):
                        # reachable Ok via loop back edge is possible only if the error edge rejoins the loop
                        rets_ok = True
            # the error edge must not flow back into the loop: it must not reach the loop's next()
            nxt = [b for b, tt in f.calls() if tt["callee"]["name"] == "next"]
            back = any(b in reach for b in nxt)
            ctx.ob(R, key, "%s-rejected" % kind, not back and not rets_ok, "a key that is %s does not lead to an error on every path" % kind, fn=f,
                   line=t["line"], sample="predicate true -> Err, never back to the loop")
    ctx.ob(R, key, "guards=exactly{empty-key,underscore-key}", sorted(k for k in kinds) == ["empty-key", "underscore-key"],
           "verify_attributes branches on %s; expected exactly the empty-key and underscore-key guards (values must not be inspected)" % kinds, fn=f,
           sample=str(kinds))
    # iterates the argument, no element skipped
    from rules.C01 import DENY_ADAPTERS
    bad = [t["callee"]["key"] for b, t in f.calls() if t["callee"]["name"] in DENY_ADAPTERS and not t["callee"]["local"]]
    loops = q.loops_of(P, f)
    from vlib.prov import strip_adapters
    ok = len(loops) == 1 and is_param(strip_adapters(loops[0][1]), "attributes") and not bad and not (set(q.chain_adapters(loops[0][1])) & DENY_ADAPTERS)
    ctx.ob(R, key, "every-attribute-checked", ok, "verify_attributes does not iterate all of its argument (adapters: %s)" % bad, fn=f, sample="for attr in attributes")
    # Ok(()) only after the loop finished (dominated by next()==None)
    for b2, i2, st in f.stmts():
        if st["k"] == "assign" and st["dst"]["l"] == 0 and not st["dst"]["p"]:
            o = peel(P.rvalue(f, st["rv"], (b2, i2)))
            if o[0] == "agg" and o[1].endswith("Result::Ok"):
                conds = q.dominating_conditions(P, f, b2)
                ok = any(c[0] == "variant_in" and c[2] == ("None",) and peel(c[1])[0] == "call" and peel(c[1])[1].endswith("Iterator::next") for e, c in conds)
                # (a desugared try_for_each yields `Ok(())` from its exhausted arm: same condition)
                ctx.ob(R, key, "Ok-only-after-all-attributes", ok, "Ok(()) is returned before the iteration finished", fn=f, line=st["line"],
                       sample="Ok(()) dominated by next()==None")


def r2_resp(ctx, cfg):
    F, P = cfg.facts, cfg.prov
    R = "C13.R2"
    key = W + "verify_response"
    f = ctx.need_fn(R, key)
    if f is None:
        return
    cf = cfg_of(f)
    va = q.calls(f, W + "verify_attributes")
    ctx.ob(R, key, "two-verify_attributes-sites", len(va) == 2, "expected verify_attributes on the response and on each event (found %d)" % len(va), fn=f, sample="2")
    seen = set()
    for bid, t in va:
        a = peel(P.call_args(f, t, bid)[0])
        if a[0] == "field" and a[2] == "attributes" and is_param(a[1], "response"):
            seen.add("response")
            # on every path
            ok = all(cf.must_pass(bid, r) for r in cf.return_blocks() if _returns_ok(P, f, r))
            ctx.ob(R, key, "response-attributes-always-checked", ok, "an Ok return is reachable without checking the response attributes", fn=f, line=t["line"],
                   sample="dominates every Ok return")
        elif a[0] == "field" and a[2] == "attributes" and _is_event_elem(a[1]):
            seen.add("events")
        # result is propagated
        conds_after = None
    ctx.ob(R, key, "checks-response-and-event-attributes", seen == {"response", "events"}, "verify_attributes is applied to %s" % sorted(seen), fn=f,
           sample="response.attributes and event.attributes for event in response.events")
    from vlib.uses import dropped_results
    ctx.ob(R, key, "verification-errors-propagate", not dropped_results(f), "a verification result is dropped: %s" % [w for b, t, w in dropped_results(f)], fn=f,
           sample="all `?`-propagated")
    # each verify_attributes result gates progress: its error edges lead only to error returns - never on to the next
    # event, never to the Ok return (`?`, `if let Err(e) = .. { return Err(e) }`, try_for_each over a helper: one shape
    # after vlib/inline.py A8-A10)
    for idx, (bid, t) in enumerate(va):
        a0 = peel(P.call_args(f, t, bid)[0])
        which = "response" if (a0[0] == "field" and is_param(a0[1], "response")) else "event"
        ef = q.error_fate(P, f, bid)
        ok = (bool(ef["edges"]) and not ef["continues"] and not ef["ok_reachable"]) or (not ef["edges"] and ef["returned_directly"])
        ctx.ob(R, key, "failed-attribute-check-never-reaches-Ok@%s" % which, ok,
               "a failed verify_attributes can still reach the Ok return or the next event (error edges %d, back to the loop %s, Ok reachable %s)" % (
                   len(ef["edges"]), ef["continues"], ef["ok_reachable"]), fn=f, line=t["line"], sample="error edges only reach error returns")
    # event type length: exactly the trimmed types of length 0 and 1 are rejected - as `len < 2`, `!(len >= 2)`, or a
    # `match len { 0 | 1 => Err, _ => .. }`
    def is_ty_len(o):
        o = peel(o)
        return o[0] == "call" and o[1].endswith("len") and _is_trim_of(o[2][0], "ty")
    nxt = [b for b, tt in f.calls() if tt["callee"]["name"] == "next"]
    found = []
    other_guards = []
    for g0 in q.guards(P, f):
        gb, pred, args, te, fe = g0
        if pred == "lt" and len(args) == 2 and is_ty_len(args[0]) and peel(args[1]) == ("const", "int", 2):
            found.append(("lt2", [te]))
        elif pred in ("opaque", "const"):
            continue
        elif not any(contains(x, lambda y: y[0] == "call" and y[1].endswith("Iterator::next")) or contains(x, lambda y: y[0] == "bound") for x in args):
            continue
        else:
            other_guards.append((pred, [fmt(x)[:40] for x in args]))
    for sb in f.order:
        tt = f.blocks[sb]["term"]
        if tt["k"] == "switch" and "discr_of" not in tt and tt.get("discr_ty") != "bool" and len(tt["targets"]) > 1:
            o = P.operand(f, tt["discr"], (sb, "t"))
            if is_ty_len(o):
                vals = sorted(v for v, bb, n in tt["targets"])
                edges = [e for e, v, n, tb in cf.switch_edges(sb) if v is not None]
                found.append(("match%s" % vals, edges if vals == [0, 1] else []))
    ok = len(found) == 1 and bool(found[0][1])
    if ok:
        for e in found[0][1]:
            reach = cf.reachable_from(e)
            ok = ok and not any(b in reach for b in nxt) and q.only_errors_from(P, f, e)
    d = [x[0] for x in found] + other_guards
    ctx.ob(R, key, "event-type-shorter-than-2-rejected", ok and not other_guards, "verify_response guards are %s; expected exactly `ty.trim().len() < 2` -> Err" % d, fn=f,
           sample="ty.trim().len() < 2 -> Err")
    # returns the response unchanged
    n = 0
    for b2, i2, st in f.stmts():
        if st["k"] == "assign" and st["dst"]["l"] == 0 and not st["dst"]["p"]:
            o = peel(P.rvalue(f, st["rv"], (b2, i2)))
            if o[0] == "agg" and o[1].endswith("Result::Ok"):
                n += 1
                pay = o[2][0][1]
                from vlib.prov import peel as _p
                raw = pay
                while raw[0] == "vp":
                    raw = raw[2]
                ctx.ob(R, key, "accepted-response-returned-unchanged", raw[0] == "param" and raw[2] == "response",
                       "verify_response returns %s" % fmt(pay)[:100], fn=f, line=st["line"], sample="Ok(response)")
    ctx.ob(R, key, "one-Ok-return", n == 1, "expected one Ok return, found %d" % n, fn=f, sample="1")


def _returns_ok(P, f, rblock):
    return True


def _ok_site_reachable(P, f, cf, edge):
    reach = cf.reachable_from(edge)
    for b2, i2, st in f.stmts():
        if b2 in reach and st["k"] == "assign" and st["dst"]["l"] == 0 and not st["dst"]["p"]:
            o = peel(P.rvalue(f, st["rv"], (b2, i2)))
            if o[0] == "agg" and o[1].endswith("Result::Ok"):
                return True
    return False
