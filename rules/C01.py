"""C01 — top-level transactions are atomic, in order (DESIGN.md §5 C01)."""
from vlib import q
from vlib.cfg import cfg_of
from vlib.prov import peel, alts, fmt, leaves, contains, deep_peel, is_param, project
from vlib.uses import dropped_results

LEVEL = "other"
EXPLANATION = (
    "Static analysis of the type-checked program (MIR facts from a rustc_private driver): entry-point inventory of "
    "`impl App`, storage hand-off of every transactional entry point to `transactional` (provenance of every "
    "`&mut dyn Storage` argument), commit-only-on-Ok obligations inside `transactional` (dominance + provenance), "
    "order/arity of execute_multi (iterator-adapter deny list + provenance), the Executor helper funnel, absence of "
    "interior mutability in default components, and the dropped-Result rule. Decides the code-shape clauses for all "
    "inputs; user-supplied Storage/modules are opaque."
)
TRUSTED = ["rustc type/borrow checker and MIR construction (mir-opt-level=0)", "cwmt-facts driver rendering of MIR",
           "vlib analysis library (dominators, provenance)", "cosmwasm-std Storage contract"]
ASSUMPTIONS = ["user-supplied Storage and module implementations honour their trait contracts",
               "a panic aborts the test (no property about state after unwinding)"]

APP = "app::App"
TRANSACTIONAL = "transactions::transactional"

ENTRY_CLASSES = {
    # transactional message entry points
    "execute_multi": "transactional", "wasm_sudo": "transactional", "sudo": "transactional",
    # wrapper: <App as Executor>::execute -> execute_multi only
    "execute": "wrapper",
    # code registry: no storage reachable
    "store_code": "code-registry", "store_code_with_creator": "code-registry", "store_code_with_id": "code-registry",
    "duplicate_code": "code-registry",
    # documented raw accessors, not message entry points
    "storage_mut": "raw-accessor", "contract_storage_mut": "raw-accessor", "prefixed_storage_mut": "raw-accessor",
    "prefixed_multilevel_storage_mut": "raw-accessor", "init_modules": "raw-accessor",
    # block update: only Staking::process_queue, unwrapped (C14 covers it)
    "set_block": "block-update", "update_block": "block-update",
}

DENY_ADAPTERS = {"rev", "sort", "sort_by", "sort_by_key", "sort_unstable", "sort_unstable_by", "sort_unstable_by_key",
                 "reverse", "filter", "filter_map", "skip", "skip_while", "take", "take_while", "step_by", "chain",
                 "zip", "swap", "swap_remove", "pop", "dedup", "dedup_by", "dedup_by_key", "retain", "retain_mut",
                 "rposition", "rfold", "rfind", "next_back", "nth", "nth_back", "last", "truncate", "drain", "remove",
                 "split_off", "rotate_left", "rotate_right", "cycle", "flat_map", "flatten", "peekable", "scan",
                 "map_while", "min", "max", "min_by", "max_by", "min_by_key", "max_by_key", "unzip", "partition"}

NO_INTERIOR_MUT = ["app::App", "app::Router", "wasm::WasmKeeper", "bank::BankKeeper", "module::FailingModule",
                   "module::AcceptingModule", "stargate::StargateFailing", "stargate::StargateAccepting",
                   "transactions::StorageTransaction", "transactions::RepLog", "app_builder::AppBuilder",
                   "wasm::CodeData", "addresses::SimpleAddressGenerator", "checksums::SimpleChecksumGenerator",
                   "api::MockApiBech"]
NO_INTERIOR_MUT_STAKING = ["staking::StakeKeeper", "staking::DistributionKeeper"]
# named exception: opt-in recording module, not chain state
INTERIOR_MUT_ALLOWED = {"custom_handler::CachingCustomHandler", "custom_handler::CachingCustomHandlerState"}

A7_FILES = ("src/app.rs", "src/wasm.rs", "src/bank.rs", "src/staking.rs", "src/contracts.rs", "src/transactions.rs",
            "src/executor.rs", "src/module.rs", "src/stargate.rs", "src/app_builder.rs")


def check(ctx, cfg):
    r1_inventory(ctx, cfg)
    r2_handoff(ctx, cfg)
    r3_commit(ctx, cfg)
    r4_order(ctx, cfg)
    r5_funnel(ctx, cfg)
    r6_no_hidden_state(ctx, cfg)
    r7_errors(ctx, cfg)
    r8_layering(ctx, cfg)
    r9_overlay(ctx, cfg)
    r10_reply_errors(ctx, cfg)


def r10_reply_errors(ctx, cfg):
    """"a top-level call either applies its entire message tree or nothing": an error anywhere in the tree reaches the top - in
    particular the error of a reply (whose own messages have already been written to the enclosing cache by then) is never
    swallowed by execute_submsg, and an entry point that was not supplied is an error (C02.R6 under C01's id)"""
    from rules import C02
    C02.r6(ctx, cfg, R="C01.R10")


def r9_overlay(ctx, cfg):
    """premise shared with C06: "each message sees its predecessors' effects" needs the transaction view that the next
    message reads through to answer from the pending writes of the same transaction: dual recording of every write,
    point lookups consult the overlay first, range reads merge the overlay over the same window in the same order"""
    from rules import C06
    C06.r2(ctx, cfg, R="C01.R9")
    C06.r4(ctx, cfg, R="C01.R9")
    C06.r5(ctx, cfg, R="C01.R9")
    C06.r6(ctx, cfg, R="C01.R9")


def transactional_entries(cfg):
    """the names of App's transactional entry points: the classified ones, and every other `&mut self` method of App that wraps
    App.storage in `transactional` (it is then held to the obligations of C01.R2 like the classified ones)"""
    F = cfg.facts
    names = [n for n, c in ENTRY_CLASSES.items() if c == "transactional" and not _delegates_to_entry(cfg, "app::App::" + n)]
    for imp in F.impls:
        if imp["self_name"] != APP or imp["derived"]:
            continue
        for m in imp["methods"]:
            ins = m["inputs"]
            if m["name"] in ENTRY_CLASSES or not ins or ins[0].get("ref") != "mut" or not ins[0].get("pointee", "").startswith("app::App<"):
                continue
            if q.lexical_calls(F, m["key"], TRANSACTIONAL) and m["name"] not in names:
                names.append(m["name"])
    return names


def _delegates_to_entry(cfg, key):
    """a classified transactional entry point written as a wrapper of another one (`wasm_sudo` building its message and calling
    `self.sudo(msg.into())`): it opens no transaction of its own, reaches chain state only by handing `self` to a classified
    entry point, and answers with that call's verdict - it is then as atomic as the entry it calls"""
    F, P = cfg.facts, cfg.prov
    f = F.fn(key)
    if f is None or q.lexical_calls(F, key, TRANSACTIONAL) or not _touches_no_chain_state(cfg, key):
        return False
    sites = [(b, t) for b, t in f.calls() if t["callee"]["key"].startswith("app::App::") and ENTRY_CLASSES.get(t["callee"]["name"]) == "transactional" and
             t["callee"]["key"] != key and is_param(P.call_args(f, t, b)[0], "self")]
    if len(sites) != 1:
        return False
    b, t = sites[0]
    rets = [peel(v) for site, v in q.success_return_sites(P, f)]
    return q.error_propagates(P, f, b) and bool(rets) and all(
        contains(v, lambda x: x[0] == "call" and x[1] == t["callee"]["key"]) for v in rets)


def _well_formed_boundary(cfg, caller):
    """a transaction boundary outside App: `transactional(base, ..)` over a store the caller was handed (a `&mut dyn Storage`
    parameter), with the verdict of the transaction propagated - such a boundary can only add atomicity (commit happens
    inside `transactional`, iff Ok: C01.R3)"""
    F, P = cfg.facts, cfg.prov
    f = F.fn(caller)
    if f is None:
        return False
    sites = [(g, b, t) for g, b, t in q.lexical_calls(F, caller, TRANSACTIONAL)]
    if not sites:
        return False
    for g, b, t in sites:
        base = peel(P.call_args(g, t, b)[0])
        if g.key != caller or base[0] != "param" or not q.is_storage_mut_ty(f.locals[base[1]]):
            return False
        if not q.error_propagates(P, g, b):
            return False
    return True


def r8_layering(ctx, cfg):
    """who may open, commit or bypass a transaction"""
    F = cfg.facts
    R = "C01.R8"
    auto = {"app::App::" + n for n in transactional_entries(cfg)} | ({EXECUTOR_EXECUTE} if executor_execute_is_entry(cfg) else set())
    q.who_may_call(ctx, R, F, TRANSACTIONAL, {"app::App::execute_multi", "app::App::wasm_sudo", "app::App::sudo", "wasm::WasmKeeper::execute_submsg",
                                              "wasm::WasmKeeper::with_storage"} | auto, "a new transaction boundary needs a decision",
                   accept=lambda c: _well_formed_boundary(cfg, c))
    q.who_may_call(ctx, R, F, "transactions::RepLog::commit", {TRANSACTIONAL}, "only `transactional` may replay a log onto its base")
    q.who_may_call(ctx, R, F, "transactions::StorageTransaction::new", {TRANSACTIONAL}, "caches are created by `transactional` only")
    q.who_may_call(ctx, R, F, "transactions::StorageTransaction::prepare", {TRANSACTIONAL}, "caches are consumed by `transactional` only")
    q.who_may_call(ctx, R, F, "transactions::Op::apply", {"transactions::RepLog::commit"}, "ops are applied by commit only")


# ------------------------------------------------------------------------- R1
def r1_inventory(ctx, cfg):
    F = cfg.facts
    n = 0
    seen = set()
    for imp in F.impls:
        if imp["self_name"] != APP or imp["derived"]:
            continue
        for m in imp["methods"]:
            ins = m["inputs"]
            if not ins or ins[0].get("ref") != "mut" or not ins[0].get("pointee", "").startswith("app::App<"):
                continue
            n += 1
            cls = ENTRY_CLASSES.get(m["name"])
            seen.add(m["name"])
            if cls is None and m["name"] in transactional_entries(cfg):
                cls = "auto:transactional (held to C01.R2)"
            if cls is None and _touches_no_chain_state(cfg, m["key"]):
                # a new `&mut self` method that reaches neither App.storage nor App.router mutably (e.g. a setter of
                # the block or the api) cannot change chain state: no classification needed
                cls = "auto:no-chain-state-of-its-own"
            ctx.ob("C01.R1", m["key"], "classified", cls is not None,
                   "`&mut self` method %s of App reaches App.storage / App.router and is not classified "
                   "(a new way to change chain state needs a decision)" % m["name"],
                   fn=F.fn(m["key"]), sample="class=%s" % cls)
    ctx.floor("C01.R1", "&mut self methods of App", n, 15)
    for name, cls in ENTRY_CLASSES.items():
        if cls == "transactional":
            ctx.ob("C01.R1", "app::App::" + name, "entry-exists", name in seen,
                   "transactional entry point App::%s not found" % name, sample="present")
    # wrapper: <App as Executor>::execute calls execute_multi and nothing else on self
    key = "<app::App as executor::Executor>::execute"
    f = ctx.need_fn("C01.R1", key)
    if f is not None:
        P = cfg.prov
        self_calls = []
        for g in F.lexical(key):
            for bid, t in g.calls():
                args = P.call_args(g, t)
                if args and is_param(args[0], "self") and not t["callee"].get("trait", "").startswith("std::"):
                    self_calls.append(t["callee"]["key"])
        ctx.ob("C01.R1", key, "wrapper-only-execute_multi", self_calls == ["app::App::execute_multi"] or (not self_calls and executor_execute_is_entry(cfg)),
               "Executor::execute for App must only call execute_multi on self, found %s" % self_calls, fn=f,
               sample="calls on self: %s" % self_calls)
    # code-registry methods: no storage-typed argument in any call they make, and no use of App.storage
    for name, cls in ENTRY_CLASSES.items():
        if cls != "code-registry":
            continue
        key = "app::App::" + name
        f = ctx.need_fn("C01.R1", key)
        if f is None:
            continue
        bad = []
        for g in F.lexical(key):
            for bid, t in g.calls():
                for ty in t["callee"].get("inputs", []):
                    if q.is_storage_ty(ty):
                        bad.append(t["callee"]["key"])
            for bid, i, st in g.stmts():
                if _mentions_field(st, "storage", APP):
                    bad.append("uses App.storage")
        ctx.ob("C01.R1", key, "no-storage-reachable", not bad,
               "code-registry method touches storage: %s" % bad, fn=f, sample="no storage-typed callee parameter")
    # block update methods: calls on self.router limited to Staking::process_queue
    for name in ("set_block", "update_block"):
        key = "app::App::" + name
        f = ctx.need_fn("C01.R1", key)
        if f is None:
            continue
        st_calls = []
        for g in F.lexical(key):
            for bid, t in g.calls():
                if any(q.is_storage_ty(ty) for ty in t["callee"].get("inputs", [])):
                    st_calls.append(t["callee"]["key"])
        ok = all(k.endswith("Staking::process_queue") for k in st_calls) and len(st_calls) == 1
        ctx.ob("C01.R1", key, "only-process_queue", ok,
               "block update may hand storage only to Staking::process_queue, found %s" % st_calls, fn=f,
               sample="storage handed to %s" % st_calls)


def _touches_no_chain_state(cfg, key, _depth=0):
    """the method (with its closures) never names App.storage or App.router, hands `self` to nobody and passes no
    storage-typed argument to any callee"""
    F, P = cfg.facts, cfg.prov
    f = F.fn(key)
    if f is None:
        return False
    for g in F.lexical(key):
        for bid, i, st in g.stmts():
            if _mentions_field(st, "storage", APP) or _mentions_field(st, "router", APP):
                return False
        for bid, t in g.calls():
            for a in t["args"]:
                if a["k"] in ("copy", "move") and (_place_mentions_field(a["place"], "storage", APP) or _place_mentions_field(a["place"], "router", APP)):
                    return False
            if any(q.is_storage_ty(ty) for ty in t["callee"].get("inputs", [])):
                return False
            for ai, a in enumerate(P.call_args(g, t, bid)):
                if is_param(a, "self"):
                    # handing `self` on is fine when the receiver is an entry point that is classified already (a helper
                    # composed of `update_block`, `execute`, .. changes chain state only the ways those do), a method of the
                    # Executor trait (all of them funnel into execute) or another method that qualifies the same way
                    ck = t["callee"]["key"]
                    nm = t["callee"]["name"]
                    if ai == 0 and ck == "app::App::" + nm and (nm in ENTRY_CLASSES or (_depth < 3 and ck != key and _touches_no_chain_state(cfg, ck, _depth + 1))):
                        continue
                    if ai == 0 and t["callee"].get("trait") == "executor::Executor":
                        continue
                    return False
    return True


def _place_mentions_field(pl, name, of):
    return any(e["k"] == "field" and e["name"] == name and e.get("of") == of for e in pl["p"])


def _mentions_field(st, name, of):
    if st["k"] != "assign":
        return False
    rv = st["rv"]
    pls = []
    if rv["k"] in ("ref", "rawptr", "discriminant"):
        pls.append(rv["place"])
    for key in ("op", "a", "b"):
        o = rv.get(key)
        if isinstance(o, dict) and o.get("k") in ("copy", "move"):
            pls.append(o["place"])
    for o in rv.get("ops", []):
        if o.get("k") in ("copy", "move"):
            pls.append(o["place"])
    pls.append(st["dst"])
    return any(_place_mentions_field(p, name, of) for p in pls)


def _is_app_storage(o):
    o = peel(o)
    return o[0] == "field" and o[2] == "storage" and is_param(o[1], "self")


# ------------------------------------------------------------------------- R2
EXECUTOR_EXECUTE = "<app::App as executor::Executor>::execute"


def executor_execute_is_entry(cfg):
    """`<App as Executor>::execute` written as a transactional entry point of its own (one message in one transaction) instead of
    as a wrapper of execute_multi: it is then held to the obligations of C01.R2 like the others"""
    return bool(q.lexical_calls(cfg.facts, EXECUTOR_EXECUTE, TRANSACTIONAL))


def r2_handoff(ctx, cfg):
    F, P = cfg.facts, cfg.prov
    for key in ["app::App::" + name for name in transactional_entries(cfg)] + ([EXECUTOR_EXECUTE] if executor_execute_is_entry(cfg) else []):
        f = ctx.need_fn("C01.R2", key)
        if f is None:
            continue
        lex = F.lexical(key)
        # (i) exactly one use of App.storage in the lexical body
        uses = []
        for g in lex:
            for bid, i, st in g.stmts():
                if _mentions_field(st, "storage", APP):
                    uses.append((g, bid, i, st))
            for bid, t in g.calls():
                for a in t["args"]:
                    if a["k"] in ("copy", "move") and _place_mentions_field(a["place"], "storage", APP):
                        uses.append((g, bid, "t", t))
        ctx.ob("C01.R2", key, "single-use-of-App.storage", len(uses) == 1,
               "App.storage must be used exactly once (as the base of `transactional`), found %d uses" % len(uses),
               fn=f, sample="1 use at line %s" % (uses[0][3].get("line") if uses else "?"))
        # (ii) exactly one transactional call whose base is App.storage
        tcalls = q.lexical_calls(F, key, TRANSACTIONAL)
        ok = len(tcalls) == 1 and tcalls[0][0].key == key and _is_app_storage(P.operand(f, tcalls[0][2]["args"][0]))
        ctx.ob("C01.R2", key, "transactional(App.storage)", ok,
               "entry point must wrap App.storage in exactly one `transactional` call (found %d)" % len(tcalls),
               fn=f, line=tcalls[0][2]["line"] if tcalls else None,
               sample="base = %s" % (fmt(P.operand(f, tcalls[0][2]["args"][0])) if tcalls else "-"))
        # (iii) every callee parameter of type &mut dyn Storage gets the write cache of that call
        n = 0
        for g in lex:
            for bid, t in g.calls():
                c = t["callee"]
                if c["key"] == TRANSACTIONAL:
                    continue
                for i, ty in enumerate(c.get("inputs", [])):
                    if not q.is_storage_ty(ty) or i >= len(t["args"]):
                        continue
                    o = peel(P.operand(g, t["args"][i]))
                    n += 1
                    if q.is_storage_mut_ty(ty):
                        ok = o[0] == "bound" and o[1] == "cache_of" and _is_app_storage(o[2])
                        want = "cache_of(App.storage)"
                    else:
                        ok = o[0] == "bound" and o[1] in ("cache_of", "base_ro") and _is_app_storage(o[2])
                        want = "the transaction's cache or read view"
                    ctx.ob("C01.R2", key, "storage-arg:%s#%d" % (c["key"], i), ok,
                           "storage argument of %s is %s, expected %s" % (c["key"], fmt(o), want),
                           fn=g, line=t["line"], sample="%s <- %s" % (c["key"], fmt(o)))
        ctx.ob("C01.R2", key, "dispatch-site-present", n >= 1,
               "no call taking a storage argument found inside the transaction closure", fn=f,
               sample="%d storage-taking calls" % n)


# ------------------------------------------------------------------------- R3
def r3_commit(ctx, cfg):
    F, P = cfg.facts, cfg.prov
    key = TRANSACTIONAL
    f = ctx.need_fn("C01.R3", key)
    if f is None:
        return
    cfgf = cfg_of(f)
    R = "C01.R3"
    new = q.calls(f, "transactions::StorageTransaction::new")
    once = q.calls(f, ("std::ops::FnOnce", "call_once"))
    prep = q.calls(f, "transactions::StorageTransaction::prepare")
    commit = q.calls(f, "transactions::RepLog::commit")
    shape = len(new) == 1 and len(once) == 1 and len(prep) == 1 and len(commit) == 1
    ctx.ob(R, key, "shape", shape, "expected exactly one new / action call / prepare / commit, found %d/%d/%d/%d" % (
        len(new), len(once), len(prep), len(commit)), fn=f, sample="1 new, 1 action call, 1 prepare, 1 commit")
    if not shape:
        return
    (nb, nt), (ob_, ot), (pb, pt), (cb, ct) = new[0], once[0], prep[0], commit[0]
    # (a) cache created over `base`, borrowed shared
    a0 = P.operand(f, nt["args"][0])
    ok = is_param(a0, "base") and nt["callee"]["inputs"][0].get("ref") == "shared"
    ctx.ob(R, key, "a:cache-over-shared-base", ok, "StorageTransaction::new must borrow `base` shared, got %s" % fmt(a0),
           fn=f, line=nt["line"], sample="new(&*base)")
    # (b) action(&mut cache, base)
    args = P.call_args(f, ot)
    ok = False
    desc = "?"
    if len(args) == 2 and is_param(args[0], "action"):
        tup = peel(args[1])
        if tup[0] == "agg" and len(tup[2]) == 2:
            c0, c1 = peel(tup[2][0][1]), tup[2][1][1]
            desc = "action(%s, %s)" % (fmt(c0), fmt(c1))
            ok = c0[0] == "call" and c0[1] == "transactions::StorageTransaction::new" and is_param(c1, "base")
    ctx.ob(R, key, "b:action(cache, base)", ok, "action must be called with (&mut cache, base): %s" % desc, fn=f,
           line=ot["line"], sample=desc)
    # (c) commit(prepare(cache), base) dominated by the Continue edge of the action's result
    cargs = P.call_args(f, ct)
    c0 = peel(cargs[0]) if cargs else ("unknown", "")
    # prepare(cache) hands out the cache's change log (`self.rep_log`): a constructor-like function, expanded by the engine
    ok_args = (len(cargs) == 2 and is_param(cargs[1], "base") and
               ((c0[0] == "call" and c0[1] == "transactions::StorageTransaction::prepare"
                 and peel(c0[2][0])[0] == "call" and peel(c0[2][0])[1] == "transactions::StorageTransaction::new") or
                (c0[0] == "field" and c0[2] == "rep_log" and peel(c0[1])[0] == "call" and peel(c0[1])[1] == "transactions::StorageTransaction::new")))
    from rules import C06
    C06.r_prepare(ctx, cfg, R)          # ... and prepare(cache) is the cache's whole log
    ctx.ob(R, key, "c:commit(prepare(cache), base)", ok_args,
           "commit must replay prepare(cache) onto base, got (%s)" % ", ".join(fmt(x) for x in cargs), fn=f,
           line=ct["line"], sample="commit(prepare(cache), base)")
    conds = q.dominating_conditions(P, f, cb)
    action_res = ("call", "std::ops::FnOnce::call_once")
    dom_ok = False
    for edge, c in conds:
        if c[0] == "variant_in" and c[2] in (("Continue",), ("Ok",)):
            o = peel(c[1])
            if o[0] == "call" and o[1] == "std::ops::FnOnce::call_once":
                dom_ok = True
    # the prepare call must be on the Ok side as well
    ctx.ob(R, key, "c:commit-only-after-Ok", dom_ok,
           "RepLog::commit is not dominated by the Continue edge of `action(..)?`", fn=f, line=ct["line"],
           sample="commit dominated by Continue(action(..))")
    # (d) Ok(v) only after commit returned, v = Continue payload
    after = cfgf.after_call_node(cb)
    n_ok = 0
    for bid, i, st in f.stmts():
        if st["k"] == "assign" and st["dst"]["l"] == 0 and not st["dst"]["p"]:
            o = P.rvalue(f, st["rv"], (bid, i))
            if o[0] == "agg" and o[1].endswith("Result::Ok"):
                n_ok += 1
                pay = peel(o[2][0][1])
                ok = (after is not None and cfgf.dominates(after, bid) and pay[0] == "ok"
                      and peel(pay[1])[0] == "call" and peel(pay[1])[1] == "std::ops::FnOnce::call_once")
                ctx.ob(R, key, "d:Ok-after-commit", ok,
                       "`Ok(..)` is returned without a completed commit or with a foreign payload: %s" % fmt(o), fn=f,
                       line=st["line"], sample="Ok(%s) dominated by commit" % fmt(pay))
            else:
                # any other whole assignment of the return place must be the propagated error
                pass
    ctx.ob(R, key, "d:Ok-site-present", n_ok >= 1, "no `Ok(..)` return found", fn=f, sample="%d Ok sites" % n_ok)
    # every other assignment of _0 is the `?` residual
    for bid, i, kind, item in q.assigns_to_local(f, 0):
        if kind == "call":
            c = item["callee"]
            ok = c.get("trait") == "std::ops::FromResidual"
            ctx.ob(R, key, "d:other-returns-are-propagated-errors", ok,
                   "return value produced by %s" % c["key"], fn=f, line=item["line"], sample="from_residual")
    # (e) who receives `base`: new (shared), the action tuple (shared), commit (mut) — nobody else
    base_calls = []
    for bid, t in f.calls():
        for a in P.call_args(f, t):
            a = peel(a)
            direct = [a] + ([v for _, v in a[2]] if a[0] == "agg" else [])
            if any(is_param(x, "base") for x in direct):
                base_calls.append(t["callee"]["key"])
                break
    allowed = {"transactions::StorageTransaction::new", "std::ops::FnOnce::call_once", "transactions::RepLog::commit"}
    ok = set(base_calls) <= allowed and base_calls.count("transactions::RepLog::commit") == 1
    ctx.ob(R, key, "e:base-handed-only-to-new/action/commit", ok,
           "`base` reaches %s" % sorted(set(base_calls) - allowed), fn=f, sample=str(sorted(set(base_calls))))
    # (how often and where `&mut *base` is re-borrowed is not a property of the behaviour - a closure that captures `base` for the
    # commit re-borrows it once more; what matters is who receives it, decided above)
    # (f) the cache holds the base by shared reference
    adt = F.adts.get("transactions::StorageTransaction")
    ok = False
    if adt:
        for fld in adt["variants"][0]["fields"]:
            if fld["name"] == "storage":
                ok = fld["ty"].get("ref") == "shared"
    ctx.ob(R, "transactions::StorageTransaction", "f:storage-field-is-shared-ref", ok,
           "StorageTransaction.storage must be `&dyn Storage`", sample="&dyn Storage")


# ------------------------------------------------------------------------- R4
def r4_order(ctx, cfg):
    F, P = cfg.facts, cfg.prov
    key = "app::App::execute_multi"
    f = ctx.need_fn("C01.R4", key)
    if f is None:
        return
    R = "C01.R4"
    ex = q.lexical_calls(F, key, ("app::CosmosRouter", "execute"))
    ctx.ob(R, key, "one-execute-site", len(ex) == 1, "expected one CosmosRouter::execute site, found %d" % len(ex), fn=f,
           sample="1 site")
    if len(ex) != 1:
        return
    g, bid, t = ex[0]
    args = P.call_args(g, t)
    msg = peel(args[5]) if len(args) > 5 else ("unknown", "")
    ok = msg[0] == "bound" and msg[1] == "elem" and is_param(msg[2], "msgs")
    # accepted alternative: element obtained by Iterator::next over msgs (for loop)
    if not ok:
        lv = leaves(msg)
        ok = any(x[0] == "param" and x[2] == "msgs" for x in lv) and not any(x[0] == "const" for x in lv) and \
            all(x[0] in ("param", "callee", "bound") for x in lv) and \
            all(x[2] == "msgs" for x in lv if x[0] == "param")
    ctx.ob(R, key, "msg-is-element-of-msgs", ok, "executed message is %s, expected an element of `msgs`" % fmt(msg),
           fn=g, line=t["line"], sample=fmt(msg))
    snd = args[4] if len(args) > 4 else ("unknown", "")
    ctx.ob(R, key, "sender-is-sender", is_param(snd, "sender"), "sender passed is %s" % fmt(snd), fn=g, line=t["line"],
           sample=fmt(snd))
    bad = []
    for h in F.lexical(key):
        for b2, t2 in h.calls():
            c = t2["callee"]
            if c["name"] in DENY_ADAPTERS and not c["local"]:
                bad.append("%s (line %d)" % (c["key"], t2["line"]))
    ctx.ob(R, key, "no-reordering-or-dropping-adapter", not bad,
           "order-changing / element-dropping call in execute_multi: %s" % bad, fn=f, sample="none of %d deny-listed names" % len(DENY_ADAPTERS))
    # the value returned by the transaction closure is the list of the execute results, one per message, in order -
    # form-agnostic (vlib/pipeline.py): `msgs.into_iter().map(|m| router.execute(..)).collect()` or a loop pushing each
    # response - and a failing message ends the whole call with its error (never skipped, never turned into Ok)
    from vlib import pipeline
    clos = [h for h in F.lexical(key) if h.kind == "closure" and h.parent == key]
    ok = False
    d = "?"
    if clos:
        h = clos[0]
        cs = []
        for o in alts(peel(P.local(h, 0))):
            o = peel(o)
            if o[0] == "agg" and o[1].endswith("Result::Ok"):
                cs += pipeline.contents(P, F, h, o[2][0][1])
            elif o[0] == "call" and o[1] in pipeline.COLLECT:
                cs += pipeline.contents(P, F, h, o)
            elif o[0] == "call" and o[1].endswith("FromResidual::from_residual"):
                continue
            else:
                cs.append(pipeline.Contribution("opaque", how=fmt(o)[:60]))
        d = str(cs)[:200]
        ok = len(cs) == 1 and cs[0].kind == "expr" and is_param(cs[0].src, "msgs") and not cs[0].conds and not cs[0].adapters
        if ok:
            e = peel(cs[0].expr)
            if e[0] == "ok":
                e = peel(e[1])
            ok = e[0] == "call" and e[1].endswith("CosmosRouter::execute")
    ctx.ob(R, key, "responses-collected-from-execute", ok, "closure result is %s" % d, fn=f, sample=d[:200])
    ef = q.error_fate(P, g, bid)
    if ef["edges"]:
        ok = not ef["continues"] and not ef["ok_reachable"]
        d = "%d error edge(s); back into the loop: %s; can reach a non-error return: %s" % (len(ef["edges"]), ef["continues"], ef["ok_reachable"])
    else:
        use = P.closure_use(g) if g.kind == "closure" else None
        ok = ef["returned_directly"] and use is not None and use[2]["callee"]["key"] == "std::iter::Iterator::map"
        d = "Result of execute is the element collected into Result<Vec<_>, _>" if ok else "the Result of execute is neither inspected nor the collected element"
    ctx.ob(R, key, "failed-message-fails-the-call", ok, "a failing message does not end execute_multi with its error: %s" % d, fn=g, line=t["line"], sample=d)
    # the entry point returns the result of transactional
    o = peel(P.local(f, 0))
    ctx.ob(R, key, "returns-transactional-result", o[0] == "call" and o[1] == TRANSACTIONAL,
           "execute_multi returns %s" % fmt(o)[:200], fn=f, sample="_0 = transactional(..)")


# ------------------------------------------------------------------------- R5
def r5_funnel(ctx, cfg):
    F, P = cfg.facts, cfg.prov
    R = "C01.R5"
    tr = F.traits.get("executor::Executor")
    if tr is None:
        ctx.fail(R, "executor::Executor", "anchor-missing", "trait Executor not found")
        return
    required = [m["name"] for m in tr["methods"] if not m["has_default"]]
    ctx.ob(R, "executor::Executor", "one-required-method", required == ["execute"],
           "required methods of Executor: %s" % required, sample="required = [execute]")
    imps = [i for i in F.impls if i.get("trait") == "executor::Executor" and i["self_name"] == APP]
    names = [m["name"] for i in imps for m in i["methods"]]
    # (a hook overridden by App is fine when its body changes chain state only through classified entry points of App -
    # `execute_batch` = `self.execute_multi(..)`)
    extra = [n0 for n0 in names if n0 != "execute" and not _touches_no_chain_state(cfg, "<app::App as executor::Executor>::" + n0)]
    ctx.ob(R, "<app::App as executor::Executor>", "impl-defines-only-execute", "execute" in names and not extra,
           "impl Executor for App defines %s" % names, sample="methods = %s" % names)
    n = 0
    for m in tr["methods"]:
        if not m["has_default"]:
            continue
        key = "executor::Executor::" + m["name"]
        f = ctx.need_fn(R, key)
        if f is None:
            continue
        n += 1
        self_calls = []
        for g in F.lexical(key):
            for bid, t in g.calls():
                args = P.call_args(g, t)
                if any(is_param(a, "self") for a in args):
                    self_calls.append(t["callee"]["key"])
        # (through `execute`, or through another method of the trait - which is held to the same rule, or overridden by App
        # under the rule above)
        ok = bool(self_calls) and all(k.startswith("executor::Executor::") for k in self_calls)
        ctx.ob(R, key, "only-calls-execute-on-self", ok, "provided method touches self through %s" % self_calls, fn=f,
               sample="self used by %s" % self_calls)
    ctx.floor(R, "provided Executor methods", n, 4)


# ------------------------------------------------------------------------- R6
def r6_no_hidden_state(ctx, cfg):
    F = cfg.facts
    R = "C01.R6"
    names = list(NO_INTERIOR_MUT)
    if cfg.has("staking"):
        names += NO_INTERIOR_MUT_STAKING
    for name in names:
        adt = F.adts.get(name)
        if adt is None:
            ctx.fail(R, name, "anchor-missing", "type %s not found" % name)
            continue
        bad = [fl["name"] for v in adt["variants"] for fl in v["fields"] if fl["ty"].get("interior_mut")]
        ctx.ob(R, name, "no-interior-mutability", not bad, "fields with interior mutability: %s" % bad,
               sample="%d fields, none with Cell/RefCell/Mutex/Atomic/Once*" % sum(len(v["fields"]) for v in adt["variants"]))
    # every other local type with interior mutability must be a named exception
    for path, adt in F.adts.items():
        bad = [fl["name"] for v in adt["variants"] for fl in v["fields"] if fl["ty"].get("interior_mut")]
        if bad and path not in INTERIOR_MUT_ALLOWED:
            ctx.fail(R, path, "unlisted-interior-mutability", "type %s has interior mutability in %s" % (path, bad))
    ctx.ob(R, "-", "no-statics", not F.statics, "statics: %s" % [s["path"] for s in F.statics], sample="0 statics")
    ctx.ob(R, "-", "no-unsafe", not F.unsafe, "unsafe code: %s" % F.unsafe, sample="0 unsafe items/blocks")


# ------------------------------------------------------------------------- R7
def r7_errors(ctx, cfg):
    F = cfg.facts
    R = "C01.R7"
    n = 0
    for f in F.user_fns():
        if f.file not in A7_FILES:
            continue
        n += 1
        for bid, t, why in dropped_results(f):
            ctx.fail(R, f.key, "dropped-result:%s" % t["callee"]["key"], "%s (line %d)" % (why, t["line"]), fn=f,
                     line=t["line"])
    ctx.count_sites(n)
    ctx.ob(R, "-", "functions-scanned", n >= 150, "only %d functions scanned for dropped results" % n,
           sample="%d user functions scanned, every Result-returning call inspected" % n)
