"""C04 — events and response data are composed per wasmd rules (DESIGN.md §5 C04)."""
from vlib import q
from vlib.cfg import cfg_of
from vlib.prov import peel, fmt, is_param, contains, alts, deep_peel, same_origin, leaves, is_param_field, format_parts, just
from rules import submsg

LEVEL = "other"
EXPLANATION = (
    "Static analysis of MIR facts over the five short functions that compose responses: (R1) each dispatch site pairs "
    "the contract entry point with its event literal and puts the contract address first; (R2) order of pushes in "
    "build_app_response by dominance/reachability; (R3) custom events are renamed `wasm-` and get the contract address "
    "inserted at index 0; (R4) sub-message events are appended and data is `sub.data.or(acc)`; (R5) data/events across "
    "reply from the execute_submsg decision table; (R6) data wrapping per entry point; (R7) the bank transfer event. "
    "Byte-exactness of the protobuf encodings and amount formatting are not decided."
)
TRUSTED = ["rustc MIR construction", "cwmt-facts driver", "vlib (provenance, dominators, path enumeration)",
           "cosmwasm-std Event/Response builders behave as plain data"]
ASSUMPTIONS = ["prost encodings and string formatting are outside the decided clauses"]

W = "wasm::WasmKeeper::"
CONTRACT_ATTR = ("item", "wasm::CONTRACT_ATTR")

# dispatch site: (function, call_X, Contract method, event literal, has code_id attribute)
DISPATCH = [
    (W + "execute_wasm", W + "call_execute", "execute", "execute", False),
    (W + "process_wasm_msg_instantiate", W + "call_instantiate", "instantiate", "instantiate", True),
    (W + "execute_wasm", W + "call_migrate", "migrate", "migrate", True),
    ("<wasm::WasmKeeper as wasm::Wasm>::sudo", W + "call_sudo", "sudo", "sudo", False),
    (W + "reply", W + "call_reply", "reply", "reply", False),
]
# position of the address parameter of each call_X (declared order, self = 0)
ADDR_ARG = {W + "call_execute": 3, W + "call_instantiate": 1, W + "call_migrate": 1, W + "call_sudo": 1,
            W + "call_reply": 1}


def parse_event(o):
    """Event::new(lit).add_attribute(k, v)... -> (literal origin, [(k, v)], [bulk attribute origins])"""
    attrs = []
    bulk = []
    o = peel(o)
    while o[0] == "call" and o[1] in ("cosmwasm_std::Event::add_attribute", "cosmwasm_std::Event::add_attributes"):
        if o[1].endswith("add_attribute"):
            attrs.append((o[2][1], o[2][2]))
        else:
            bulk.append(o[2][1])
        o = peel(o[2][0])
    attrs.reverse()
    bulk.reverse()
    if o[0] == "call" and o[1] == "cosmwasm_std::Event::new":
        return o[2][0], attrs, bulk
    return None, attrs, bulk


def parse_event_parts(o):
    """the same chain with the order of its parts kept: (literal origin, [("one", k, v) | ("bulk", origin)])"""
    parts = []
    o = peel(o)
    while o[0] == "call" and o[1] in ("cosmwasm_std::Event::add_attribute", "cosmwasm_std::Event::add_attributes"):
        parts.append(("one", o[2][1], o[2][2]) if o[1].endswith("add_attribute") else ("bulk", o[2][1]))
        o = peel(o[2][0])
    parts.reverse()
    if o[0] == "call" and o[1] == "cosmwasm_std::Event::new":
        return o[2][0], parts
    return None, parts


def check(ctx, cfg):
    r1(ctx, cfg)
    r2(ctx, cfg)
    r3(ctx, cfg)
    r4(ctx, cfg)
    r5(ctx, cfg)
    r6(ctx, cfg)
    r7(ctx, cfg)
    r8(ctx, cfg)


def r8(ctx, cfg):
    """premise shared with C17: the response that enters the data / event pipeline is the contract's own - for a contract written
    against `Empty` it passes through `customize_response` first, which must carry data (absent stays absent), events and
    attributes over unchanged (C17.R4 under C04's id)"""
    from rules import C17
    C17.response_lift(ctx, cfg, "C04.R8")


def _strip_validate(o):
    """addr_validate(x)? / Ok-payload wrappers"""
    o = peel(o)
    while o[0] in ("ok",):
        o = peel(o[1])
    return o


def r1(ctx, cfg):
    F, P = cfg.facts, cfg.prov
    R = "C04.R1"
    n = 0
    for fkey, callx, method, literal, has_code_id in DISPATCH:
        f = ctx.need_fn(R, fkey)
        if f is None:
            continue
        sites = q.calls(f, callx)
        ctx.ob(R, fkey, "one-%s-site" % callx.rsplit("::", 1)[1], len(sites) == 1,
               "expected one %s site in %s, found %d" % (callx, fkey, len(sites)), fn=f, sample="1")
        if len(sites) != 1:
            continue
        bid, t = sites[0]
        args = P.call_args(f, t, bid)
        addr = args[ADDR_ARG[callx]]
        # the build_app_response that consumes this response
        bars = []
        for b2, t2 in q.calls(f, W + "build_app_response"):
            a2 = P.call_args(f, t2, b2)
            r = peel(a2[3])
            if r[0] == "ok" and peel(r[1])[0] == "call" and peel(r[1])[1] == callx:
                bars.append((b2, t2, a2))
        ctx.ob(R, fkey, "%s-response-feeds-build_app_response" % method, len(bars) == 1,
               "response of %s is consumed by %d build_app_response calls" % (callx, len(bars)), fn=f, line=t["line"],
               sample="build_app_response(.., ok(%s(..)))" % callx.rsplit("::", 1)[1])
        if len(bars) != 1:
            continue
        n += 1
        b2, t2, a2 = bars[0]
        lit, attrs, bulk = parse_event(a2[2])
        ok = lit is not None and lit == ("const", "str", literal)
        ctx.ob(R, fkey, "event-literal-%s" % literal, ok,
               "entry-point event for %s is %s, expected Event::new(\"%s\")" % (method, fmt(lit) if lit else fmt(a2[2])[:100], literal),
               fn=f, line=t2["line"], sample="Event::new(%r)" % literal)
        ok = bool(attrs) and peel(attrs[0][0]) == CONTRACT_ATTR and same_origin(attrs[0][1], addr) and \
            same_origin(a2[1], addr)
        ctx.ob(R, fkey, "%s-first-attribute-is-callee-address" % literal, ok,
               "first attribute of the `%s` event must be (_contract_address, callee address); got %s" % (
                   literal, [(fmt(k), fmt(v)[:60]) for k, v in attrs[:1]]), fn=f, line=t2["line"],
               sample="(_contract_address, %s)" % fmt(addr)[:80])
        if has_code_id:
            ok = len(attrs) >= 2 and peel(attrs[1][0]) == ("const", "str", "code_id")
            val = attrs[1][1] if len(attrs) >= 2 else ("unknown", "")
            # (the value itself, rendered as text - not something that merely derives from it, like the new address)
            if method == "instantiate":
                ok = ok and is_param(val, "code_id")
            else:
                ok = ok and is_param_field(peel(val), "msg", "new_code_id")
            ctx.ob(R, fkey, "%s-code_id-attribute" % literal, ok, "second attribute must be code_id of the message, got %s" % fmt(val)[:100],
                   fn=f, line=t2["line"], sample="(code_id, %s)" % fmt(val)[:60])
        ctx.ob(R, fkey, "%s-no-extra-attributes" % literal, len(attrs) == (2 if has_code_id else (2 if literal == "reply" else 1)) and not bulk,
               "unexpected attributes on the `%s` event: %d" % (literal, len(attrs)), fn=f, line=t2["line"],
               sample="%d attributes" % len(attrs))
        # the wrapper's closure invokes the matching Contract method
        inner = [(g, b, tt) for g, b, tt in q.lexical_calls(F, callx, lambda c: c.get("trait") == "contracts::Contract")]
        names = sorted({tt["callee"]["name"] for g, b, tt in inner})
        ctx.ob(R, callx, "invokes-Contract::%s" % method, names == [method],
               "%s invokes Contract::%s" % (callx, names), fn=F.fn(callx), sample="Contract::%s" % method)
    ctx.floor(R, "dispatch sites", n, 5)


def r2(ctx, cfg):
    F, P = cfg.facts, cfg.prov
    R = "C04.R2"
    key = W + "build_app_response"
    f = ctx.need_fn(R, key)
    if f is None:
        return
    cfgf = cfg_of(f)
    # the vector that becomes AppResponse.events
    agg = None
    for bid, i, st in f.stmts():
        rv = st.get("rv", {})
        if st["k"] == "assign" and rv.get("k") == "aggregate" and rv.get("adt") == "executor::AppResponse":
            agg = (bid, i, st)
    if agg is None:
        ctx.fail(R, key, "anchor-missing", "no AppResponse aggregate in build_app_response", fn=f)
        return
    # what the events vector is made of, in build order - form-agnostic (vlib/pipeline.py): the custom events may come
    # from `extend(events.into_iter().map(rename))` or from `for ev in events { rename; push(ev) }`
    from vlib import pipeline
    o_agg = P.rvalue(f, agg[2]["rv"], (agg[0], agg[1]))
    ev_o = dict(o_agg[2])["events"]
    cs = pipeline.contents(P, F, f, ev_o)
    d = [(c.kind, c.how.strip()) for c in cs]
    custom = [c for c in cs if c.kind == "single" and is_param(c.expr, "custom_event")]
    wasm = [c for c in cs if c.kind == "single" and not is_param(c.expr, "custom_event")]
    ext = [c for c in cs if c.kind in ("expr", "all-of")]
    ctx.ob(R, key, "three-mutations-of-events-vector", len(custom) == 1 and len(wasm) == 1 and len(ext) == 1 and len(cs) == 3,
           "events vector is built from %s" % d, fn=f, sample="push(custom_event), push(wasm_event), the renamed custom events")
    if not (len(custom) == 1 and len(wasm) == 1 and len(ext) == 1 and len(cs) == 3):
        return
    ctx.ob(R, key, "entry-point-event-first", cs[0] is custom[0] and not custom[0].conds,
           "the entry point's own event is not unconditionally the first one", fn=f, sample="push(custom_event) first, unconditional")
    ctx.ob(R, key, "wasm-event-before-custom-events", cs[1] is wasm[0] and cs[2] is ext[0],
           "the wasm event does not precede the contract's custom events", fn=f, sample="custom_event, wasm, wasm-*")
    eb = ext[0].site[1] if ext[0].site and ext[0].site[0] == f.key else None
    loops = q.enclosing_loops(P, f, eb) if eb is not None else []
    always = eb is not None and (cfgf.must_pass(loops[0][0] if loops else eb, agg[0]))
    ctx.ob(R, key, "custom-events-always-appended", always and not ext[0].conds and not ext[0].adapters,
           "the custom events are not appended on every path / not all of them / not in order (conds %s, adapters %s)" % (ext[0].conds, ext[0].adapters), fn=f,
           sample="all of response.events, in order, on every path")
    # wasm event only when attributes are present
    wc = wasm[0].conds
    ok = len(wc) == 1 and wc[0][0] == "is_empty" and wc[0][2] is False and contains(wc[0][1][0], lambda x: x[0] == "field" and x[2] == "attributes")
    ctx.ob(R, key, "wasm-event-iff-attributes", ok, "push(wasm_event) is not guarded by exactly !attributes.is_empty(): %s" % (wc,), fn=f,
           sample="guard: !attributes.is_empty()")
    lit, attrs, bulk = parse_event(wasm[0].expr)
    ok = lit == ("const", "str", "wasm") and len(attrs) == 1 and peel(attrs[0][0]) == CONTRACT_ATTR and \
        is_param(attrs[0][1], "contract") and len(bulk) == 1 and \
        [p[0] for p in parse_event_parts(wasm[0].expr)[1]] == ["one", "bulk"] and \
        just(bulk[0], lambda x: is_param_field(x, "response", "attributes"))     # (as they are, in their order: not sorted / filtered in place)
    ctx.ob(R, key, "wasm-event-shape", ok,
           "wasm event must be Event::new(\"wasm\") + (_contract_address, contract) + the response's attributes", fn=f,
           sample="Event::new('wasm').add_attribute(CONTRACT_ATTR, contract).add_attributes(attributes)")
    # custom events come from response.events
    src = peel(ext[0].src) if ext[0].src is not None else ("?",)
    ok = src[0] == "field" and src[2] == "events" and is_param(src[1], "response")
    ctx.ob(R, key, "custom-events-from-response.events", ok, "the appended events come from %s" % fmt(src)[:160], fn=f,
           sample="response.events")
    # data passes through unchanged, messages returned unchanged
    o = P.rvalue(f, agg[2]["rv"], (agg[0], agg[1]))
    d = peel(dict(o[2])["data"])
    ctx.ob(R, key, "data-is-response.data", d[0] == "field" and d[2] == "data" and is_param(d[1], "response"),
           "AppResponse.data is %s" % fmt(d), fn=f, sample=fmt(d))
    ret = peel(P.ret(f))
    ok = ret[0] == "agg" and ret[1] == "tuple" and len(ret[2]) == 2
    if ok:
        m = peel(ret[2][1][1])
        ok = m[0] == "field" and m[2] == "messages" and is_param(m[1], "response")
    ctx.ob(R, key, "messages-returned-unchanged", ok, "returned messages are %s" % fmt(ret)[:120], fn=f,
           sample="(app_response, response.messages)")


def r3(ctx, cfg):
    """every custom event is renamed `wasm-<ty>` and gets (_contract_address, contract) as its first attribute; nothing
    else about it changes.  Read from the origin of the stored element (closure result or pushed loop variable)."""
    from vlib import pipeline
    F, P = cfg.facts, cfg.prov
    R = "C04.R3"
    key = W + "build_app_response"
    f = F.fn(key)
    if f is None:
        return
    agg = None
    for bid, i, st in f.stmts():
        rv = st.get("rv", {})
        if st["k"] == "assign" and rv.get("k") == "aggregate" and rv.get("adt") == "executor::AppResponse":
            agg = (bid, i, st)
    if agg is None:
        return
    o_agg = P.rvalue(f, agg[2]["rv"], (agg[0], agg[1]))
    cs = [c for c in pipeline.contents(P, F, f, dict(o_agg[2])["events"]) if c.kind in ("expr", "all-of")]
    ctx.ob(R, key, "one-mapping-closure", len(cs) == 1 and cs[0].body is not None, "expected one transformation of the custom events, found %d" % len(cs),
           fn=f, sample="1")
    if len(cs) != 1 or cs[0].body is None:
        return
    c = cs[0]
    g = c.body
    e = c.expr
    while e[0] == "vp":
        e = e[2]
    base = e
    updates = []
    while base[0] == "upd":
        updates.extend(base[2])
        base = base[1]
        while base[0] == "vp":
            base = base[2]
    if not (base[0] == "bound" and base[1] == "elem"):
        # the event built anew instead of updated in place:
        #     Event::new(format!("wasm-{}", ev.ty)).add_attributes(once(mock_wasmd_attr(CONTRACT_ATTR, contract)).chain(ev.attributes))
        lit, parts = parse_event_parts(e)
        if lit is not None and parts:
            def is_elem(o):
                o = peel(o)
                return o[0] == "bound" and o[1] == "elem"
            # the attributes of the new event in build order: `.add_attribute(k, v)` is one pair, `.add_attributes(it)`
            # whatever the iterator yields
            ac = []
            for part in parts:
                if part[0] == "one":
                    ac.append(("pair", part[1], part[2]))
                else:
                    ac.extend(("contrib", c) for c in pipeline.iter_contribs(P, F, g, part[1]))
            d = [(a[0], fmt(a[1])[:40]) if a[0] == "pair" else (a[1].kind, fmt(a[1].expr)[:60] if a[1].expr is not None else None) for a in ac]
            ok = len(ac) == 2 and ac[1][0] == "contrib" and ac[1][1].kind == "all-of" and not ac[1][1].conds and not ac[1][1].adapters
            if ok:
                src = peel(ac[1][1].src)
                ok = src[0] == "field" and src[2] == "attributes" and is_elem(src[1])
            if ok and ac[0][0] == "pair":
                ok = peel(ac[0][1]) == CONTRACT_ATTR and is_param(ac[0][2], "contract")
            elif ok:
                first = ac[0][1]
                val = peel(first.expr) if first.expr is not None else ("?",)
                ok = first.kind == "single" and not first.conds and \
                    val[0] == "call" and val[1].endswith("mock_wasmd_attr") and peel(val[2][0]) == CONTRACT_ATTR and is_param(val[2][1], "contract")
            ctx.ob(R, g.key, "returns-the-event", True, "-", fn=g, sample="a new event made from the element's type and attributes")
            ctx.ob(R, g.key, "contract-address-inserted-first", ok,
                   "the new event's attributes must be (_contract_address, contract) followed by all of the element's attributes; found %s" % (d,), fn=g,
                   sample=str(d))
            fp = format_parts(P, g, lit)
            okt = fp is not None
            d = "not a format!() result"
            if okt:
                tpl, fargs = fp
                d = "template %r args %s" % (tpl, [fmt(a)[:40] for k, a in fargs])
                okt = tpl == "\x05wasm-\xc0\x00" and len(fargs) == 1 and fargs[0][0] == "display" and \
                    peel(fargs[0][1])[0] == "field" and peel(fargs[0][1])[2] == "ty" and is_elem(peel(fargs[0][1])[1])     # (the type itself)
            ctx.ob(R, g.key, "type-renamed-wasm-prefix", okt, "the new event's type must be format!(\"wasm-{}\", ev.ty); found %s" % d, fn=g, sample=d)
            return
    ctx.ob(R, g.key, "returns-the-event", base[0] == "bound" and base[1] == "elem", "the stored event is %s" % fmt(e)[:100],
           fn=g, sample="the element itself, updated in place")
    tys = [v for pth, v in updates if pth == ("ty",)]
    attr_muts = [v for pth, v in updates if pth[:2] == ("&mut", "attributes")]
    other = [pth for pth, v in updates if pth != ("ty",) and pth[:2] != ("&mut", "attributes")]
    ok = len(attr_muts) == 1 and attr_muts[0][0] == "mutby" and attr_muts[0][1] == "std::vec::Vec::insert" and not other
    d = [(pth, v[1] if v[0] == "mutby" else fmt(v)[:40]) for pth, v in updates]
    if ok:
        idx = peel(attr_muts[0][2][0])
        val = peel(attr_muts[0][2][1])
        ok = idx == ("const", "int", 0) and val[0] == "call" and val[1].endswith("mock_wasmd_attr") and \
            peel(val[2][0]) == CONTRACT_ATTR and is_param(val[2][1], "contract")
        d = "insert(%s, %s)" % (fmt(idx), fmt(val)[:100])
    ctx.ob(R, g.key, "contract-address-inserted-first", ok,
           "custom event attributes must get (_contract_address, contract) inserted at index 0 and nothing else may change; found %s" % (d,), fn=g,
           sample=str(d))
    ok = len(tys) == 1
    d = "no single assignment of ev.ty"
    if ok:
        fp = format_parts(P, g, tys[0])
        d = "not a format!() result"
        ok = fp is not None
        if ok:
            tpl, fargs = fp
            d = "template %r args %s" % (tpl, [fmt(a)[:40] for k, a in fargs])
            # rustc's compact template: <len><literal bytes> then 0xC0 = next argument, 0x00 = end
            # (the argument is the element's type itself, not something computed from it)
            ok = tpl == "\x05wasm-\xc0\x00" and len(fargs) == 1 and fargs[0][0] == "display" and \
                peel(fargs[0][1])[0] == "field" and peel(fargs[0][1])[2] == "ty" and peel(peel(fargs[0][1])[1])[0] == "bound"
    ctx.ob(R, g.key, "type-renamed-wasm-prefix", ok, "ev.ty must be format!(\"wasm-{}\", ev.ty); found %s" % d,
           fn=g, sample=d)


def _consts_in(rv):
    out = []
    for key in ("op", "a", "b"):
        o = rv.get(key)
        if isinstance(o, dict) and o.get("k") == "const":
            out.append(o)
    for o in rv.get("ops", []):
        if o.get("k") == "const":
            out.append(o)
    return out


def r4(ctx, cfg):
    F, P = cfg.facts, cfg.prov
    R = "C04.R4"
    key = W + "process_response"
    f = ctx.need_fn(R, key)
    if f is None:
        return
    sub = q.lexical_calls(F, key, submsg.KEY)
    if len(sub) != 1:
        ctx.fail(R, key, "anchor-missing", "execute_submsg site not found", fn=f)
        return
    g, sb, st_ = sub[0]

    def is_sub_response_field(o, name):
        return any(x[0] == "field" and x[2] == name and _is_ok_submsg(x[1]) for x in alts(o))

    def _is_ok_submsg(o):
        o = peel(o)
        return o[0] == "ok" and peel(o[1])[0] == "call" and peel(o[1])[1] == submsg.KEY

    # events.extend_from_slice(&sub_response.events) on the response's events vector
    ext = []
    for bid, t in g.calls():
        if t["callee"]["name"] in ("extend_from_slice", "extend", "append"):
            args = P.call_args(g, t, bid)
            if is_sub_response_field(args[1], "events"):
                ext.append((bid, t, args))
    ok = len(ext) == 1
    if ok:
        tgt = peel(ext[0][2][0])
        ok = contains(tgt, lambda x: x[0] == "field" and x[2] == "events" and is_param(x[1], "response"))
    ctx.ob(R, key, "sub-events-appended-to-parent-events", ok,
           "events of the sub-message must be appended to the parent's events (found %d sites)" % len(ext), fn=g,
           sample="events.extend_from_slice(&sub_response.events)")
    if ok:
        # on every path from the success edge of execute_submsg to a return (or to the next iteration)
        cg = cfg_of(g)
        edges = []
        for bid in g.order:
            tt = g.blocks[bid]["term"]
            if tt["k"] == "switch" and "discr_of" in tt:
                o = peel(P.place(g, tt["discr_of"], (bid, "t")))
                if o[0] == "call" and o[1] == submsg.KEY:
                    for e, v, n, b in cg.switch_edges(bid):
                        if n in ("Continue", "Ok"):
                            edges.append(e)
        eb = ext[0][0]
        good = bool(edges)
        for e in edges:
            reach = cg.reachable_from(e, avoid=[eb])
            if any(rb in reach for rb in cg.return_blocks()) or sb in reach:
                good = False
        ctx.ob(R, key, "sub-events-appended-on-every-success-path", good,
               "a path from the success of execute_submsg reaches the return / next sub-message without appending its events",
               fn=g, line=ext[0][1]["line"], sample="extend on every path after Ok(sub_response)")
    # data: starts as the response's own data and is replaced by every sub-response's data that is present (the last one
    # wins).  Form-agnostic: `try_fold(data, |data, m| .. Ok(sub.data.or(data)))` or `if sub.data.is_some() { data = sub.data }`
    # in a loop.  Read from the ways the returned `data` gets its value.
    # the response that is returned: built as `AppResponse { events, data }` or the argument itself, updated in place
    rets = []
    for bid, i, st in f.stmts():
        if st["k"] == "assign" and st["dst"]["l"] == 0 and not st["dst"]["p"] and st["rv"].get("k") == "aggregate" and st["rv"].get("variant") == "Ok" and st["rv"].get("adt") == "std::result::Result":
            rets.append((bid, i, st))
    # (a shortcut for the case in which the fold below has nothing to do - `if sub_messages.is_empty() { return Ok(response) }` -
    #  answers what the fold would: the argument as it is; accepted only under exactly that test)
    short = []
    for bid, i, st in list(rets):
        pay0 = P.operand(f, st["rv"]["ops"][0], (bid, i))
        if just(pay0, lambda o: is_param(o, "response")) and not contains(pay0, lambda x: x[0] == "upd"):
            cs = [c for e, c in q.dominating_conditions(P, f, bid) if c[0] == "bool" and not q.is_derived(c)]
            if len(cs) == 1 and cs[0][1][0] == "is_empty" and cs[0][1][2] is True and is_param(cs[0][1][1][0], "sub_messages"):
                short.append((bid, i, st))
    if len(rets) - len(short) == 1:
        rets = [r for r in rets if r not in short]
    ctx.ob(R, key, "one-returned-AppResponse", len(rets) == 1, "expected one Ok(..) return in process_response, found %d" % len(rets), fn=f, sample="1")
    if len(rets) != 1:
        return
    bid, i, st = rets[0]
    pay = P.operand(f, st["rv"]["ops"][0], (bid, i))
    o = pay
    while o[0] == "vp":
        o = o[2]
    cases = []
    if o[0] == "multi":
        # the whole response is the accumulator of the fold: `try_fold(response, |AppResponse { events, data }, m| .. Ok(AppResponse { events, data: .. }))` -
        # it starts as the argument and every step rebuilds it from the previous one
        e_ok = True
        n_init = n_step = 0
        for alt in o[1]:
            a0 = alt
            while a0[0] == "vp":
                a0 = a0[2]
            if a0[0] == "ok":          # (the step's own `Ok(..)` seen through the loop)
                a0 = a0[1]
                while a0[0] == "vp":
                    a0 = a0[2]
            if is_param(a0, "response"):
                n_init += 1
                cases.append((("field", ("param", 0, "response"), "data"), [], None))
            elif a0[0] == "agg" and a0[1].startswith("executor::AppResponse"):
                n_step += 1
                dd = dict(a0[2])
                e_ok = e_ok and contains(dd["events"], lambda x: x[0] == "field" and x[2] == "events" and
                                         (is_param(x[1], "response") or contains(x[1], lambda y: y[0] == "cycle")))
                cases.append((dd["data"], [], None))
            elif a0[0] == "cycle":
                continue
            else:
                e_ok = False
        e_ok = e_ok and n_init == 1 and n_step >= 1
    elif o[0] == "agg" and o[1].startswith("executor::AppResponse"):
        dd = dict(o[2])
        e_ok = contains(dd["events"], lambda x: x[0] == "field" and x[2] == "events" and is_param(x[1], "response"))
        lx = q.local_of_operand(st["rv"]["ops"][0])
        agg_sites = [(vv, cc, ss) for vv, cc, ss in (q.value_cases(P, f, lx) if lx is not None else [])]
        dl = None
        for vv, cc, ss in agg_sites:
            if ss is not None and ss[1] != "t":
                st2 = f.blocks[ss[0]]["stmts"][ss[1]]
                if st2["rv"].get("k") == "aggregate" and st2["rv"].get("adt") == "executor::AppResponse":
                    dl = q.local_of_operand(st2["rv"]["ops"][st2["rv"]["fields"].index("data")])
        cases = q.value_cases(P, f, dl) if dl is not None else []
    else:
        base = o
        while base[0] == "upd":
            base = base[1]
            while base[0] == "vp":
                base = base[2]
        e_ok = is_param(base, "response")
        if e_ok:
            cases = [(("field", base, "data"), [], None)]
            for b2, i2, st2 in f.stmts():
                if st2["k"] == "assign" and st2["dst"]["p"] and st2["dst"]["p"][-1]["k"] == "field" and st2["dst"]["p"][-1]["name"] == "data" and \
                        len([e for e in st2["dst"]["p"] if e["k"] == "field"]) == 1 and is_param(P.local(f, st2["dst"]["l"], (b2, i2)), "response"):
                    cases.append((P.rvalue(f, st2["rv"], (b2, i2)), q.dominating_conditions(P, f, b2), (b2, i2)))
    kinds = []
    for val, conds, dsite in cases:
        for v in alts(peel(val)):
            v = peel(v)
            if v[0] == "field" and v[2] == "data" and is_param(v[1], "response"):
                kinds.append("initial")
            elif v[0] == "call" and v[1] == "std::option::Option::or" and len(v[2]) == 2:
                first_new = is_sub_response_field(v[2][0], "data")
                sec = v[2][1]
                sec_prev = not is_sub_response_field(sec, "data") and (contains(sec, lambda x: x[0] == "field" and x[2] == "data" and is_param(x[1], "response"))
                                                                        or contains(sec, lambda x: x[0] in ("cycle",) or (x[0] == "bound" and x[1] == "acc")))
                kinds.append("new.or(previous)" if first_new and sec_prev else "other:or(%s, %s)" % (fmt(v[2][0])[:40], fmt(sec)[:40]))
            elif v[0] == "field" and v[2] == "data" and _is_ok_submsg(v[1]):
                # plain replacement: only under `sub_response.data.is_some()`
                guarded = any((c[0] == "bool" and c[1][0] == "is_some" and c[1][2] is True and is_sub_response_field(c[1][1][0], "data")) or
                              (c[0] == "variant_in" and c[2] == ("Some",) and is_sub_response_field(c[1], "data")) for e, c in conds)
                # .. and under nothing else that looks at the sub-response or at the data collected so far
                extra = [c for e, c in conds if c[0] == "bool" and not q.is_derived(c) and not (c[1][0] == "is_some" and c[1][2] is True and is_sub_response_field(c[1][1][0], "data")) and
                         any(contains(x, lambda y: _is_ok_submsg(y) or y[0] == "cycle" or (y[0] == "field" and y[2] == "data" and is_param(y[1], "response"))) for x in c[1][1])]
                kinds.append(("new-if-present" if not extra else "other:replacement under %s" % [(c[1][0], c[1][2]) for c in extra]) if guarded else "other:unconditional replacement")
            elif v[0] == "agg" and v[1].endswith("Option::Some") and v[2] and peel(v[2][0][1])[0] == "some" and is_sub_response_field(peel(v[2][0][1])[1], "data"):
                # `if let Some(d) = sub_response.data { data = Some(d) }`: the same replacement, re-wrapped
                guarded = any(c[0] == "variant_in" and c[2] == ("Some",) and is_sub_response_field(c[1], "data") for e, c in conds)
                extra = [c for e, c in conds if c[0] == "bool" and not q.is_derived(c) and
                         any(contains(x, lambda y: _is_ok_submsg(y) or y[0] == "cycle" or (y[0] == "field" and y[2] == "data" and is_param(y[1], "response"))) for x in c[1][1])]
                kinds.append("new-if-present" if guarded and not extra else "other:re-wrapped replacement under %s" % [(c[1][0], c[1][2]) for c in extra])
            elif v[0] in ("cycle", "never") or (v[0] == "ok" and peel(v[1])[0] == "cycle"):
                continue
            else:
                kinds.append("other:" + fmt(v)[:60])
    ok = "initial" in kinds and any(k in ("new.or(previous)", "new-if-present") for k in kinds) and not any(k.startswith("other") for k in kinds)
    ctx.ob(R, key, "last-data-wins", ok, "the returned data is built from %s; expected the response's own data, replaced by each present sub-response data" % sorted(set(kinds)), fn=f,
           sample=str(sorted(set(kinds))))
    ctx.ob(R, key, "fold-starts-from-own-data", "initial" in kinds, "the returned data does not start from response.data: %s" % sorted(set(kinds)), fn=f, sample="response.data")
    ctx.ob(R, key, "returns-collected-events-and-folded-data", e_ok, "returned AppResponse is %s" % fmt(pay)[:200], fn=f, line=st["line"], sample="AppResponse{events, data: fold}")


def r5(ctx, cfg):
    R = "C04.R5"
    a = submsg.analyse(cfg)
    if a is None:
        ctx.fail(R, submsg.KEY, "anchor-missing", "execute_submsg not found")
        return
    f = a["fn"]
    for (oc, ro), seqs in sorted(a["table"].items()):
        if oc != "Ok":
            # a failed sub-message contributes nothing of its own: either only the reply's response (events and data of
            # the reply, when reply_on says so) or the error itself
            inst = "data-and-events(%s,%s)" % (oc, ro)
            bad = []
            for s in seqs:
                evs = [e for e in s if isinstance(e, tuple)]
                if ro in ("Always", "Error"):
                    ok = len(evs) == 1 and evs[0][0] == "reply+ret"
                    want = "exactly the reply's response is returned"
                else:
                    ok = evs == [("ret", "Err(e)")]
                    want = "no reply; the sub-message's error is returned, nothing else"
                if not ok:
                    bad.append("%s (expected %s)" % (submsg.fmt_seq(s), want))
            ctx.ob(R, submsg.KEY, inst, bool(seqs) and not bad, "; ".join(bad) or "no path", fn=f, sample="%d paths conform" % len(seqs))
            continue
        inst = "data-and-events(%s,%s)" % (oc, ro)
        bad = []
        for s in seqs:
            if s[-2:] != (("ret", "Ok(r)"), "<return>"):
                if ("ret", "propagate-reply-error") not in s:
                    # neither the sub-message's response nor the reply's error: nothing this rule can read the data from
                    bad.append("%s (expected the sub-message's response, or the propagated error of reply)" % submsg.fmt_seq(s))
                continue  # propagated reply error: no response at all
            sets = [e for e in s if e[0] == "set" and e[1] == "r.data"]
            exts = [e for e in s if e[0] == "extend-events"]
            other_sets = [e for e in s if e[0] == "set" and e[1] != "r.data"]
            if ro in ("Always", "Success"):
                ok = bool(sets) and sets[-1][2] == "reply.data" and [e[2] for e in exts] == ["reply-events"] and not other_sets
                want = "data := reply's data; events += reply's events"
            else:
                ok = bool(sets) and sets[-1][2] == "None" and not exts and not other_sets
                want = "data := None, events untouched"
            if not ok:
                bad.append("%s (expected %s)" % (submsg.fmt_seq(s), want))
        ctx.ob(R, submsg.KEY, inst, not bad, "; ".join(bad), fn=f, sample="%d paths conform" % len(seqs))


def _data_writes(P, f, is_base, needle):
    """sites `x.data = <value containing a call to needle>` where x satisfies is_base"""
    out = []
    for b2, i2, st in f.stmts():
        if st["k"] == "assign" and st["dst"]["p"] and st["dst"]["p"][-1].get("name") == "data" \
                and is_base(P.local(f, st["dst"]["l"], (b2, i2))) \
                and contains(P.rvalue(f, st["rv"], (b2, i2)), lambda x: x[0] == "call" and x[1] == needle):
            out.append((b2, i2))
    for b2, t2 in f.calls():
        d = t2["dst"]
        if d["p"] and d["p"][-1].get("name") == "data" and t2["callee"]["key"] == needle and is_base(P.local(f, d["l"], (b2, "t"))):
            out.append((b2, "t"))
    return out


def _rebuilt_with(P, f, b2, i2, st, is_base, needle, call_site):
    """statement builds `AppResponse { events: base.events, data: needle(base.data) }` with the needle call at call_site"""
    rv = st.get("rv", {})
    if not (st["k"] == "assign" and rv.get("k") == "aggregate" and rv.get("adt") == "executor::AppResponse"):
        return False
    o = P.rvalue(f, rv, (b2, i2))
    dd = dict(o[2])
    ev, dv = peel(dd.get("events", ("?",))), peel(dd.get("data", ("?",)))
    return ev[0] == "field" and ev[2] == "events" and is_base(ev[1]) and dv[0] == "call" and dv[1] == needle and dv[4] == call_site


def r6(ctx, cfg):
    F, P = cfg.facts, cfg.prov
    R = "C04.R6"
    PR = W + "process_response"

    def is_ok_pr(o):
        o = peel(o)
        while o[0] == "upd":
            o = peel(o[1])
        return o[0] == "ok" and peel(o[1])[0] == "call" and peel(o[1])[1] == PR

    # Execute and Migrate arms: the returned response is the processed one with its data wrapped exactly once in the execute-response
    # envelope when there is data, and without data otherwise.  The private helper `encode_response_data` is always spliced
    # (vlib/inline.py ALWAYS_INLINE), so the statement is about the value that is returned - whether the helper exists, was
    # inlined by hand, or the wrapping moved into a `with_encoded_data(response)` helper:
    #     data = match processed.data { Some(d) => Some(encode(ExecuteResponse { data: d.to_vec() })), None => None }
    key = W + "execute_wasm"
    f = ctx.need_fn(R, key)
    if f is not None:
        def wrapped(dv, proc):
            al = [peel(x) for x in alts(peel(dv))]
            somes = [x for x in al if x[0] == "agg" and x[1].endswith("Option::Some")]
            nones = [x for x in al if x[0] == "agg" and x[1].endswith("Option::None")]
            if len(al) != 2 or len(somes) != 1 or len(nones) != 1:
                return False
            pay = somes[0][2][0][1]
            envs = []
            contains(pay, lambda x: envs.append(x) if (x[0] == "agg" and x[1].startswith("wasm::ExecuteResponse")) else False)
            # wrapped exactly once (the same envelope may be mentioned twice: `with_capacity(env.encoded_len())` and `env.encode(..)`)
            if len({repr(deep_peel(x)) for x in envs}) != 1 or any(contains(dict(x[2]).get("data", ("?",)), lambda y: y[0] == "agg" and y[1].startswith("wasm::ExecuteResponse")) for x in envs):
                return False
            inner = dict(envs[0][2]).get("data", ("?",))
            from_proc = contains(inner, lambda x: x[0] == "some" and peel(x[1])[0] == "field" and peel(x[1])[2] == "data" and same_origin(peel(x[1])[1], proc)) and \
                not contains(inner, lambda x: x[0] == "agg" and x[1].startswith(("wasm::ExecuteResponse", "wasm::InstantiateResponse")))
            ENC = ("prost::Message::encode", "prost::Message::encode_to_vec")       # (not `encoded_len`, which only sizes the buffer)
            encoded = contains(pay, lambda x: (x[0] == "call" and x[1] in ENC) or (x[0] == "mutby" and x[1] in ENC))
            return from_proc and encoded
        n = 0
        for val0, conds0, site0 in q.value_cases(P, f, 0):
            bid, i = site0
            o = peel(val0)
            if not (o[0] == "agg" and o[1].endswith("Result::Ok")):
                continue
            line = f.blocks[bid]["stmts"][i]["line"] if i != "t" else f.blocks[bid]["term"].get("line", 0)
            raw = o[2][0][1]
            while raw[0] == "vp":
                raw = raw[2]
            pay = peel(raw)
            if pay[0] == "agg" and pay[1].startswith("executor::AppResponse"):
                dd = dict(pay[2])
                ev = peel(dd.get("events", ("?",)))
                if ev[0] == "field" and ev[2] == "events" and is_ok_pr(ev[1]):
                    n += 1
                    ok = wrapped(dd.get("data", ("?",)), ev[1])
                    ctx.ob(R, key, "returned-response-has-wrapped-data@%d" % line, ok,
                           "Ok(..) returns a processed response whose data is not exactly wrapped once: %s" % fmt(pay)[:160], fn=f,
                           line=line, sample="Ok(AppResponse{events, data: data.map(execute-response envelope)})")
            elif is_ok_pr(raw) or is_ok_pr(pay):
                n += 1
                base = raw
                while base[0] == "upd":
                    base = base[1]
                    while base[0] == "vp":
                        base = base[2]
                ok = raw[0] == "upd" and all(p == ("data",) for p, v in raw[2]) and len(raw[2]) == 1 and wrapped(raw[2][0][1], base)
                ctx.ob(R, key, "returned-response-has-wrapped-data@%d" % line, ok,
                       "Ok(..) returns a processed response whose data is not exactly wrapped once: %s" % fmt(raw)[:160], fn=f,
                       line=line, sample="Ok(x with data: x.data.map(execute-response envelope))")
        ctx.ob(R, key, "two-wrapped-returns", n == 2, "expected 2 wrapped returns (Execute, Migrate), found %d" % n, fn=f, sample="2")
    # what instantiate_response makes: the protobuf encoding of InstantiateResponse { address: the new address, data: the contract's data }
    g = F.fn("wasm::instantiate_response")
    if g is not None:
        rv = P.ret(g)
        envs = []
        contains(rv, lambda x: envs.append(x) if (x[0] == "mutby" and x[1] in ("prost::Message::encode", "prost::Message::encode_to_vec")) else False)
        contains(rv, lambda x: envs.append(x) if (x[0] == "call" and x[1] == "prost::Message::encode_to_vec") else False)
        ok = False
        for m in envs:
            env = peel(m[2][0]) if m[2] else ("?",)
            if env[0] == "agg" and env[1].startswith("wasm::InstantiateResponse"):
                dd = dict(env[2])
                ok = contains(dd.get("address", ("?",)), lambda x: x[0] == "param" and x[1] == 2) and contains(dd.get("data", ("?",)), lambda x: x[0] == "param" and x[1] == 1) and \
                    not contains(dd.get("address", ("?",)), lambda x: x[0] == "param" and x[1] == 1)
        ctx.ob(R, "wasm::instantiate_response", "encodes InstantiateResponse{address, data}", ok,
               "instantiate_response does not return the encoding of InstantiateResponse { address: <address>, data: <data> }", fn=g,
               sample="InstantiateResponse{address, data}.encode(&mut buf); buf")
    # instantiate: data = Some(instantiate_response(res.data, &contract_addr))
    key = W + "process_wasm_msg_instantiate"
    f = ctx.need_fn(R, key)
    if f is not None:
        ir = q.calls(f, "wasm::instantiate_response")
        ctx.ob(R, key, "one-instantiate_response", len(ir) == 1, "expected one instantiate_response call, found %d" % len(ir), fn=f,
               sample="1")
        for bid, t in ir:
            args = P.call_args(f, t, bid)
            a = peel(args[0])
            ok = any(x[0] == "field" and x[2] == "data" and is_ok_pr(x[1]) for x in alts(a))
            addr = peel(args[1])
            ok2 = addr[0] == "ok" and peel(addr[1])[0] == "call" and peel(addr[1])[1] == W + "register_contract"
            ctx.ob(R, key, "instantiate_response(data, new address)", ok and ok2,
                   "instantiate_response receives (%s, %s)" % (fmt(a)[:80], fmt(addr)[:80]), fn=f, line=t["line"],
                   sample="instantiate_response(res.data, &contract_addr)")
        n = 0
        for bid, i, st in f.stmts():
            if st["k"] == "assign" and st["dst"]["l"] == 0 and not st["dst"]["p"]:
                o = peel(P.rvalue(f, st["rv"], (bid, i)))
                if o[0] == "agg" and o[1].endswith("Result::Ok"):
                    pay = peel(o[2][0][1])
                    n += 1
                    if pay[0] == "agg" and pay[1].startswith("executor::AppResponse"):
                        # rebuilt from its parts: the processed response's events, and Some(encoding) as data
                        dd = dict(pay[2])
                        ev = peel(dd.get("events", ("?",)))
                        dv = peel(dd.get("data", ("?",)))
                        ok = ev[0] == "field" and ev[2] == "events" and is_ok_pr(ev[1]) and dv[0] == "agg" and dv[1].endswith("Option::Some") and \
                            contains(dv, lambda x: x[0] == "call" and x[1] == "wasm::instantiate_response")
                    else:
                        ok = pay[0] == "upd" and is_ok_pr(pay) and all(p == ("data",) for p, v in pay[2]) and any(
                            peel(v)[0] == "agg" and peel(v)[1].endswith("Option::Some") and
                            contains(v, lambda x: x[0] == "call" and x[1] == "wasm::instantiate_response") for p, v in pay[2])
                        ws = _data_writes(P, f, is_ok_pr, "wasm::instantiate_response")
                        ok = ok and any(cfg_of(f).site_dominates(w, (bid, i)) for w in ws)
                    ctx.ob(R, key, "instantiate-always-returns-Some(encoding)", ok,
                           "instantiate returns %s" % fmt(pay)[:160], fn=f, line=st["line"],
                           sample="Ok(res with data: Some(instantiate_response(..)))")
        ctx.ob(R, key, "one-Ok-return", n == 1, "expected one Ok return, found %d" % n, fn=f, sample="1")
    # sudo and reply return process_response unwrapped
    for key in ("<wasm::WasmKeeper as wasm::Wasm>::sudo", W + "reply"):
        f = ctx.need_fn(R, key)
        if f is None:
            continue
        ret = peel(P.ret(f))
        rest = [o for o in alts(ret) if not (o[0] == "call" and o[1].endswith("FromResidual::from_residual"))]
        ok = len(rest) == 1 and rest[0][0] == "call" and rest[0][1] == PR
        ctx.ob(R, key, "returns-process_response-unwrapped", ok, "%s returns %s" % (key, fmt(ret)[:120]), fn=f,
               sample="process_response(..) directly")


def r7(ctx, cfg):
    F, P = cfg.facts, cfg.prov
    R = "C04.R7"
    key = "<bank::BankKeeper as module::Module>::execute"
    f = ctx.need_fn(R, key)
    if f is None:
        return
    evs = []
    for bid, t in f.calls():
        if t["callee"]["key"] == "cosmwasm_std::Event::add_attribute":
            o = P.call_origin(f, t, bid)
            lit, attrs, bulk = parse_event(o)
            if lit is not None and len(attrs) == 3:
                evs.append((bid, t, lit, attrs))
    ctx.ob(R, key, "one-transfer-event", len(evs) == 1, "expected one 3-attribute event in bank execute, found %d" % len(evs), fn=f,
           sample="1")
    for bid, t, lit, attrs in evs:
        def msgf(o, name):
            return contains(o, lambda x: x[0] == "field" and x[2] == name and is_param(peel(x[1])[1] if peel(x[1])[0] == "variant" else x[1], "msg"))
        ok = lit == ("const", "str", "transfer")
        ok = ok and peel(attrs[0][0]) == ("const", "str", "recipient") and msgf(attrs[0][1], "to_address")
        ok = ok and peel(attrs[1][0]) == ("const", "str", "sender") and is_param(attrs[1][1], "sender")
        ok = ok and peel(attrs[2][0]) == ("const", "str", "amount")
        am = peel(attrs[2][1])
        # the amount text is derived from the message's amount and nothing else (the formatting helper coins_to_string is
        # always spliced; the rendering itself - "<amount><denom>" joined by "," - is a byte-level fact that is not decided)
        from vlib.prov import leaves as _leaves
        am_full = attrs[2][1]       # unpeeled: a String assembled by push_str keeps its inputs as recorded mutations
        lv = _leaves(am_full)
        ok = ok and msgf(am_full, "amount") and not any(x[0] == "param" and x[2] != "msg" for x in lv)
        ctx.ob(R, key, "transfer(recipient,sender,amount)", ok,
               "transfer event is %s %s" % (fmt(lit), [(fmt(k), fmt(v)[:50]) for k, v in attrs]), fn=f, line=t["line"],
               sample="Event::new('transfer') recipient<-to_address sender<-sender amount<-coins_to_string(amount)")
        # dominated by the Send arm
        conds = q.dominating_conditions(P, f, bid)
        ok = any(c[0] == "variant_in" and c[2] == ("Send",) for e, c in conds)
        ctx.ob(R, key, "transfer-event-on-Send-arm", ok, "transfer event built outside the Send arm", fn=f, line=t["line"],
               sample="dominated by msg==Send")
