"""C07 — namespaced storage views are exact, disjoint windows: decided structural clauses (DESIGN.md §5 C07)."""
from vlib import q
from vlib.cfg import cfg_of
from vlib.prov import peel, fmt, is_param, contains, alts, deep_peel, same_origin, leaves, strip_adapters

LEVEL = "other"
LEVEL_TEXT = (
    "Partial: decides the code-shape clauses of C07 — read-only views are read-only by type and their write methods "
    "diverge; every key handed to the base store is concat(prefix, key) with prefix = length-prefixed encoding of the "
    "constructor's namespace(s); the range window is [prefix++start | prefix, prefix++end | upper_bound(prefix)) with the "
    "caller's order and yielded keys are trimmed by the prefix; the encoding appends encode_length(ns) then ns per "
    "segment in order and diverges above 0xFFFF. NOT decided: prefix-freeness of the 2-byte length code, the carry "
    "arithmetic of namespace_upper_bound and trim's slice arithmetic (byte-level numeric facts)."
    " Added after defect 7: a raw key of the base range is cut at len(prefix) only after starts_with(prefix) held for it, and nothing else filters the base range; the open end bound is chosen exactly when a scan over the namespace bytes found no byte other than 0xFF."
)
EXPLANATION = LEVEL_TEXT
TRUSTED = ["rustc type/borrow checker and MIR construction", "cwmt-facts driver", "vlib (provenance, dominators)",
           "std Vec::extend_from_slice / to_vec semantics"]
ASSUMPTIONS = ["the base store honours Storage's contract"]

PS = "prefixed_storage::"
NH = PS + "namespace_helpers::"
LP = PS + "length_prefixed::"
STORAGE = "cosmwasm_std::Storage"


def check(ctx, cfg):
    r1(ctx, cfg)
    r2(ctx, cfg)
    r3(ctx, cfg)
    r4(ctx, cfg)
    r5(ctx, cfg)


def r5(ctx, cfg, R="C07.R5"):
    """shape of the carry loop in namespace_upper_bound: a copy of the input, positions len-1 .. 0, a 0xFF byte becomes 0
    and the scan continues, the first other byte is incremented by one and the scan stops (decides the structure of the
    carry arithmetic, not byte-level facts about its result).  Form-agnostic: the scan may go over indices
    `(0..input.len()).rev()` with `copy[i]`, or over the bytes themselves `copy.iter_mut().rev()` with `*byte`; the byte
    test may be an `if` or a `match`."""
    F, P = cfg.facts, cfg.prov
    key = NH + "namespace_upper_bound"
    f = ctx.need_fn(R, key)
    if f is None:
        return
    cf = cfg_of(f)
    # Which spelling of the carry is this?  Three are recognised and then checked strictly: a scan over the indices or the bytes
    # from the end (one `next()` loop), and `rposition` + indexed writes.  Anything else (say a per-position `map` over
    # `enumerate()`) is a different algorithm for the same function: its arithmetic is NOT DECIDED here (DESIGN.md section 10) -
    # recorded in the evidence, not reported as a violation, because the obligations below describe the recognised spellings,
    # not the behaviour.
    has_loop = any(t["callee"]["key"] in ("std::iter::Iterator::next", "std::iter::DoubleEndedIterator::next_back") for b, t in f.calls())
    has_rpos = any(t["callee"]["name"] in ("index_mut", "fill") for b, t in f.calls())      # (a pivot search + writes at / behind it)
    ctx.ob(R, key, "carry-spelling", True, "-", fn=f,
           sample="recognised: %s" % ("scan loop" if has_loop else "rposition + indexed writes") if (has_loop or has_rpos) else
           "NOT DECIDED: unrecognised spelling of the carry (no scan loop, no rposition + indexed writes)")
    if not (has_loop or has_rpos):
        return
    l = _ret_local(f)
    whole = [d for d in P.defs(f).get(l, []) if not d[3]["dst"]["p"]] if l is not None else []
    ok = len(whole) == 1 and is_param(P.call_origin(f, whole[0][3], whole[0][1]) if whole[0][0] == "call" else P.rvalue(f, whole[0][3]["rv"], (whole[0][1], whole[0][2])), "input")
    ctx.ob(R, key, "result-is-a-copy-of-the-input", ok, "namespace_upper_bound does not return a (modified) copy of its input", fn=f, sample="copy = input.to_vec(); ..; copy")

    def is_copy(o):
        o = peel(o)
        return o[0] == "param" and o[2] == "input"    # to_vec / iter_mut / deref_mut are value-preserving: the copy `is` the input bytes

    # the scan: one loop, over rev(..) of either the index range of the input or the bytes of the copy
    nxt = [(b, t) for b, t in f.calls() if t["callee"]["key"] in ("std::iter::Iterator::next", "std::iter::DoubleEndedIterator::next_back")]
    ok = len(nxt) == 1
    d = "%d loops" % len(nxt)
    form = None
    src = None
    if ok:
        nb, nt = nxt[0]
        src = peel(P.call_args(f, nt, nb)[0])
        d = fmt(src)[:100]
        if src[0] == "call" and src[1] == "std::iter::Iterator::rev":
            inner = peel(src[2][0])
            if inner[0] == "agg" and inner[1].startswith("std::ops::Range::"):
                dd = dict(inner[2])
                s0, e0 = peel(dd.get("start", ("?",))), peel(dd.get("end", ("?",)))
                if s0 == ("const", "int", 0) and e0[0] == "call" and e0[1].endswith("len") and is_copy(e0[2][0]):
                    form = "index"
            elif is_copy(inner):
                form = "bytes"
        if nt["callee"]["key"].endswith("next_back"):
            form = None
    if form is None and not nxt:
        form = _rposition_form(ctx, cfg, R, key, f, is_copy)
        if form is not None:
            return
        ctx.ob(R, key, "scans-every-index-from-the-end", False, "indexed writes to the copy without a scan from the end or an rposition pivot", fn=f)
        return
    ctx.ob(R, key, "scans-every-index-from-the-end", form is not None, "carry loop iterates %s (expected (0..input.len()).rev() or copy.iter_mut().rev())" % d, fn=f,
           sample="%s form: %s" % (form, d))
    if form is None:
        return

    def is_pos(o):
        """the scan position: the loop element"""
        o = peel(o)
        return o[0] == "bound" and o[1] == "elem" and same_origin(o[2], strip_adapters(src))

    def is_byte(o):
        """the byte at the scan position"""
        o = peel(o)
        if form == "bytes":
            return is_pos(o)
        return o[0] == "call" and o[1].rsplit("::", 1)[-1] in ("index", "index_mut") and is_copy(o[2][0]) and is_pos(o[2][1])

    # the byte test and the two arms
    gs = [g for g in q.guards(P, f) if g[1] == "eq" and any(x == ("const", "int", 255) for x in g[2])]
    ok = len(gs) == 1 and any(is_byte(x) for x in gs[0][2])
    ctx.ob(R, key, "tests-byte==0xFF", ok, "expected one `byte == 255` test on the byte at the scan position, found %d" % len(gs), fn=f, sample="copy[i] == 255")
    if not ok:
        return
    gb, pred, gargs, ff_edge, other_edge = gs[0]
    # writes to a byte of the copy
    writes = []
    for b, i, st in f.stmts():
        if st["k"] == "assign" and st["dst"]["p"] and st["dst"]["p"][0]["k"] == "deref":
            base = peel(P.local(f, st["dst"]["l"], (b, i)))
            while base[0] == "upd":
                base = peel(base[1])
            if (base[0] == "call" and base[1].endswith("IndexMut::index_mut")) or (base[0] == "bound" and base[1] == "elem"):
                writes.append((b, i, st, peel(P.rvalue(f, st["rv"], (b, i))), base))
    zero = [(b, v) for b, i, st, v, base in writes if v == ("const", "int", 0)]
    inc = [(b, v) for b, i, st, v, base in writes if v[0] in ("binop", "field") and contains(v, lambda x: x[0] == "binop" and x[1] == "add" and peel(x[3]) == ("const", "int", 1) and is_byte(x[2]))]
    ok = len(writes) == 2 and len(zero) == 1 and len(inc) == 1
    ctx.ob(R, key, "two-writes: 0 and +1", ok, "carry loop writes %s" % [fmt(v)[:40] for b, i, st, v, base in writes], fn=f, sample="copy[i] = 0 | copy[i] += 1")
    if ok:
        zb, ib = zero[0][0], inc[0][0]
        ok1 = cf.dominates(ff_edge, zb) and not cf.dominates(ff_edge, ib) and cf.dominates(other_edge, ib)
        ctx.ob(R, key, "0xFF->0, other->+1", ok1, "the arms of the byte test are swapped or misplaced", fn=f, sample="== 255: zero it; else: increment")
        # after zeroing the scan continues (reaches next()), after incrementing it stops (never reaches next())
        ok2 = nxt[0][0] in cf.reachable_from(zb) and nxt[0][0] not in cf.reachable_from(ib)
        ctx.ob(R, key, "carry-continues-after-0xFF-stops-after-increment", ok2, "the scan does not continue after a 0xFF byte / does not stop after the increment", fn=f,
               sample="zero -> next(); increment -> return")
        # every byte access is at the scan position
        idx_ok = all(is_byte(base) for b, i, st, v, base in writes)
        for b, t in f.calls():
            if t["callee"]["name"] in ("index", "index_mut"):
                a = P.call_args(f, t, b)
                idx_ok = idx_ok and is_pos(a[1])
        ctx.ob(R, key, "indexed-by-the-scan-position", idx_ok, "a byte is read or written at an index other than the scan position", fn=f, sample="copy[i]")


def _rposition_form(ctx, cfg, R, key, f, is_copy):
    """the same carry without a hand-written scan: `match copy.iter().rposition(|b| *b != 255) { Some(p) => { copy[p] += 1;
    copy[p + 1..].fill(0) } None => .. }` - the last byte that is not 0xFF is incremented, every byte behind it (all 0xFF)
    becomes 0.  Returns "rposition" when the function is written this way (its obligations are recorded here), else None."""
    F, P = cfg.facts, cfg.prov
    cf = cfg_of(f)
    rp = [(b, t) for b, t in f.calls() if t["callee"]["key"] in ("std::iter::Iterator::rposition",)]
    if len(rp) != 1:
        return None
    rb, rt = rp[0]
    a = P.call_args(f, rt, rb)
    clo = peel(a[1])
    g = F.fn(clo[1]) if clo[0] == "closure" else None
    pred = q.norm_cond(P.ret(g), True) if g is not None else None
    ok = is_copy(strip_adapters(a[0])) and not q.chain_adapters(a[0])[1:] and pred is not None and pred[0] == "eq" and pred[2] is False and \
        any(x == ("const", "int", 255) for x in pred[1]) and any(peel(x)[0] == "cparam" for x in pred[1])
    ctx.ob(R, key, "scans-every-index-from-the-end", ok, "rposition over %s with predicate %s (expected copy.iter().rposition(|b| *b != 255))" % (fmt(a[0])[:60], pred),
           fn=f, sample="rposition form: last index whose byte is not 0xFF")
    if not ok:
        return "rposition"

    def is_pivot(o):
        o = peel(o)
        return o[0] == "some" and peel(o[1])[0] == "call" and peel(o[1])[1] == "std::iter::Iterator::rposition"

    def base_is_copy(o):
        o = peel(o)
        while o[0] == "upd":
            o = peel(o[1])
        return is_copy(o)
    # writes: one `copy[pivot] += 1`, one `copy[pivot + 1..].fill(0)`, both under Some(pivot); nothing else indexed
    incs, fills, others = [], [], []
    for b, i, st in f.stmts():
        if st["k"] == "assign" and st["dst"]["p"] and st["dst"]["p"][0]["k"] == "deref":
            base = peel(P.local(f, st["dst"]["l"], (b, i)))
            while base[0] == "upd":
                base = peel(base[1])
            if base[0] == "call" and base[1].endswith("IndexMut::index_mut"):
                v = peel(P.rvalue(f, st["rv"], (b, i)))
                at_pivot = base_is_copy(base[2][0]) and is_pivot(base[2][1])
                plus1 = contains(v, lambda x: x[0] == "binop" and x[1] == "add" and peel(x[3]) == ("const", "int", 1) and peel(x[2])[0] == "call" and
                                 peel(x[2])[1].endswith("IndexMut::index_mut") and is_pivot(peel(x[2])[2][1]))
                (incs if at_pivot and plus1 else others).append(b)
    for b, t in f.calls():
        if t["callee"]["key"] == "[T]::fill":
            fa = P.call_args(f, t, b)
            tgt = peel(fa[0])
            if tgt[0] == "call" and tgt[1].endswith("IndexMut::index_mut"):
                r = peel(tgt[2][1])
                st0 = peel(dict(r[2]).get("start", ("?",))) if r[0] == "agg" and r[1].endswith("RangeFrom") else ("?",)
                after = st0[0] in ("binop", "field") and contains(st0, lambda x: x[0] == "binop" and x[1] == "add" and is_pivot(x[2]) and peel(x[3]) == ("const", "int", 1))
                if st0[0] == "binop":
                    after = st0[1] == "add" and is_pivot(st0[2]) and peel(st0[3]) == ("const", "int", 1)
                (fills if base_is_copy(tgt[2][0]) and after and peel(fa[1]) == ("const", "int", 0) else others).append(b)
            elif not any(c[0] == "variant_in" and c[2] == ("None",) for e, c in q.dominating_conditions(P, f, b)):
                others.append(b)     # (a whole-copy fill is only acceptable in the "all bytes are 0xFF" arm, which has no meaning)
        elif t["callee"]["name"] in ("index_mut",) and not (is_pivot(P.call_args(f, t, b)[1]) or peel(P.call_args(f, t, b)[1])[0] == "agg"):
            others.append(b)
    ok = len(incs) == 1 and len(fills) == 1 and not others
    ctx.ob(R, key, "two-writes: 0 and +1", ok, "expected `copy[pivot] += 1` and `copy[pivot + 1..].fill(0)`, found %d/%d and %d other indexed writes" % (len(incs), len(fills), len(others)),
           fn=f, sample="copy[pivot] += 1; copy[pivot + 1..].fill(0)")
    if ok:
        some = [e for e, c in q.dominating_conditions(P, f, incs[0]) if c[0] == "variant_in" and c[2] == ("Some",) and peel(c[1])[0] == "call" and
                peel(c[1])[1] == "std::iter::Iterator::rposition"]
        ok1 = bool(some) and all(cf.dominates(some[0], b) for b in incs + fills) and all(cf.must_pass(fills[0], r) or not cf.dominates(some[0], r) for r in cf.return_blocks())
        ctx.ob(R, key, "0xFF->0, other->+1", ok1 and fills[0] in cf.reachable_from(incs[0]) or (ok1 and incs[0] in cf.reachable_from(fills[0])),
               "the increment and the zero-fill are not both done exactly when a byte other than 0xFF exists", fn=f, sample="Some(pivot): increment it, zero the 0xFF bytes behind it")
    return "rposition"


def _self_field(o, name):
    o = peel(o)
    return o[0] == "field" and o[2] == name and is_param(o[1], "self")


def r1(ctx, cfg):
    F, P = cfg.facts, cfg.prov
    R = "C07.R1"
    adt = F.adts.get(PS + "ReadonlyPrefixedStorage")
    ok = False
    if adt:
        fl = {x["name"]: x for x in adt["variants"][0]["fields"]}
        ok = fl["storage"]["ty"].get("ref") == "shared"
    ctx.ob(R, PS + "ReadonlyPrefixedStorage", "holds-shared-reference", ok, "ReadonlyPrefixedStorage.storage must be `&dyn Storage`",
           sample="&dyn Storage")
    for name in ("set", "remove"):
        key = "<%sReadonlyPrefixedStorage as %s>::%s" % (PS, STORAGE, name)
        f = ctx.need_fn(R, key)
        if f is not None:
            ctx.ob(R, key, "write-diverges", q.diverges(f) and not [c for c in f.calls() if c[1]["callee"].get("trait") == STORAGE],
                   "ReadonlyPrefixedStorage::%s must reject the write (diverge) and touch no store" % name, fn=f,
                   sample="no return reachable, no Storage call")
    # App's read-only accessors build only read-only views
    exp = {"app::App::prefixed_storage": PS + "prefixed_read", "app::App::prefixed_multilevel_storage": PS + "prefixed_multilevel_read",
           "app::App::contract_storage": "wasm::Wasm::contract_storage"}
    for key, callee in exp.items():
        f = ctx.need_fn(R, key)
        if f is None:
            continue
        imp_ok = False
        for imp in F.impls:
            for m in imp["methods"]:
                if m["key"] == key:
                    imp_ok = m["inputs"][0].get("ref") == "shared"
        views = [t["callee"]["key"] for b, t in f.calls() if any(q.is_storage_ty(ty) for ty in t["callee"].get("inputs", []))]
        ctx.ob(R, key, "read-only-accessor", imp_ok and views == [callee], "%s takes &self=%s and builds views via %s" % (key, imp_ok, views), fn=f,
               sample="&self, %s" % callee)
    key = "wasm::Wasm::contract_storage"
    f = ctx.need_fn(R, key)
    if f is not None:
        views = [t["callee"]["key"] for b, t in f.calls() if t["callee"]["key"].startswith(PS)]
        ctx.ob(R, key, "builds-ReadonlyPrefixedStorage", views in ([PS + "ReadonlyPrefixedStorage::multilevel"], [PS + "prefixed_multilevel_read"]),   # the alias is checked below
           "contract_storage builds %s" % views, fn=f,
               sample=str(views))
    for name, want in (("prefixed_read", "ReadonlyPrefixedStorage::new"), ("prefixed_multilevel_read", "ReadonlyPrefixedStorage::multilevel"),
                       ("prefixed", "PrefixedStorage::new"), ("prefixed_multilevel", "PrefixedStorage::multilevel")):
        f = ctx.need_fn(R, PS + name)
        if f is None:
            continue
        ret = peel(P.ret(f))
        ok = ret[0] == "call" and ret[1] == PS + want and all(o[0] == "param" and o[1] == i + 1 for i, o in enumerate(peel(a) for a in ret[2]))
        ctx.ob(R, PS + name, "alias-of-%s" % want, ok, "%s returns %s" % (name, fmt(ret)[:100]), fn=f, sample="%s(storage, namespace)" % want)


def _is_concat(o, ns_pred, key_pred):
    o = peel(o)
    return o[0] == "call" and o[1] == NH + "concat" and ns_pred(o[2][0]) and key_pred(o[2][1])


def r2(ctx, cfg, R="C07.R2"):
    F, P = cfg.facts, cfg.prov
    # helpers
    for name, meth, extra in (("get_with_prefix", "get", ()), ("set_with_prefix", "set", ("value",)), ("remove_with_prefix", "remove", ())):
        key = NH + name
        f = ctx.need_fn(R, key)
        if f is None:
            continue
        st = [(b, t) for b, t in f.calls() if t["callee"].get("trait") == STORAGE]
        ok = len(st) == 1 and st[0][1]["callee"]["name"] == meth
        d = "?"
        if ok:
            a = P.call_args(f, st[0][1], st[0][0])
            d = "%s(%s)" % (meth, ", ".join(fmt(x)[:60] for x in a))
            ok = is_param(a[0], "storage") and _is_concat(a[1], lambda x: is_param(x, "namespace"), lambda x: is_param(x, "key"))
            for i, e in enumerate(extra):
                ok = ok and is_param(a[2 + i], e)
        ctx.ob(R, key, "base.%s(concat(namespace,key))" % meth, ok, "%s performs %s" % (name, d), fn=f, sample=d)
    # concat = namespace ++ key
    key = NH + "concat"
    f = ctx.need_fn(R, key)
    if f is not None:
        from vlib import pipeline
        parts = pipeline.byte_parts(P, F, f, P.ret(f))
        d = "unrecognised" if parts is None else " ++ ".join(fmt(x)[:40] for x in parts)
        ok = parts is not None and len(parts) == 2 and is_param(parts[0], "namespace") and is_param(parts[1], "key")
        ctx.ob(R, key, "concat=namespace++key", ok, "concat builds %s" % d, fn=f, sample=d)
    # trait methods of both views
    for ty, methods in (("PrefixedStorage", ("get", "set", "remove", "range")), ("ReadonlyPrefixedStorage", ("get", "range"))):
        for m in methods:
            key = "<%s%s as %s>::%s" % (PS, ty, STORAGE, m)
            f = ctx.need_fn(R, key)
            if f is None:
                continue
            helper = NH + {"get": "get_with_prefix", "set": "set_with_prefix", "remove": "remove_with_prefix", "range": "range_with_prefix"}[m]
            cs = q.calls(f, helper)
            others = [t["callee"]["key"] for b, t in f.calls() if t["callee"]["key"] != helper and not t["callee"]["key"].startswith("std::")
                      and not t["callee"].get("trait", "").startswith("std::")]
            ok = len(cs) == 1 and not others
            d = "?"
            if ok:
                a = P.call_args(f, cs[0][1], cs[0][0])
                d = "%s(%s)" % (helper.rsplit("::", 1)[1], ", ".join(fmt(x)[:40] for x in a))
                ok = _self_field(a[0], "storage") and _self_field(a[1], "prefix")
                rest = {"get": ("key",), "set": ("key", "value"), "remove": ("key",), "range": ("start", "end", "order")}[m]
                ok = ok and len(a) == 2 + len(rest) and all(is_param(a[2 + i], n) for i, n in enumerate(rest))
                if m in ("get", "range"):
                    ok = ok and peel(P.ret(f))[0] == "call" and peel(P.ret(f))[1] == helper
            ctx.ob(R, key, "delegates-with-own-prefix", ok, "%s::%s performs %s (others: %s)" % (ty, m, d, others), fn=f, sample=d)
        # constructors
        for cons, enc, arg in (("new", LP + "to_length_prefixed", "namespace"), ("multilevel", LP + "to_length_prefixed_nested", "namespaces")):
            key = "%s%s::%s" % (PS, ty, cons)
            f = ctx.need_fn(R, key)
            if f is None:
                continue
            ret = peel(P.ret(f))
            ok = ret[0] == "agg"
            if ok:
                d = dict(ret[2])
                p = peel(d["prefix"])
                ok = is_param(d["storage"], "storage") and p[0] == "call" and p[1] == enc and is_param(p[2][0], arg)
            ctx.ob(R, key, "prefix=%s(%s)" % (enc.rsplit("::", 1)[1], arg), ok, "%s builds %s" % (key, fmt(ret)[:120]), fn=f,
                   sample="storage<-storage, prefix<-%s(%s)" % (enc.rsplit("::", 1)[1], arg))


def r3(ctx, cfg, R="C07.R3"):
    F, P = cfg.facts, cfg.prov
    key = NH + "range_with_prefix"
    f = ctx.need_fn(R, key)
    if f is None:
        return
    rc = [(b, t) for b, t in f.calls() if t["callee"].get("trait") == STORAGE]
    ok = len(rc) == 1 and rc[0][1]["callee"]["name"] == "range"
    ctx.ob(R, key, "one-base-range", ok, "expected exactly one Storage::range call", fn=f, sample="1")
    if not ok:
        return
    rb, rt = rc[0]
    # operands: Some(&start'), Some(&end'), order
    ops = rt["args"]
    a = P.call_args(f, rt, rb)
    ctx.ob(R, key, "base-is-own-storage-and-order", is_param(a[0], "storage") and is_param(a[3], "order"),
           "base range on %s with order %s" % (fmt(a[0]), fmt(a[3])), fn=f, sample="storage.range(.., .., order)")
    def is_upper(o):
        o = peel(o)
        if o[0] == "agg" and o[1].endswith("Option::Some"):
            o = peel(o[2][0][1])
        return o[0] == "call" and o[1] == NH + "namespace_upper_bound" and is_param(o[2][0], "namespace")

    def is_concat_of(o, pname):
        o = peel(o)
        if o[0] == "agg" and o[1].endswith("Option::Some"):
            o = peel(o[2][0][1])
        return _is_concat(o, lambda x: is_param(x, "namespace"), lambda x: peel(x)[0] == "some" and is_param(peel(x)[1], pname))

    for idx, pname in ((1, "start"), (2, "end")):
        # find the local holding the bound and its definitions with their guarding conditions
        l = _trace_local(P, f, ops[idx], rb)
        cells = {"Some": [], "None": [], None: []}
        for val, conds, dsite in (q.value_cases(P, f, l) if l is not None else []):
            tag = None
            others = []
            for e, c in conds:
                if c[0] == "variant_in" and is_param(c[1], pname) and c[2] in (("Some",), ("None",)):
                    tag = c[2][0]
                elif q.is_derived(c):
                    continue
                elif c[0] in ("bool",):
                    others.append(c)
                elif c[0] == "variant_in" and not is_param(c[1], pname):
                    # e.g. the exhausted / not exhausted edge of a scan over the namespace (`all(..)` written as a loop)
                    others.append(("bool", ("variant", (c[1],), True), c[2]))
            cells[tag].append((val, others))
        if pname == "start" and len(cells[None]) == 1 and not cells["Some"] and not cells["None"]:
            # `concat(namespace, start.unwrap_or_default())`: an absent start is the empty key, and namespace ++ "" is the namespace
            v0 = peel(cells[None][0][0])
            if _is_concat(v0, lambda x: is_param(x, "namespace"),
                          lambda x: peel(x)[0] == "call" and peel(x)[1] == "std::option::Option::unwrap_or_default" and is_param(peel(x)[2][0], "start")) and not cells[None][0][1]:
                cells = {"Some": [(("call", NH + "concat", (("param", 0, "namespace"), ("some", ("param", 0, "start"))), None, None), [])],
                         "None": [(("param", 0, "namespace"), [])], None: []}
        ctx.ob(R, key, "%s-bound-defined-per-case" % pname, not cells[None] and len(cells["Some"]) == 1 and len(cells["None"]) >= 1,
               "%s bound has definitions outside the Some/None cases of `%s` (%s)" % (pname, pname, {k: len(v) for k, v in cells.items()}), fn=f,
               sample="Some: %d def, None: %d defs" % (len(cells["Some"]), len(cells["None"])))
        ok_some = len(cells["Some"]) == 1 and is_concat_of(cells["Some"][0][0], pname)
        ctx.ob(R, key, "%s=Some->concat(namespace,%s)" % (pname, pname), ok_some,
               "%s bound under Some is %s" % (pname, [fmt(v)[:80] for v, _ in cells["Some"]]), fn=f, sample="concat(namespace, %s)" % pname)
        if pname == "start":
            ok_none = len(cells["None"]) == 1 and is_param(cells["None"][0][0], "namespace")
            ctx.ob(R, key, "start=None->namespace", ok_none, "start bound under None is %s" % [fmt(v)[:80] for v, _ in cells["None"]], fn=f, sample="namespace")
            # the start bound is always finite (inclusive lower end of the window)
            so = peel(a[1])
            ctx.ob(R, key, "start-bound-is-Some", so[0] == "agg" and so[1].endswith("Option::Some"), "base start bound is %s" % fmt(so)[:80], fn=f, sample="Some(&start)")
        else:
            kinds = []

            def scan_of_namespace(c, variant):
                """`c` is the exhausted (None) / not exhausted (Some) edge of a scan over the bytes of the namespace"""
                return len(c) > 2 and c[1][0] == "variant" and c[2] == (variant,) and \
                    contains(c[1][1][0], lambda x: x[0] == "call" and x[1].rsplit("::", 1)[-1] in ("next", "next_back")) and \
                    {x[2] for x in leaves(c[1][1][0]) if x[0] == "param"} == {"namespace"}

            def byte_is_ff(c, pol):
                if len(c) > 2 or c[1][0] != "eq" or c[1][2] is not pol:
                    return False
                a0, a1 = (peel(x) for x in c[1][1])
                return any(x == ("const", "int", 255) for x in (a0, a1)) and \
                    any(x[0] == "bound" and x[1] == "elem" and is_param(strip_adapters(x[2]), "namespace") for x in (a0, a1))
            for v, others in cells["None"]:
                pv = peel(v)
                if pv[0] == "agg" and pv[1].endswith("Option::None"):
                    # the open end is chosen exactly when a scan over the namespace found no byte other than 0xFF (an empty
                    # namespace included): reached by exhausting the scan, and by nothing else
                    kinds.append("unbounded" if len(others) == 1 and scan_of_namespace(others[0], "None") else "unbounded?")
                elif is_upper(v):
                    # the finite bound is chosen exactly when the scan met a byte that is not 0xFF
                    rest = [c for c in others if not scan_of_namespace(c, "Some")]
                    kinds.append("upper" if len(rest) == 1 and byte_is_ff(rest[0], False) else "upper?")
                else:
                    kinds.append("other:" + fmt(v)[:60])
            ctx.ob(R, key, "end=None->namespace_upper_bound(namespace)", "upper" in kinds and all(k in ("upper", "unbounded") for k in kinds),
                   "end bound under None is %s" % kinds, fn=f, sample="namespace_upper_bound(namespace)")
            # necessary condition of "exactly the entries whose raw key starts with the prefix" for EVERY namespace path: the empty
            # path and a prefix of 0xFF bytes only have no finite exclusive upper bound, so the end handed to the base store
            # must be able to be unbounded (a constant Some(..) makes the window of those namespaces empty)
            ctx.ob(R, key, "end=None-can-be-unbounded", "unbounded" in kinds,
                   "the end bound handed to the base store is always finite (%s): for the empty namespace path (and a prefix of 0xFF bytes only) "
                   "no finite exclusive upper bound exists, so an open-ended range on such a view returns nothing" % kinds, fn=f,
                   sample="None when the namespace has no upper bound, else Some(upper bound)")
    # yielded keys are trimmed by the prefix; values untouched
    clos = [g for g in F.lexical(key) if g.kind == "closure" and (P.closure_use(g) or (None, None, {"callee": {"key": ""}}))[2]["callee"]["key"] == "std::iter::Iterator::map"]
    ok = len(clos) == 1
    guarded = False
    fm = [g for g in F.lexical(key) if g.kind == "closure" and (P.closure_use(g) or (None, None, {"callee": {"key": ""}}))[2]["callee"]["key"] == "std::iter::Iterator::filter_map"]
    mapped_by = "std::iter::Iterator::map"
    if not clos and len(fm) == 1:
        # the same two steps in one: `.filter_map(|(k, v)| k.strip_prefix(prefix).map(|rest| (rest.to_vec(), v)))` - std's
        # strip_prefix yields the rest of the key exactly when the key starts with the prefix
        mapped_by = "std::iter::Iterator::filter_map"
        g = fm[0]
        use = P.closure_use(g)
        src_full = P.call_args(use[0], use[2], use[1])[0]
        src = peel(src_full)
        ok = src[0] == "call" and src[1] == "cosmwasm_std::Storage::range"

        def is_strip(x):
            x = peel(x)
            return x[0] == "call" and x[1].endswith("::strip_prefix") and len(x[2]) == 2 and is_param(x[2][1], "namespace") and \
                contains(x[2][0], lambda y: y[0] == "field" and y[2] == "0" and peel(y[1])[0] == "bound" and peel(y[1])[1] == "elem")
        def is_len_ns(x):
            x = peel(x)
            return x[0] == "call" and x[1].endswith("len") and is_param(x[2][0], "namespace")

        def is_elem_key(x):
            x = peel(x)
            return x[0] == "field" and x[2] == "0" and peel(x[1])[0] == "bound" and peel(x[1])[1] == "elem"

        def is_cut(x):
            # the raw key without its first len(namespace) bytes: `k[namespace.len()..]`, or the owned key drained in place
            x0 = x
            while x0[0] == "vp":
                x0 = x0[2]
            if x0[0] == "upd" and is_elem_key(x0[1]) and len(x0[2]) == 1:
                how = x0[2][0][1]
                return how[0] == "mutby" and how[1] == "std::vec::Vec::drain" and len(how[2]) == 1 and peel(how[2][0])[0] == "agg" and \
                    peel(how[2][0])[1].endswith("RangeTo") and is_len_ns(peel(how[2][0])[2][0][1])
            x = peel(x)
            return x[0] == "call" and x[1].rsplit("::", 1)[-1] == "index" and len(x[2]) == 2 and is_elem_key(x[2][0]) and peel(x[2][1])[0] == "agg" and \
                peel(x[2][1])[1].endswith("RangeFrom") and is_len_ns(peel(x[2][1])[2][0][1])

        def carries(conds, pol):
            return any(c[0] == "bool" and c[1][0] == "starts_with" and c[1][2] is pol and len(c[1][1]) == 2 and is_param(c[1][1][1], "namespace") and
                       is_elem_key(c[1][1][0]) for e, c in conds)
        somes, nones, others = [], [], []
        cut_form = False
        for val, conds, site in q.value_cases(P, g, 0):
            pv = peel(val)
            if pv[0] == "agg" and pv[1].endswith("Option::Some") and peel(pv[2][0][1])[0] == "agg" and len(peel(pv[2][0][1])[2]) == 2 and \
                    is_cut(peel(pv[2][0][1])[2][0][1]):
                # `if k.starts_with(&prefix) { Some((cut(k), v)) } else { None }`
                tup0 = peel(pv[2][0][1])
                v0 = peel(tup0[2][1][1])
                if carries(conds, True) and v0[0] == "field" and v0[2] == "1" and peel(v0[1])[0] == "bound":
                    cut_form = True
                    somes.append(tup0)
                else:
                    others.append(pv)
            elif pv[0] == "agg" and pv[1].endswith("Option::None") and carries(conds, False):
                nones.append(pv)
            elif pv[0] == "agg" and pv[1].endswith("Option::Some"):
                somes.append(peel(pv[2][0][1]))
            elif (pv[0] == "agg" and pv[1].endswith("Option::None") or
                  # `strip_prefix(..)?` inside the closure: the residual of a None is None
                  pv[0] == "call" and pv[1].endswith("FromResidual::from_residual") and peel(pv[2][0])[0] == "err" and is_strip(peel(pv[2][0])[1])) and \
                    any(c[0] == "variant_in" and c[2] in (("None",), ("Break",)) and is_strip(c[1]) for e, c in conds):
                nones.append(pv)
            else:
                others.append(pv)
        ok = ok and len(somes) == 1 and not others and len(nones) >= 1
        if ok and not cut_form:
            tup = somes[0]
            ok = tup[0] == "agg" and tup[1] == "tuple" and len(tup[2]) == 2
            if ok:
                k, v = peel(tup[2][0][1]), peel(tup[2][1][1])
                ok = k[0] in ("some", "ok") and is_strip(k[1]) and v[0] == "field" and v[2] == "1" and peel(v[1])[0] == "bound"
        guarded = ok
    elif ok:
        g = clos[0]
        use = P.closure_use(g)
        ok = use is not None and use[2]["callee"]["key"] == "std::iter::Iterator::map"
        if ok:
            src_full = P.call_args(use[0], use[2], use[1])[0]
            src = peel(strip_adapters(src_full))
            fconds = [c[1] for e, c in q.filter_conditions(P, F, src_full)]

            def is_prefix_test(c):
                pred, args, pol = c
                return pred == "starts_with" and pol is True and len(args) == 2 and is_param(args[1], "namespace") and \
                    contains(args[0], lambda x: x[0] == "field" and x[2] == "0" and peel(x[1])[0] == "bound" and peel(x[1])[1] == "elem")
            # between the base range and the mapping only a filter on "the raw key carries the prefix" may sit (anything else
            # would drop or reorder entries of the window)
            ok = src[0] == "call" and src[1] == "cosmwasm_std::Storage::range" and all(a == "filter" for a in q.chain_adapters(src_full)) and \
                all(is_prefix_test(c) for c in fconds)
            guarded = any(is_prefix_test(c) for c in fconds) or \
                any(c[0] == "bool" and is_prefix_test(c[1]) for b2, t2 in g.calls() if t2["callee"]["name"] == "index"
                    for e, c in q.dominating_conditions(P, g, b2))
        ret = peel(P.ret(g))
        ok = ok and ret[0] == "agg" and ret[1] == "tuple" and len(ret[2]) == 2
        if ok:
            k, v = peel(ret[2][0][1]), peel(ret[2][1][1])
            # key' = key[len(namespace)..]  (the helper `trim` is always spliced - vlib/inline.py ALWAYS_INLINE)
            ok = k[0] == "call" and k[1].rsplit("::", 1)[-1] == "index" and len(k[2]) == 2 and \
                contains(k[2][0], lambda x: x[0] == "field" and x[2] == "0" and peel(x[1])[0] == "bound") and \
                v[0] == "field" and v[2] == "1" and peel(v[1])[0] == "bound"
            if ok:
                r = peel(k[2][1])
                ok = r[0] == "agg" and r[1].endswith("RangeFrom") and peel(r[2][0][1])[0] == "call" and peel(r[2][0][1])[1].endswith("len") and \
                    is_param(peel(r[2][0][1])[2][0], "namespace")
    ctx.ob(R, key, "yields(trim(prefix,k), v)", ok, "mapping closure does not yield (trim(prefix, key), value)", fn=f,
           sample="map(|(k, v)| (trim(&prefix, &k), v))")
    # "exposes exactly the base entries whose raw key starts with the prefix ... never read any other key": the bounds alone do
    # not give that - for a prefix ending in 0xFF bytes the exclusive end `namespace_upper_bound` computes (`fp\0` for `fo\xff`)
    # lets the shorter raw key `fp` into the base range, and cutting `len(prefix)` bytes off it panics. So the key whose prefix is
    # cut off must have been tested to carry it.
    ctx.ob(R, key, "only-keys-carrying-the-prefix-are-trimmed", ok and guarded,
           "a raw key of the base range is cut at len(namespace) without having been tested with starts_with(namespace): for a namespace "
           "ending in 0xFF bytes a shorter foreign key (`fp` between `fo\\xff` and the bound `fp\\0`) is inside the base range - the view "
           "reads it and the slice panics", fn=f, sample="filter(|(k, _)| k.starts_with(&prefix)) before the trim")
    ret = P.ret(f)
    ctx.ob(R, key, "returns-mapped-iterator", contains(ret, lambda x: x[0] == "call" and x[1] == mapped_by),
           "range_with_prefix does not return the mapped iterator", fn=f, sample="Box::new(mapped)")


def _trace_local(P, f, op, bid):
    """follow `Some(&*deref(&x))` wrappers back to the user variable x"""
    seen = 0
    cur = op
    while seen < 12:
        seen += 1
        if cur["k"] not in ("copy", "move"):
            return None
        l = cur["place"]["l"]
        if l in f.names:
            return l
        ds = P.defs(f).get(l, [])
        if len(ds) != 1:
            return l
        kind, db, di, x = ds[0]
        if kind == "assign":
            rv = x["rv"]
            if rv["k"] == "use":
                cur = rv["op"]
            elif rv["k"] == "ref":
                cur = {"k": "copy", "place": {"l": rv["place"]["l"], "p": []}}
            elif rv["k"] == "aggregate" and rv["ops"]:
                cur = rv["ops"][0]
            elif rv["k"] == "cast":
                cur = rv["op"]
            else:
                return l
        else:
            if x["args"]:
                cur = x["args"][0]
            else:
                return l
    return None


def r4(ctx, cfg, R="C07.R4"):
    F, P = cfg.facts, cfg.prov
    key = LP + "to_length_prefixed"
    f = ctx.need_fn(R, key)
    if f is not None:
        from vlib import pipeline
        parts = pipeline.byte_parts(P, F, f, P.ret(f))
        d = "unrecognised" if parts is None else " ++ ".join(fmt(x)[:50] for x in parts)
        def is_len_code(x):
            x = peel(x)
            return x[0] == "call" and x[1] == LP + "encode_length" and is_param(x[2][0], "namespace")
        ok = parts is not None and len(parts) in (2, 3) and is_param(parts[-1], "namespace")
        if ok and len(parts) == 2:
            ok = is_len_code(parts[0])
        elif ok:
            # the two bytes of encode_length(namespace) pushed one by one, in order
            b0, b1 = parts[0], parts[1]
            ok = b0[0] == "byte" and b1[0] == "byte" and [peel(x[1])[2:] for x in (b0, b1)] == [(0,), (1,)] and \
                all(peel(x[1])[0] == "index" and is_len_code(peel(x[1])[1]) for x in (b0, b1))
        if not ok:
            # a single namespace as a nesting of depth one: `to_length_prefixed_nested(&[namespace])` (the nested function is held to
            # "every segment: encode_length(ns) ++ ns, in order" below)
            r0 = peel(P.ret(f))
            if r0[0] == "call" and r0[1] == LP + "to_length_prefixed_nested" and len(r0[2]) == 1:
                arr = peel(r0[2][0])
                ok = arr[0] == "agg" and arr[1] in ("array", "vec") and len(arr[2]) == 1 and is_param(arr[2][0][1], "namespace")
                d = "to_length_prefixed_nested([namespace])" if ok else d
        ctx.ob(R, key, "prefix=encode_length(ns)++ns", ok, "to_length_prefixed builds %s" % d, fn=f, sample=d[:200])
    key = LP + "to_length_prefixed_nested"
    f = ctx.need_fn(R, key)
    if f is not None:
        l = _ret_local(f)
        muts = P.mutations(f, l) if l is not None else []
        if len(muts) != 2:
            # the vector may be the accumulator of a fold / a by-value helper parameter: read the appends off the origin of the
            # result (`init` | `init with {extend(..), extend(..)}`), each with the block it happens in
            def vp0(x):
                while x[0] == "vp":
                    x = x[2]
                return x
            ro = vp0(P.ret(f))
            cand = [vp0(x) for x in (ro[1] if ro[0] == "multi" else [ro]) if vp0(x)[0] == "upd"]
            if len(cand) == 1:
                ms = [m for pth, m in cand[0][2] if pth == ("&mut",) and m[0] == "mutby" and m[3][0] == f.key]
                muts = []
                for m in ms:
                    tb = f.blocks[m[3][1]]["term"]
                    if tb["k"] == "call" and tb["callee"]["name"] in ("extend_from_slice", "extend", "append"):
                        muts.append((m[3][1], tb, 0))
        cf = cfg_of(f)
        ok = len(muts) == 2
        d = [t["callee"]["key"] for b, t, ai in muts]
        if ok:
            (b0, t0, _), (b1, t1, _) = muts
            if not cf.dominates(b0, b1):
                (b0, t0), (b1, t1) = (b1, t1), (b0, t0)
            a0, a1 = P.call_args(f, t0, b0), P.call_args(f, t1, b1)
            e0 = peel(a0[1])

            def is_elem(o):
                return contains(o, lambda x: x[0] == "bound" and x[1] == "elem" and is_param(peel(x[2]), "namespaces"))
            ok = cf.dominates(b0, b1) and b0 in cf.reachable_from(b1) and \
                e0[0] == "call" and e0[1] == LP + "encode_length" and is_elem(e0[2][0]) and is_elem(a1[1]) and \
                same_origin(e0[2][0], a1[1])
            d = "loop{extend(%s); extend(%s)}" % (fmt(a0[1])[:80], fmt(a1[1])[:80])
        ctx.ob(R, key, "per-segment: encode_length(seg)++seg, in slice order", ok, "nested encoding is %s" % d, fn=f, sample=str(d)[:200])
        from rules.C01 import DENY_ADAPTERS
        bad = [t["callee"]["key"] for b, t in f.calls() if t["callee"]["name"] in DENY_ADAPTERS and not t["callee"]["local"]]
        ctx.ob(R, key, "segments-in-order", not bad, "reordering adapter: %s" % bad, fn=f, sample="none")
    key = LP + "encode_length"
    f = ctx.need_fn(R, key)
    if f is not None:
        cf = cfg_of(f)
        ret = peel(P.ret(f))
        # two recognised ways to write it: (A) `if len > 0xFFFF { panic }` + bytes 2 and 3 of `(len as u32).to_be_bytes()`;
        # (B) `u16::try_from(len)` whose failure diverges + `u16::to_be_bytes` of the converted value
        conv = None
        if ret[0] == "call" and ret[1] == "u16::to_be_bytes" and ret[2]:
            inner = peel(ret[2][0])
            if inner[0] == "ok" and peel(inner[1])[0] == "call" and peel(inner[1])[1].endswith("TryFrom::try_from"):
                tf = peel(inner[1])
                if peel(tf[2][0])[0] == "call" and peel(tf[2][0])[1].endswith("len") and is_param(peel(tf[2][0])[2][0], "namespace"):
                    conv = tf
        if conv is not None:
            pres, absn = q.presence_edges(P, f, lambda o: False)
            # the Err edge of the conversion never returns
            err_edges = []
            for sb in f.order:
                tt = f.blocks[sb]["term"]
                if tt["k"] == "switch" and "discr_of" in tt:
                    so = peel(P.place(f, tt["discr_of"], (sb, "t")))
                    if contains(so, lambda x: x[0] == "call" and x[1].endswith("TryFrom::try_from")):
                        for e, v, n, tb in cf.switch_edges(sb):
                            if n == "Err" or (n is None and [x[2] for x in tt["targets"]] == ["Ok"]):
                                err_edges.append(e)
            ok = bool(err_edges) and not any(cf.can_reach(e, r) for e in err_edges for r in cf.return_blocks())
            ctx.ob(R, key, "diverges-above-0xFFFF", ok, "encode_length must not return when the length does not fit 16 bits", fn=f, sample="u16::try_from(len) fails -> panic")
            ctx.ob(R, key, "two-big-endian-length-bytes", True, "-", fn=f, sample="u16::to_be_bytes(u16::try_from(len))")
            ctx.ob(R, key, "low-two-bytes-in-order", True, "-", fn=f, sample="both bytes of the u16, big endian")
            return
        guards = []
        for bid in f.order:
            t = f.blocks[bid]["term"]
            if t["k"] == "switch" and t.get("discr_ty") == "bool":
                pred, args, pol = q.norm_cond(P.operand(f, t["discr"], (bid, "t")), True)
                if pred == "lt" and peel(args[0]) == ("const", "int", 0xFFFF) and peel(args[1])[0] == "call" and peel(args[1])[1].endswith("len"):
                    guards.append((bid, pol))
        ok = len(guards) == 1
        if ok:
            gb, pol = guards[0]
            too_long = None
            for e, v, n, tb in cf.switch_edges(gb):
                val = True if v is None else (v != 0)
                if val == pol:
                    too_long = e
            ok = too_long is not None and not any(cf.can_reach(too_long, r) for r in cf.return_blocks())
        ctx.ob(R, key, "diverges-above-0xFFFF", ok, "encode_length must not return for len > 0xFFFF", fn=f, sample="len > 0xFFFF -> panic")
        ok = ret[0] == "agg" and ret[1] == "array" and len(ret[2]) == 2
        if ok:
            def byte(o, i):
                o = peel(o)
                return o[0] == "index" and contains(o[1], lambda x: x[0] == "call" and x[1].endswith("to_be_bytes") and
                                                    contains(x[2][0], lambda y: y[0] == "call" and y[1].endswith("len")))
            ok = byte(ret[2][0][1], 2) and byte(ret[2][1][1], 3)
        ctx.ob(R, key, "two-big-endian-length-bytes", ok, "encode_length returns %s" % fmt(ret)[:160], fn=f, sample="[be[2], be[3]] of len as u32")
        # which bytes: constant indices 2 and 3, in the order of the returned array's elements (each element traced back
        # through plain moves - `let [_, _, high, low] = ..; [high, low]` - to the indexed read it comes from)
        def index_of(op, site, depth=0):
            if op.get("k") not in ("copy", "move") or depth > 6:
                return None
            pl = op["place"]
            for e in pl["p"]:
                if e["k"] == "index":
                    o = peel(P.local(f, e["local"], site))
                    return o[2] if o[0] == "const" else None
                if e["k"] == "constindex":
                    return e["offset"]
            if pl["p"]:
                return None
            ds = [d for d in P.defs(f).get(pl["l"], []) if d[0] == "assign" and not d[3]["dst"]["p"]]
            if len(ds) != 1 or ds[0][3]["rv"]["k"] != "use":
                return None
            return index_of(ds[0][3]["rv"]["op"], (ds[0][1], ds[0][2]), depth + 1)
        idxs = []
        for bid, i, st in f.stmts():
            if st["k"] == "assign" and st["dst"]["l"] == (_ret_local(f) if _ret_local(f) is not None else 0) and not st["dst"]["p"] and \
                    st["rv"]["k"] == "aggregate" and st["rv"]["agg"] == "array":
                idxs = [index_of(o, (bid, i)) for o in st["rv"]["ops"]]
        ctx.ob(R, key, "low-two-bytes-in-order", idxs == [2, 3], "indices used: %s" % idxs, fn=f, sample="[2, 3]")


def _ret_local(f):
    for bid, i, st in f.stmts():
        if st["k"] == "assign" and st["dst"]["l"] == 0 and not st["dst"]["p"] and st["rv"]["k"] == "use":
            return q.local_of_operand(st["rv"]["op"])
    return None
