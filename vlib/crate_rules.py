"""Crate-wide zero-count rules (A5/A6/A7) shared by C01 and C19, plus their fixture self-test."""
import os
import re

from . import extract
from .facts import Facts
from .uses import dropped_results

DENY_PREFIXES = (
    "std::time::SystemTime", "std::time::Instant", "std::env::", "std::process::", "std::thread::", "std::fs::", "std::net::",
    "std::io::stdin", "rand::", "getrandom::", "std::hash::RandomState", "std::collections::hash_map", "std::collections::HashMap",
    "std::collections::HashSet", "std::backtrace", "std::alloc::", "std::os::", "std::sync::mpsc", "std::sync::Mutex", "std::sync::RwLock",
    "std::sync::atomic", "std::sync::OnceLock", "std::sync::LazyLock", "std::cell::OnceCell", "std::thread::LocalKey",
)
# std internals reached through macro expansions at mir-opt-level=0 that are not effects
ALLOW_KEYS = {"std::alloc::Global", "std::alloc::handle_alloc_error", "std::alloc::exchange_malloc"}


def denied_effects(F, skip_derived=False):
    """[(fn, line, what)] calls / casts / formatting that make behaviour depend on the process environment"""
    out = []
    for f in F.fns.values():
        for bid, t in f.calls():
            c = t["callee"]
            for k in (c["key"], c.get("resolved") or ""):
                if k in ALLOW_KEYS:
                    continue
                if k.startswith(DENY_PREFIXES):
                    out.append((f, t["line"], "call " + k))
                    break
            if c["key"].endswith("fmt::rt::Argument::new_pointer") or c["key"].endswith("Argument::<'_>::new_pointer"):
                out.append((f, t["line"], "pointer formatting {:p}"))
        for bid, i, st in f.stmts():
            if st["k"] != "assign":
                continue
            rv = st["rv"]
            if rv["k"] == "cast" and rv["cast"].startswith("PointerExposeProvenance"):
                out.append((f, st["line"], "pointer to integer cast"))
            if rv["k"] == "threadlocal":
                out.append((f, st["line"], "thread-local " + rv.get("item", "")))
    return out


BACKTRACE_BEARING = ("anyhow::Error", "cosmwasm_std::StdError", "std::backtrace::Backtrace", "cosmwasm_std::errors::backtrace")


def backtrace_adts(F):
    """local ADTs that (transitively) contain a backtrace-bearing error value"""
    bad = set()
    changed = True
    while changed:
        changed = False
        for path, adt in F.adts.items():
            if path in bad:
                continue
            for v in adt["variants"]:
                for fl in v["fields"]:
                    s = fl["ty"]["s"]
                    if any(b in s for b in BACKTRACE_BEARING) or any(re.search(r"(?<![\w:])%s(?![\w])" % re.escape(b), s) for b in bad):
                        bad.add(path)
                        changed = True
    return bad


def debug_formatted_errors(F):
    """[(fn, line, type)] `{:?}` applied to a value whose Debug output embeds a captured backtrace (it depends on the
    RUST_BACKTRACE / RUST_LIB_BACKTRACE environment variables and on the call stack), on a path that can still return"""
    from .cfg import cfg_of
    bad = backtrace_adts(F)
    out = []
    for f in F.fns.values():
        for bid, t in f.calls():
            c = t["callee"]
            if not c["key"].endswith("Argument::new_debug"):
                continue
            ty = (c.get("gargs") or ["", ""])[-1]
            if not (any(b in ty for b in BACKTRACE_BEARING) or any(re.search(r"(?<![\w:])%s(?![\w])" % re.escape(b), ty) for b in bad)):
                continue
            cfg = cfg_of(f)
            if not any(cfg.can_reach(bid, r) or bid == r for r in cfg.return_blocks()):
                continue    # only feeds a panic message
            out.append((f, t["line"], ty))
    return out


def hash_types(F):
    """[(where, what)] local variables and fields whose type mentions HashMap/HashSet/RandomState"""
    out = []
    for path, adt in F.adts.items():
        for v in adt["variants"]:
            for fl in v["fields"]:
                if fl["ty"].get("hash"):
                    out.append((path, "field %s: %s" % (fl["name"], fl["ty"]["s"])))
    for f in F.fns.values():
        for i, l in enumerate(f.locals):
            if l.get("hash"):
                out.append((f.key, "local _%d: %s" % (i, l["s"])))
                break
    return out


def interior_mut_types(F):
    out = []
    for path, adt in F.adts.items():
        bad = [fl["name"] for v in adt["variants"] for fl in v["fields"] if fl["ty"].get("interior_mut")]
        if bad:
            out.append((path, bad))
    return out


_FIXTURE = None


def fixture_facts():
    global _FIXTURE
    if _FIXTURE is None:
        p = extract.extract("default", repo=os.path.join(extract.VERIF, "fixtures", "rules-selftest"))
        _FIXTURE = Facts(p)
    return _FIXTURE


def selftest():
    """{rule name: (fired?, detail)} on the fixture crate"""
    F = fixture_facts()
    eff = denied_effects(F)
    whats = " | ".join(sorted({w for f, l, w in eff}))
    res = {}
    res["statics"] = (len(F.statics) >= 2, "%d statics" % len(F.statics))
    res["thread_local"] = (any("thread-local" in w or "LocalKey" in w for f, l, w in eff), whats)
    res["SystemTime::now"] = (any("SystemTime" in w for f, l, w in eff), whats)
    res["Instant::now"] = (any("Instant" in w for f, l, w in eff), whats)
    res["env::var"] = (any("std::env::" in w for f, l, w in eff), whats)
    res["thread::spawn"] = (any("std::thread::" in w for f, l, w in eff), whats)
    res["pointer->int cast"] = (any("pointer to integer" in w for f, l, w in eff), whats)
    res["{:p}"] = (any("{:p}" in w for f, l, w in eff), whats)
    de = debug_formatted_errors(F)
    res["{:?} of a backtrace-bearing error"] = (any(f.key == "debug_formats_error" for f, l, ty in de) and not any(f.key == "debug_in_panic_only" for f, l, ty in de), str([(f.key, ty) for f, l, ty in de]))
    ht = hash_types(F)
    res["HashMap field"] = (any(w.startswith("field") for k, w in ht), str(ht[:3]))
    res["HashSet local"] = (any(w.startswith("local") for k, w in ht), str(ht[:3]))
    im = dict(interior_mut_types(F))
    res["interior mutability"] = ("Keeper" in im and set(im["Keeper"]) == {"hidden", "guarded"}, str(im))
    res["unsafe"] = (len(F.unsafe) >= 1, str(F.unsafe[:2]))
    dr = {f.key: [w for b, t, w in dropped_results(f)] for f in F.fns.values()}
    res["dropped Result (let _ =)"] = (bool(dr.get("drops_result")), str(dr.get("drops_result")))
    res["dropped Result (.ok();)"] = (bool(dr.get("swallows_with_ok")), str(dr.get("swallows_with_ok")))
    res["propagated Result is not flagged"] = (not dr.get("propagates") and not dr.get("inspects"), str((dr.get("propagates"), dr.get("inspects"))))
    return res
