"""A4: finite-domain path enumeration.

walk(fn, sigma, watch) enumerates the CFG paths of `fn` that are consistent with an assignment
`sigma` of variants to tracked places (key: place string like "_15" or "_10"), following
switches on tracked discriminants and on bool locals whose value is a known constant along the
path (the `matches!` temporaries and drop flags) and forking on every other branch. It returns
the set of event sequences (tuples) seen on paths from entry to `return`. The result
over-approximates the feasible paths under sigma.

Events are produced by `watch(fn, site, item)` callbacks: item is a statement or terminator; the
callback returns None or a hashable event.
"""
from .facts import place_str


def place_key(pl):
    return place_str(pl)


class Walker:
    def __init__(self, fn, sigma, watch, classify=None, max_paths=200000, decide=None):
        self.decide = decide
        self.fn = fn
        self.sigma = sigma
        self.watch = watch
        self.classify = classify
        self.memo = {}
        self.onstack = set()
        self.max_paths = max_paths
        self.visited_blocks = set()

    def run(self):
        if not self.fn.order:
            return set()
        return self._go(self.fn.order[0], ())

    def _env_get(self, env, l):
        for k, v in env:
            if k == l:
                return v
        return None

    def _env_set(self, env, l, v):
        out = tuple((k, x) for k, x in env if k != l)
        if v is not None:
            out = tuple(sorted(out + ((l, v),)))
        return out

    def _go(self, bid, env):
        state = (bid, env)
        if state in self.memo:
            return self.memo[state]
        if state in self.onstack:
            return {("<loop>",)}
        b = self.fn.blocks.get(bid)
        if b is None:
            return set()  # cleanup / unwind block: not a normal path
        self.visited_blocks.add(bid)
        self.onstack.add(state)
        events = []
        for i, st in enumerate(b["stmts"]):
            if st["k"] == "assign":
                dst = st["dst"]
                if not dst["p"]:
                    rv = st["rv"]
                    val = None
                    if rv["k"] == "use" and rv["op"]["k"] == "const" and rv["op"].get("ck") == "bool":
                        val = rv["op"]["int"]
                    env = self._env_set(env, dst["l"], val)
            ev = self.watch(self.fn, (bid, i), st)
            if ev is not None:
                events.append(ev)
        t = b["term"]
        ev = self.watch(self.fn, (bid, "t"), t)
        if ev is not None:
            events.append(ev)
        k = t["k"]
        nexts = []
        if k == "return":
            res = {tuple(events) + ("<return>",)}
            self.onstack.discard(state)
            self.memo[state] = res
            return res
        if k == "unreachable":
            self.onstack.discard(state)
            self.memo[state] = set()
            return set()
        if k == "call":
            if t["dst"] and not t["dst"]["p"]:
                env = self._env_set(env, t["dst"]["l"], None)
            if t["target"] is not None:
                nexts.append(t["target"])
        elif k in ("goto", "drop", "assert"):
            nexts.append(t["target"])
        elif k == "switch":
            forced = None
            d = t["discr"]
            if "discr_of" in t:
                pk = place_key(t["discr_of"])
                if self.classify is not None:
                    pk = self.classify(self.fn, bid, t)
                if pk is not None and pk in self.sigma:
                    want = self.sigma[pk]
                    forced = t["otherwise"]
                    for v, tb, name in t["targets"]:
                        if name == want:
                            forced = tb
                    # a variant listed explicitly elsewhere never takes this edge
            elif d["k"] in ("copy", "move") and not d["place"]["p"]:
                val = self._env_get(env, d["place"]["l"])
                if val is not None:
                    forced = t["otherwise"]
                    for v, tb, name in t["targets"]:
                        if v == val:
                            forced = tb
            if forced is None and self.decide is not None and "discr_of" not in t and t.get("discr_ty") == "bool":
                val = self.decide(self.fn, bid, t, self.sigma)
                if val is not None:
                    forced = t["otherwise"]
                    for v, tb, name in t["targets"]:
                        if (v != 0) == bool(val):
                            forced = tb
            if forced is not None:
                nexts.append(forced)
            else:
                seen = set()
                for v, tb, name in t["targets"]:
                    if tb not in seen:
                        seen.add(tb)
                        nexts.append(tb)
                if t["otherwise"] not in seen:
                    nexts.append(t["otherwise"])
        res = set()
        pre = tuple(events)
        for nb in nexts:
            for suffix in self._go(nb, env):
                res.add(pre + suffix)
                if len(res) > self.max_paths:
                    raise RuntimeError("path explosion in %s" % self.fn.key)
        self.onstack.discard(state)
        self.memo[state] = res
        return res


def walk(fn, sigma, watch, classify=None):
    w = Walker(fn, sigma, watch, classify)
    return w.run()


def decision_table(fn, domains, classify, watch, decide=None):
    """enumerate all assignments of `domains` ({name: [variants]}) and return
    {tuple(sorted sigma items): set(event sequences)} plus the number of tracked switches seen"""
    import itertools
    names = sorted(domains)
    table = {}
    for combo in itertools.product(*[domains[n] for n in names]):
        sigma = dict(zip(names, combo))
        w = Walker(fn, sigma, watch, classify, decide=decide)
        table[tuple(combo)] = w.run()
    seen = {n: 0 for n in names}
    for bid in fn.order:
        t = fn.blocks[bid]["term"]
        if t["k"] == "switch" and "discr_of" in t:
            c = classify(fn, bid, t)
            if c in seen:
                seen[c] += 1
    return names, table, seen
