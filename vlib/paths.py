"""A4: finite-domain path enumeration.

walk(fn, sigma, watch) enumerates the CFG paths of `fn` that are consistent with an assignment
`sigma` of variants to tracked places (key: place string like "_15" or "_10"), following
switches on tracked discriminants and on bool locals whose value is a known constant along the
path (the `matches!` temporaries and drop flags) and forking on every other branch. It returns
the set of event sequences (tuples) seen on paths from entry to `return`. The result
over-approximates the feasible paths under sigma.

Events are produced by `watch(fn, site, item)` callbacks: item is a statement or terminator; the
callback returns None or a hashable event.
"""
from .facts import place_str


def place_key(pl):
    return place_str(pl)


class Walker:
    def __init__(self, fn, sigma, watch, classify=None, max_paths=200000, decide=None, edge_watch=None, decide_variant=None):
        self.decide = decide
        self.decide_variant = decide_variant    # optional: (fn, block, switch, sigma) -> variant name the scrutinee visibly has in this cell
        self.edge_watch = edge_watch      # optional: event for a switch edge taken, called with (fn, block, index | "o")
        self.fn = fn
        self.sigma = sigma
        self.watch = watch
        self.classify = classify
        self.memo = {}
        self.onstack = set()
        self.max_paths = max_paths
        self.visited_blocks = set()

    def run(self):
        if not self.fn.order:
            return set()
        return self._go(self.fn.order[0], ())

    def _env_get(self, env, l):
        for k, v in env:
            if k == l:
                return v
        return None

    def _env_set(self, env, l, v):
        out = tuple((k, x) for k, x in env if k != l)
        if v is not None:
            out = tuple(sorted(out + ((l, v),)))
        return out

    def _go(self, bid, env):
        state = (bid, env)
        if state in self.memo:
            return self.memo[state]
        if state in self.onstack:
            return {("<loop>",)}
        b = self.fn.blocks.get(bid)
        if b is None:
            return set()  # cleanup / unwind block: not a normal path
        self.visited_blocks.add(bid)
        self.onstack.add(state)
        events = []
        for i, st in enumerate(b["stmts"]):
            if st["k"] == "assign":
                dst = st["dst"]
                if not dst["p"]:
                    rv = st["rv"]
                    val = None
                    if rv["k"] == "use" and rv["op"]["k"] == "const" and rv["op"].get("ck") == "bool":
                        val = rv["op"]["int"]
                    elif rv["k"] == "use" and rv["op"]["k"] in ("copy", "move") and not rv["op"]["place"]["p"]:
                        val = self._env_get(env, rv["op"]["place"]["l"])      # `let inverted = <matches! temporary>`
                    elif rv["k"] == "unop" and rv.get("op") == "Not" and rv["a"]["k"] in ("copy", "move") and not rv["a"]["place"]["p"]:
                        v0 = self._env_get(env, rv["a"]["place"]["l"])
                        val = None if v0 is None or isinstance(v0, tuple) else (0 if v0 else 1)
                    elif rv["k"] == "aggregate" and rv.get("agg") == "adt" and rv.get("variant") and rv.get("adt") != rv.get("variant") and \
                            not rv["adt"].endswith("::" + rv["variant"]):
                        # `let x = if c { Some(..) } else { None }; .. if let Some(v) = x`: along this path the enum local
                        # visibly has this variant (until it is written or lent out mutably)
                        val = ("variant", rv["variant"])
                    env = self._env_set(env, dst["l"], val)
                    if rv["k"] == "ref" and rv.get("mut") and self._env_get(env, rv["place"]["l"]) is not None and \
                            isinstance(self._env_get(env, rv["place"]["l"]), tuple):
                        env = self._env_set(env, rv["place"]["l"], None)
                elif isinstance(self._env_get(env, dst["l"]), tuple):
                    env = self._env_set(env, dst["l"], None)      # a field of the tracked enum local is written
            ev = self.watch(self.fn, (bid, i), st)
            if ev is not None:
                events.append(ev)
        t = b["term"]
        ev = self.watch(self.fn, (bid, "t"), t)
        if ev is not None:
            events.append(ev)
        k = t["k"]
        nexts = []
        if k == "return":
            res = {tuple(events) + ("<return>",)}
            self.onstack.discard(state)
            self.memo[state] = res
            return res
        if k == "unreachable":
            self.onstack.discard(state)
            self.memo[state] = set()
            return set()
        if k == "call":
            if t["dst"] and not t["dst"]["p"]:
                env = self._env_set(env, t["dst"]["l"], None)
            if t["target"] is not None:
                nexts.append(t["target"])
        elif k in ("goto", "drop", "assert"):
            nexts.append(t["target"])
        elif k == "switch":
            forced = None
            d = t["discr"]
            dv = self.decide_variant(self.fn, bid, t, self.sigma) if (self.decide_variant is not None and "discr_of" in t) else None
            if dv is not None:
                forced = t["otherwise"]
                for v, tb, name in t["targets"]:
                    if name == dv:
                        forced = tb
            elif "discr_of" in t and not t["discr_of"]["p"] and isinstance(self._env_get(env, t["discr_of"]["l"]), tuple):
                want = self._env_get(env, t["discr_of"]["l"])[1]
                forced = t["otherwise"]
                for v, tb, name in t["targets"]:
                    if name == want:
                        forced = tb
            elif "discr_of" in t:
                pk = place_key(t["discr_of"])
                vmap = None
                if self.classify is not None:
                    pk = self.classify(self.fn, bid, t)
                    if isinstance(pk, tuple):
                        # (tracked name, {variant name of this switch: abstract value of the domain})
                        pk, vmap = pk
                if pk is not None and pk in self.sigma:
                    want = self.sigma[pk]
                    forced = t["otherwise"]
                    listed = set()
                    for v, tb, name in t["targets"]:
                        listed.add(name)
                        if (vmap.get(name) if vmap else name) == want:
                            forced = tb
                    if vmap and forced == t["otherwise"]:
                        # the wanted value may be the variant that `otherwise` stands for
                        rest = [n for n in vmap if n not in listed and vmap[n] == want]
                        if not rest and any(vmap.get(n) == want for n in listed):
                            pass
                    # a variant listed explicitly elsewhere never takes this edge
            elif d["k"] in ("copy", "move") and not d["place"]["p"]:
                val = self._env_get(env, d["place"]["l"])
                if val is not None and not isinstance(val, tuple):
                    forced = t["otherwise"]
                    for v, tb, name in t["targets"]:
                        if v == val:
                            forced = tb
            if forced is None and self.decide is not None and "discr_of" not in t and t.get("discr_ty") == "bool":
                val = self.decide(self.fn, bid, t, self.sigma)
                if val is not None:
                    forced = t["otherwise"]
                    for v, tb, name in t["targets"]:
                        if (v != 0) == bool(val):
                            forced = tb
            if self.edge_watch is not None:
                # edges are followed one by one so that the edge taken can be reported
                cand = [(tb, i) for i, (v, tb, name) in enumerate(t["targets"])] + [(t["otherwise"], "o")]
                if forced is not None:
                    cand = [c for c in cand if c[0] == forced][:1]
                for tb, ei in cand:
                    nexts.append((tb, self.edge_watch(self.fn, bid, ei)))
            elif forced is not None:
                nexts.append(forced)
            else:
                seen = set()
                for v, tb, name in t["targets"]:
                    if tb not in seen:
                        seen.add(tb)
                        nexts.append(tb)
                if t["otherwise"] not in seen:
                    nexts.append(t["otherwise"])
        res = set()
        pre = tuple(events)
        for nb in nexts:
            eev = ()
            if isinstance(nb, tuple):
                nb, ev1 = nb
                eev = (ev1,) if ev1 is not None else ()
            for suffix in self._go(nb, env):
                res.add(pre + eev + suffix)
                if len(res) > self.max_paths:
                    raise RuntimeError("path explosion in %s" % self.fn.key)
        self.onstack.discard(state)
        self.memo[state] = res
        return res


def walk(fn, sigma, watch, classify=None):
    w = Walker(fn, sigma, watch, classify)
    return w.run()


def decision_table(fn, domains, classify, watch, decide=None, edge_watch=None, watch_for=None, decide_variant=None):
    """enumerate all assignments of `domains` ({name: [variants]}) and return
    {tuple(sorted sigma items): set(event sequences)} plus the number of tracked switches seen"""
    import itertools
    names = sorted(domains)
    table = {}
    for combo in itertools.product(*[domains[n] for n in names]):
        sigma = dict(zip(names, combo))
        # watch_for(sigma) builds a watcher that may evaluate values under the cell's assumptions (path-sensitive events)
        w = Walker(fn, sigma, watch_for(sigma) if watch_for is not None else watch, classify, decide=decide, edge_watch=edge_watch,
                   decide_variant=decide_variant)
        table[tuple(combo)] = w.run()
    seen = {n: 0 for n in names}
    for bid in fn.order:
        t = fn.blocks[bid]["term"]
        if t["k"] == "switch" and "discr_of" in t:
            c = classify(fn, bid, t)
            if isinstance(c, tuple):
                c = c[0]
            if c in seen:
                seen[c] += 1
    return names, table, seen
