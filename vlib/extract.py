"""Runs the cwmt-facts driver over a source tree (default /repo) for one feature configuration.

Freshness: the primary package's fingerprints are deleted before every extraction, a nonce is
passed to the driver and verified in the fact file, and fact files are cached under a key that is
a SHA-256 over the analysed tree's Cargo.toml, Cargo.lock, src/** and the driver binary.
"""
import fcntl
import glob
import hashlib
import json
import os
import shutil
import subprocess
import sys
import time
import uuid

VERIF = os.path.dirname(os.path.dirname(os.path.abspath(__file__)))
WORK = os.path.join(VERIF, ".work")
DRIVER_DIR = os.path.join(VERIF, "driver")
DRIVER = os.path.join(DRIVER_DIR, "target", "debug", "cwmt-facts")
REPO = os.environ.get("VERIF_REPO", "/repo")

CONFIGS = {
    "default": [],
    "all-features": ["--all-features"],
    "staking": ["--features", "staking"],
    "stargate": ["--features", "stargate"],
    "staking-stargate": ["--features", "staking,stargate"],
    "cosmwasm_1_2": ["--features", "cosmwasm_1_2"],
    "cosmwasm_2_0": ["--features", "cosmwasm_2_0"],
    "cosmwasm_2_2": ["--features", "cosmwasm_2_2"],
}
QUICK_CONFIGS = ["default", "all-features"]
THOROUGH_CONFIGS = list(CONFIGS)

# sizes measured on the pinned tree; an extraction below 90 % of them is refused
FLOORS = {
    "default": (366, 1416),
    "all-features": (491, 2399),
}


class ExtractError(Exception):
    pass


def _sysroot():
    return subprocess.check_output(["rustc", "+nightly", "--print", "sysroot"], text=True).strip()


_SYSROOT = None


def sysroot():
    global _SYSROOT
    if _SYSROOT is None:
        _SYSROOT = _sysroot()
    return _SYSROOT


def build_driver(quiet=True):
    env = dict(os.environ, CARGO_NET_OFFLINE="true")
    r = subprocess.run(["cargo", "build", "--offline"], cwd=DRIVER_DIR, env=env,
                       stdout=subprocess.PIPE, stderr=subprocess.STDOUT, text=True)
    if r.returncode != 0:
        raise ExtractError("driver build failed:\n" + r.stdout)
    if not os.path.exists(DRIVER):
        raise ExtractError("driver binary missing after build")


def _package_name(repo):
    import re
    try:
        with open(os.path.join(repo, "Cargo.toml")) as fh:
            m = re.search(r'^name\s*=\s*"([^"]+)"', fh.read(), re.M)
            if m:
                return m.group(1)
    except OSError:
        pass
    return "cw-multi-test"


def tree_hash(repo):
    h = hashlib.sha256()
    files = [os.path.join(repo, "Cargo.toml"), os.path.join(repo, "Cargo.lock")]
    for root, dirs, fs in os.walk(os.path.join(repo, "src")):
        dirs.sort()
        for f in sorted(fs):
            files.append(os.path.join(root, f))
    for p in files:
        h.update(p[len(repo):].encode())
        try:
            with open(p, "rb") as fh:
                h.update(fh.read())
        except FileNotFoundError:
            h.update(b"<missing>")
    with open(DRIVER, "rb") as fh:
        h.update(hashlib.sha256(fh.read()).digest())
    return h.hexdigest()[:24]


def extract(config, repo=None, use_cache=True, log=None):
    """returns path of a fresh fact file for (repo tree, config)"""
    repo = repo or REPO
    if config not in CONFIGS:
        raise ExtractError("unknown config " + config)
    if not os.path.exists(DRIVER):
        build_driver()
    os.makedirs(WORK, exist_ok=True)
    th = tree_hash(repo)
    fdir = os.path.join(WORK, "facts", th)
    os.makedirs(fdir, exist_ok=True)
    out = os.path.join(fdir, config + ".json")
    if os.environ.get("VERIF_NO_CACHE") == "1":
        use_cache = False
    lock_path = os.path.join(WORK, "lock-" + config)
    with open(lock_path, "w") as lk:
        fcntl.flock(lk, fcntl.LOCK_EX)
        if use_cache and os.path.exists(out):
            return out
        target = os.path.join(WORK, "target", config)
        os.makedirs(target, exist_ok=True)
        pkg = _package_name(repo)
        for p in glob.glob(os.path.join(target, "debug", ".fingerprint", pkg + "-*")):
            shutil.rmtree(p, ignore_errors=True)
        nonce = uuid.uuid4().hex
        tmp_out = out + ".new"
        if os.path.exists(tmp_out):
            os.remove(tmp_out)
        env = dict(os.environ)
        env.update({
            "LD_LIBRARY_PATH": sysroot() + "/lib" + (":" + env["LD_LIBRARY_PATH"] if env.get("LD_LIBRARY_PATH") else ""),
            "RUSTFLAGS": "-Zmir-opt-level=0 -Awarnings",
            "RUSTC_WORKSPACE_WRAPPER": DRIVER,
            "CARGO_TARGET_DIR": target,
            "CARGO_NET_OFFLINE": "true",
            "CWMT_FACTS_OUT": tmp_out,
            "CWMT_NONCE": nonce,
            "CWMT_CONFIG": config,
        })
        env.pop("RUSTC_WRAPPER", None)
        cmd = ["cargo", "+nightly", "check", "--offline", "--lib", "-v", "--manifest-path",
               os.path.join(repo, "Cargo.toml")] + CONFIGS[config]
        t0 = time.time()
        r = subprocess.run(cmd, env=env, cwd=repo, stdout=subprocess.PIPE, stderr=subprocess.STDOUT, text=True)
        if log is not None:
            log.append("extract %s: %.1fs rc=%d" % (config, time.time() - t0, r.returncode))
        if r.returncode != 0:
            raise ExtractError("cargo check failed for config %s (the tree does not compile):\n%s" % (config, r.stdout[-4000:]))
        if not os.path.exists(tmp_out):
            raise ExtractError("driver wrote no fact file for config %s (wrapper skipped?)\n%s" % (config, r.stdout[-2000:]))
        with open(tmp_out) as fh:
            data = json.load(fh)
        if data.get("nonce") != nonce:
            raise ExtractError("stale fact file for config %s (nonce mismatch)" % config)
        os.replace(tmp_out, out)
        _record_cmd(config, r.stdout)
        # keep the cache small: drop fact dirs other than the newest 6
        try:
            root = os.path.join(WORK, "facts")
            ds = sorted((os.path.getmtime(os.path.join(root, d)), d) for d in os.listdir(root))
            for _, d in ds[:-16]:
                shutil.rmtree(os.path.join(root, d), ignore_errors=True)
        except OSError:
            pass
        return out


def _record_cmd(config, cargo_output):
    """remember the rustc command line of the leaf crate so that scratch variants can be analysed
    directly (without cargo) against the warm dependency artefacts"""
    import shlex
    for line in cargo_output.splitlines():
        line = line.strip()
        if line.startswith("Running `") and "--crate-name cw_multi_test" in line and DRIVER in line:
            args = shlex.split(line[len("Running `"):-1])
            with open(os.path.join(WORK, "cmd-%s.json" % config), "w") as fh:
                json.dump(args, fh)
            return


def replay(config, src_root, out_json):
    """run the driver on a scratch copy of the sources (directory containing src/lib.rs) using the
    recorded command line of `config`; returns (ok, compiler output)"""
    import tempfile
    p = os.path.join(WORK, "cmd-%s.json" % config)
    if not os.path.exists(p):
        extract(config, use_cache=False)
    with open(p) as fh:
        args = json.load(fh)
    outdir = tempfile.mkdtemp(prefix="cwmt-replay-")
    try:
        new = []
        skip = False
        for i, a in enumerate(args):
            if skip:
                skip = False
                continue
            if a == "--out-dir":
                new += ["--out-dir", outdir]
                skip = True
                continue
            if a == "-C" and i + 1 < len(args) and args[i + 1].startswith("incremental="):
                skip = True
                continue
            if a.startswith("--error-format") or a.startswith("--json"):
                continue
            new.append(a)
        env = dict(os.environ)
        env.update({
            "LD_LIBRARY_PATH": sysroot() + "/lib",
            "CARGO_PRIMARY_PACKAGE": "1",
            "CARGO_PKG_NAME": "cw-multi-test",
            "CARGO_CRATE_NAME": "cw_multi_test",
            "CARGO_MANIFEST_DIR": src_root,
            "CWMT_FACTS_OUT": out_json,
            "CWMT_NONCE": "replay",
            "CWMT_CONFIG": config,
        })
        r = subprocess.run(new, cwd=src_root, env=env, stdout=subprocess.PIPE, stderr=subprocess.STDOUT, text=True)
        return (r.returncode == 0 and os.path.exists(out_json)), r.stdout
    finally:
        shutil.rmtree(outdir, ignore_errors=True)


def check_size(facts):
    """refuse truncated fact files"""
    fl = FLOORS.get(facts.config)
    if not fl:
        return None
    nf, nc = len(facts.fns), facts.n_calls()
    if nf < 0.9 * fl[0] or nc < 0.9 * fl[1]:
        return "fact file for %s too small: %d functions / %d calls, floors %d / %d" % (facts.config, nf, nc, fl[0], fl[1])
    return None


if __name__ == "__main__":
    cfgs = sys.argv[1:] or QUICK_CONFIGS
    for c in cfgs:
        t = time.time()
        p = extract(c)
        print(c, p, "%.1fs" % (time.time() - t))
