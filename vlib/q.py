"""Query helpers shared by the rules: call-site matching, guard normalisation, dominance shortcuts."""
from .cfg import cfg_of
from .prov import peel, alts, fmt, deep_peel, contains
from .facts import place_str, term_str

STORAGE_MUT = "&mut dyn cosmwasm_std::Storage"
STORAGE_RO = "&dyn cosmwasm_std::Storage"


# -------------------------------------------------------------------- callees
def callee_matches(c, spec):
    """spec: a key string, or a (trait, method) tuple, or a callable"""
    if callable(spec):
        return spec(c)
    if isinstance(spec, tuple):
        return c.get("trait") == spec[0] and c["name"] == spec[1]
    return c["key"] == spec or c.get("resolved") == spec


def calls(fn, spec):
    return [(bid, t) for bid, t in fn.calls() if callee_matches(t["callee"], spec)]


def lexical_calls(facts, key, spec):
    out = []
    for f in facts.lexical(key):
        for bid, t in f.calls():
            if callee_matches(t["callee"], spec):
                out.append((f, bid, t))
    return out


def all_calls(facts, spec, user_only=True):
    out = []
    for f in facts.fns.values():
        if user_only and f.derived:
            continue
        for bid, t in f.calls():
            if callee_matches(t["callee"], spec):
                out.append((f, bid, t))
    return out


def input_positions(c, ty_s):
    """positions of declared parameters of the callee with the given type string"""
    return [i for i, t in enumerate(c.get("inputs", [])) if t["s"] == ty_s]


def is_storage_mut_ty(t):
    return t.get("ref") == "mut" and t.get("pointee", "").endswith("dyn cosmwasm_std::Storage")


def is_storage_ty(t):
    return t.get("ref") is not None and "cosmwasm_std::Storage" in t.get("pointee", "")


# -------------------------------------------------------------------- conditions
NEG = {"eq": "ne", "ne": "eq", "lt": "ge", "ge": "lt", "gt": "le", "le": "gt"}
CMP_TRAIT_NAMES = {"eq", "ne", "lt", "le", "gt", "ge"}
PRED_CALLS = {
    "is_empty", "is_zero", "is_ok", "is_err", "is_some", "is_none", "contains_key", "starts_with", "contains",
    "ends_with", "has", "is_some_and", "is_ok_and", "exists",
}
PRED_NEG = {"is_err": "is_ok", "is_none": "is_some"}


def norm_cond(o, pol=True):
    """normalise a boolean origin and polarity to (pred, args tuple, polarity)

    comparisons are reduced to eq / lt:   a > b ≡ b < a ;  a >= b ≡ !(a < b) ;  a <= b ≡ !(b < a) ; ne ≡ !eq
    """
    o = peel(o)
    k = o[0]
    if k == "unop" and o[1] == "Not":
        return norm_cond(o[2], not pol)
    if k == "binop" and o[1] in NEG:
        return _cmp(o[1], o[2], o[3], pol)
    if k == "call" and o[1] in ("anyhow::__private::not", "std::ops::Not::not") and len(o[2]) == 1:
        # `ensure!(cond, ..)` tests `not(cond)`
        return norm_cond(o[2][0], not pol)
    if k == "call":
        name = o[1].rsplit("::", 1)[-1]
        if name in CMP_TRAIT_NAMES and len(o[2]) == 2 and ("PartialEq" in o[1] or "PartialOrd" in o[1] or "cmp::" in o[1]):
            return _cmp(name, o[2][0], o[2][1], pol)
        if name in PRED_NEG:
            return (PRED_NEG[name], tuple(deep_peel(a) for a in o[2]), not pol)
        if name in PRED_CALLS:
            return (name, tuple(deep_peel(a) for a in o[2]), pol)
        return ("call:" + o[1], tuple(deep_peel(a) for a in o[2]), pol)
    if k == "const" and o[1] == "bool":
        return ("const", (o[2],), pol)
    return ("opaque", (deep_peel(o),), pol)


def _cmp(op, a, b, pol):
    # `p == false`, `p != true`, .. : a comparison of a boolean with a constant is that boolean (or its negation)
    if op in ("eq", "ne"):
        for x, y in ((a, b), (b, a)):
            c = peel(y)
            if c[0] == "const" and c[1] == "bool":
                same = bool(c[2]) == (op == "eq")
                return norm_cond(x, pol if same else not pol)
    a, b = deep_peel(a), deep_peel(b)
    if op == "ne":
        return ("eq", _sym(a, b), not pol)
    if op == "eq":
        return ("eq", _sym(a, b), pol)
    if op == "lt":
        return ("lt", (a, b), pol)
    if op == "gt":
        return ("lt", (b, a), pol)
    if op == "ge":
        return ("lt", (a, b), not pol)
    if op == "le":
        return ("lt", (b, a), not pol)
    raise ValueError(op)


def _sym(a, b):
    return tuple(sorted([a, b], key=repr))


def edge_conditions(prov, fn, edge):
    """condition established by taking switch edge ("e", block, idx): list of
    ("bool", norm_cond) or ("variant", origin of scrutinee, variant name, positive?)"""
    _, bid, idx = edge
    t = fn.blocks[bid]["term"]
    out = []
    if "discr_of" in t:
        o = prov.place(fn, t["discr_of"], (bid, "t"))
        if idx == "o":
            listed = [n for v, b, n in t["targets"]]
            out.append(("variant_not_in", o, tuple(listed)))
            # complement, when the enum's variants are known
            allv = [n for v, n in t.get("variants", [])]
            rest = [n for n in allv if n not in listed]
            if rest:
                out.append(("variant_in", o, tuple(rest)))
        else:
            out.append(("variant_in", o, (t["targets"][idx][2],)))
        return out
    d = t["discr"]
    o = prov.operand(fn, d, (bid, "t"))
    if t.get("discr_ty") == "bool":
        if idx == "o":
            pol = True
        else:
            pol = t["targets"][idx][0] != 0
        out.append(("bool", norm_cond(o, pol)))
        return out
    # integer switch: `match x { K => .. }` establishes the same fact as `if x == K`
    if idx == "o":
        out.append(("int_not_in", deep_peel(o), tuple(v for v, b, n in t["targets"])))
        if len(t["targets"]) == 1:
            out.append(("bool", ("eq", _sym(deep_peel(o), ("const", "int", t["targets"][0][0])), False)))
    else:
        out.append(("int_eq", deep_peel(o), t["targets"][idx][0]))
        out.append(("bool", ("eq", _sym(deep_peel(o), ("const", "int", t["targets"][idx][0])), True)))
    return out


def enclosing_loops(prov, fn, bid):
    """loops whose body contains block `bid`: [(block of the next() call, origin of the iterator as written)]"""
    cfg = cfg_of(fn)
    out = []
    for nb, t in fn.calls():
        if t["callee"]["key"] not in ("std::iter::Iterator::next", "std::iter::DoubleEndedIterator::next_back"):
            continue
        if nb != bid and not (cfg.dominates(nb, bid) and nb in cfg.reachable_from(bid)):
            continue
        out.append((nb, prov.call_args(fn, t, nb)[0]))
    return out


def error_exit_blocks(fn):
    """blocks in which the function's result is made an error: `from_residual(..)` of a `?`, or an `Err(..)` aggregate, put into
    the return place (or a local that is moved there)"""
    rc = ret_carriers(fn)
    out = []
    for b, t in fn.calls():
        # (`?` makes its error the result of the function it stands in - after splicing (vlib/inline.py A8) that is a local
        # the caller goes on to test; the value the loop was computing is not produced on that path either way)
        if t["callee"].get("trait") == "std::ops::FromResidual":
            out.append(b)
    for b, i, st in fn.stmts():
        rv = st.get("rv", {})
        if st["k"] == "assign" and not st["dst"]["p"] and st["dst"]["l"] in rc and rv.get("k") == "aggregate" and \
                (rv.get("adt") or "").endswith("Result") and rv.get("variant") == "Err":
            out.append(b)
    return sorted(set(out))


def loop_is_exhaustive(fn, nb, ab):
    """the loop driven by the `next()` call in block `nb` runs block `ab` once for every element and ends only when the iterator
    is exhausted: once `next` has yielded an element, neither the next request nor anything behind the loop is reached
    without passing `ab` (no `continue` around it), and nothing behind the loop is reached without asking for a further
    element (no `break`, no `return`).  Paths that cannot reach a return (panics) do not count as leaving the loop."""
    cf = cfg_of(fn)
    sw = cf.after_call_node(nb)
    some = [e for e, v, n, b in cf.switch_edges(sw) if n == "Some"] if sw is not None else []
    if len(some) != 1:
        return False
    rets = set(cf.return_blocks())
    loop = {b for b in fn.order if b == nb or (cf.can_reach(nb, b) and cf.can_reach(b, nb))}
    live_out = {b for b in fn.order if b not in loop and (b in rets or any(cf.can_reach(b, r) for r in rets))}
    # leaving with an error (`f(..)?` inside the body) fails the whole function: not a way of ending the loop early
    errs = error_exit_blocks(fn)
    skip = cf.reachable_from(some[0], avoid=[ab] + errs)
    stop = cf.reachable_from(some[0], avoid=[nb] + errs)
    return nb not in skip and not (live_out & set(skip)) and not (live_out & set(stop))


def counted_loop(prov, facts, fn, o):
    """`let mut n = 0; for _ in ITER { n += 1 }`: when the origin `o` is such a counter - a local that starts at the constant 0 and
    is incremented by the constant 1, unconditionally, once per element of an exhaustive loop - the iterator as written
    (what `.count()` would have been called on); None otherwise"""
    from .prov import strip_adapters
    from . import pipeline
    core = peel(o)
    while core[0] in ("cast", "unop") and len(core) == 3:
        core = peel(core[2])
    for bid, i, st in fn.stmts():
        rv = st.get("rv", {})
        if not (st["k"] == "assign" and rv.get("k") in ("binop", "checked_binop") and rv.get("op") == "add"):
            continue
        a, b = rv["a"], rv["b"]
        if not (a.get("k") in ("copy", "move") and not a["place"]["p"] and b.get("k") == "const" and b.get("int") == 1):
            continue
        L = a["place"]["l"]
        # the counter's definitions: the constant 0 and the incremented value, nothing else
        defs = prov.defs(fn).get(L, [])
        kinds = []
        for d in defs:
            if d[0] != "assign" or d[3]["dst"]["p"]:
                kinds.append("other")
                continue
            r = d[3]["rv"]
            if r.get("k") == "use" and r["op"].get("k") == "const" and r["op"].get("int") == 0:
                kinds.append("zero")
            elif r.get("k") == "use" and r["op"].get("k") in ("copy", "move") and r["op"]["place"]["l"] == st["dst"]["l"]:
                kinds.append("inc")
            else:
                kinds.append("other")
        if sorted(kinds) != ["inc", "zero"]:
            continue
        # the value asked about is this counter: {0 | <itself> + 1}
        al = [peel(x) for x in alts(core)]
        if not (len(al) == 2 and ("const", "int", 0) in al and any(contains(x, lambda y: y[0] == "binop" and y[1] == "add" and peel(y[3]) == ("const", "int", 1)) for x in al)):
            continue
        loops = enclosing_loops(prov, fn, bid)
        if len(loops) != 1:
            continue
        nb, src = loops[0]
        if pipeline._elem_conds(conditions_at(prov, facts, fn, bid)):
            continue
        if not loop_is_exhaustive(fn, nb, bid):
            continue
        return src
    return None


def loops_of(prov, fn):
    """every loop driven by an iterator in `fn`: [(block of the next() call, iterator origin as written)]"""
    return [(nb, prov.call_args(fn, t, nb)[0]) for nb, t in fn.calls()
            if t["callee"]["key"] in ("std::iter::Iterator::next", "std::iter::DoubleEndedIterator::next_back")]


def loops_yielding(prov, fn, elem):
    """the loops of `fn` whose element is `elem` (an origin ("bound","elem",src)): [(next block, iterator as written)]"""
    from .prov import strip_adapters, same_origin
    e = peel(elem)
    if e[0] != "bound" or e[1] != "elem":
        return []
    return [(nb, src) for nb, src in loops_of(prov, fn) if same_origin(strip_adapters(src), e[2])]


def chain_adapters(src):
    """names of the iterator adapters between the loop and the collection it walks (outermost first)"""
    out = []
    o = peel(src)
    while o[0] == "call" and o[1].startswith(("std::iter::Iterator::", "std::iter::DoubleEndedIterator::")) and o[2]:
        out.append(o[1].rsplit("::", 1)[-1])
        o = peel(o[2][0])
    return out


def filter_conditions(prov, facts, src):
    """conditions every element yielded by iterator `src` satisfies because of `.filter(p)` adapters in its chain:
    [(None, ("bool", norm_cond))] in the format of dominating_conditions"""
    from .prov import ELEM_PRESERVING
    out = []
    o = peel(src)
    while o[0] == "call" and o[1] in ELEM_PRESERVING and o[2]:
        if o[1] == "std::iter::Iterator::filter" and len(o[2]) > 1:
            c = peel(o[2][1])
            g = facts.fn(c[1]) if c[0] == "closure" else None
            if g is not None:
                out.append((None, ("bool", norm_cond(prov.ret(g), True))))
            else:
                out.append((None, ("bool", ("opaque", (deep_peel(c),), True))))
        o = peel(o[2][0])
    return out


def conditions_at(prov, facts, fn, bid):
    """everything known to hold when block `bid` runs: dominating branch conditions plus the predicates of the
    `.filter(..)` adapters of the loops it sits in (`for x in I.filter(p) { S }` == `for x in I { if p(x) { S } }`)"""
    out = list(dominating_conditions(prov, fn, bid))
    for nb, src in enclosing_loops(prov, fn, bid):
        out.extend(filter_conditions(prov, facts, src))
    return out


def ret_carriers(fn):
    """locals whose value becomes the function's result through plain moves"""
    rc = {0}
    grew = True
    while grew:
        grew = False
        for b2, i2, st2 in fn.stmts():
            if st2["k"] == "assign" and not st2["dst"]["p"] and st2["dst"]["l"] in rc and st2["rv"]["k"] == "use" and \
                    st2["rv"]["op"].get("k") in ("copy", "move") and not st2["rv"]["op"]["place"]["p"] and st2["rv"]["op"]["place"]["l"] not in rc:
                rc.add(st2["rv"]["op"]["place"]["l"])
                grew = True
    return rc


def error_fate(prov, fn, cb):
    """what happens to the error of the Result-returning call that terminates block `cb` of `fn`.
    Returns a dict: edges (the Err/Break edges of the switches on this call's result), continues (an error edge can
    reach a loop's next() again), ok_reachable (an error edge can reach an assignment of Ok(..) to the return place),
    returned_directly (the call's Result is itself the function's return value)."""
    cfg = cfg_of(fn)
    t = fn.blocks[cb]["term"]
    edges = []
    for sb in fn.order:
        tt = fn.blocks[sb]["term"]
        if tt["k"] != "switch" or "discr_of" not in tt:
            continue
        so = peel(prov.place(fn, tt["discr_of"], (sb, "t")))
        if so[0] == "call" and so[4] == (fn.key, cb):
            for e, v, n, tb in cfg.switch_edges(sb):
                if n in ("Break", "Err"):
                    edges.append(e)
    nxt = [b for b, c in fn.calls() if c["callee"]["key"] in ("std::iter::Iterator::next", "std::iter::DoubleEndedIterator::next_back")]
    continues = False
    ok_reachable = False
    # (the result may travel through temporaries - what a spliced helper's `return` leaves behind: `tmp = <value>; ..; _0 = move tmp` -
    #  so every definition of such a carrier that an error edge can reach counts, and the moves between carriers do not)
    rc = ret_carriers(fn)
    for e in edges:
        reach = cfg.reachable_from(e)
        if any(b in reach for b in nxt):
            continues = True
        for b2, i2, st in fn.stmts():
            if b2 in reach and st["k"] == "assign" and st["dst"]["l"] in rc and not st["dst"]["p"]:
                rv0 = st["rv"]
                if rv0["k"] == "use" and rv0["op"].get("k") in ("copy", "move") and not rv0["op"]["place"]["p"] and rv0["op"]["place"]["l"] in rc:
                    continue
                o = peel(prov.rvalue(fn, st["rv"], (b2, i2)))
                if not (o[0] == "call" and o[1].endswith("FromResidual::from_residual")) and not (o[0] == "agg" and o[1].endswith("Result::Err")):
                    ok_reachable = True
        for b2, t2 in fn.calls():
            if b2 in reach and t2["dst"] and not t2["dst"]["p"] and t2["dst"]["l"] in rc and not t2["callee"]["key"].endswith("FromResidual::from_residual"):
                ok_reachable = True
    direct = False
    if t["k"] == "call":
        if t["dst"]["l"] == 0 and not t["dst"]["p"]:
            direct = True
        else:
            for o in alts(peel(prov.ret(fn))):
                o = peel(o)
                if o[0] == "call" and o[4] == (fn.key, cb):
                    direct = True
    return {"edges": edges, "continues": continues, "ok_reachable": ok_reachable, "returned_directly": direct}


def error_propagates(prov, fn, cb):
    """the error of the call ending block cb always leaves `fn` as an error: every Err/Break edge leads only to error
    returns (never back into a loop, never to an Ok return), or the Result is returned as it is"""
    ef = error_fate(prov, fn, cb)
    if ef["edges"]:
        return not ef["continues"] and not ef["ok_reachable"]
    return ef["returned_directly"]


def value_cases(prov, fn, l, _depth=0, _outer=(), _use=None):
    """the ways local `l` gets its value: [(origin, conditions under which that definition is the one used, (block, index))],
    looking through plain moves (`x = move tmp` where tmp is assigned in several branches - the shape a spliced helper, a
    desugared combinator or a block expression leaves behind); the conditions are those dominating the defining site and
    every move on the way"""
    out = []
    live = cfg_of(fn).live_nodes()
    for kind, db, di, x in prov.defs(fn).get(l, []):
        if kind == "setdiscr" or x["dst"]["p"] or db not in live:
            continue        # (blocks only reachable by unwinding are not part of the graph)
        if _use is not None and not prov._reaches_live(fn, l, (db, di), _use):
            continue        # this definition is not the one the move reads (duplicated joins after jump threading)
        here = tuple(dominating_conditions(prov, fn, db))
        if kind == "assign" and x["rv"]["k"] == "use" and x["rv"]["op"].get("k") in ("copy", "move") and not x["rv"]["op"]["place"]["p"] and _depth < 6:
            m = x["rv"]["op"]["place"]["l"]
            if m > fn.arg_count and m != l and prov.defs(fn).get(m):
                out.extend(value_cases(prov, fn, m, _depth + 1, _outer + here, (db, di)))
                continue
        if kind == "assign" and x["rv"]["k"] == "use" and x["rv"]["op"].get("k") in ("copy", "move") and _depth < 6 and \
                [(p["k"], p.get("variant") or p.get("name")) for p in x["rv"]["op"]["place"]["p"]] == [("downcast", "Continue"), ("field", "0")]:
            through = _through_try(prov, fn, x["rv"]["op"]["place"]["l"], (db, di), _depth, _outer + here)
            if through is not None:
                out.extend(through)
                continue
        val = prov.rvalue(fn, x["rv"], (db, di)) if kind == "assign" else prov.call_origin(fn, x, db)
        conds = []
        seen = set()
        for c in _outer + here:
            r = repr(c)
            if r not in seen:
                seen.add(r)
                conds.append(c)
        out.append((val, conds, (db, di)))
    return out


def _through_try(prov, fn, m, use, depth, outer):
    """`(m as Continue).0` where every `m = Try::branch(y)` reads a `y` that is built in place as `Ok(v)` / `Some(v)` on several
    paths (or `Err(..)` / `None`, which do not continue): the cases of v - the shape a spliced helper with early returns leaves
    behind. None when some definition of y is anything else (the caller then keeps the merged origin)."""
    out = []
    live = cfg_of(fn).live_nodes()
    for kind, cb, ci, t in prov.defs(fn).get(m, []):
        if cb not in live or not prov._reaches_live(fn, m, (cb, ci), use):
            continue
        if kind != "call" or t["callee"]["key"] != "std::ops::Try::branch" or len(t["args"]) != 1:
            return None
        a = t["args"][0]
        if a.get("k") not in ("copy", "move") or a["place"]["p"] or a["place"]["l"] <= fn.arg_count:
            return None
        at_call = tuple(dominating_conditions(prov, fn, cb))
        for val, conds, site in value_cases(prov, fn, a["place"]["l"], depth + 1, outer + at_call, (cb, ci)):
            if val[0] == "agg" and (val[1].endswith("Result::Ok") or val[1].endswith("Option::Some")) and len(val[2]) == 1:
                out.append((val[2][0][1], conds, site))
            elif val[0] == "agg" and (val[1].endswith("Result::Err") or val[1].endswith("Option::None")):
                continue
            elif val[0] == "call" and val[1].endswith("FromResidual::from_residual"):
                continue
            else:
                return None
    return out or None


def success_return_sites(prov, fn):
    """the places where the function's result is produced and may be a success: [((block, index), origin)] - every
    definition of the return place (through plain moves) that is not visibly `Err(..)` / `from_residual(..)`.
    Used for "X succeeds only when G": each such site must be dominated by G."""
    out = []
    for val, conds, site in value_cases(prov, fn, 0):
        o = peel(val)
        if o[0] == "agg" and o[1].endswith("Result::Err"):
            continue
        if o[0] == "call" and o[1].endswith("FromResidual::from_residual"):
            continue
        out.append((site, val))
    return out


def successes_outside(prov, fn, holds, only=None):
    """blocks where `fn` produces a possibly successful result although `holds(dominating conditions)` is false there
    (`only(block)` restricts to one arm of a dispatching `match`): the literal reading of "X succeeds only when G" """
    out = []
    n = 0
    later = []
    for site, val in success_return_sites(prov, fn):
        if only is not None and not only(site[0]):
            later.append(site[0])
            continue
        n += 1
        if not holds(dominating_conditions(prov, fn, site[0])):
            out.append(site[0])
    if only is not None and later:
        # the arms of the `match` yield a value and the success is made once, behind them: every way out of the arm that
        # can still reach that success is a success of the arm
        cfg = cfg_of(fn)
        arm = set(b for b in fn.order if only(b))
        for b in sorted(arm):
            for via in cfg.succ.get(b, []):
                hops = [(via, t) for t in cfg.succ.get(via, [])] if isinstance(via, tuple) else [(b, via)]
                for at, t in hops:
                    if t in arm or not any(cfg.can_reach(t, s) for s in later):
                        continue
                    n += 1
                    if not holds(dominating_conditions(prov, fn, at)):
                        out.append(b)
    # (no success site at all in the inspected part is reported as block -1: the obligation must not hold vacuously)
    return sorted(set(out)) if n else [-1]


def succeeded(conds, callee_key):
    """the conditions include the success edge of a call to `callee_key` (`f(..)?` continued, or `Ok(_) = f(..)` matched)"""
    return any(c[0] == "variant_in" and c[2] in (("Continue",), ("Ok",)) and peel(c[1])[0] == "call" and peel(c[1])[1] == callee_key
               for e, c in conds)


def guards(prov, fn):
    """every two-way decision of `fn` in one normal form, whatever its syntax (`if a == b`, `match a { K => .. , _ => .. }`,
    `if !p(x)`): [(block, pred, args, edge on which pred(args) holds, edge on which it does not)]
    Enum-discriminant switches are not listed (see edge_conditions)."""
    cfg = cfg_of(fn)
    out = []
    for bid in fn.order:
        t = fn.blocks[bid]["term"]
        if t["k"] != "switch" or "discr_of" in t:
            continue
        edges = cfg.switch_edges(bid)
        o = prov.operand(fn, t["discr"], (bid, "t"))
        if t.get("discr_ty") == "bool":
            pred, args, pol = norm_cond(o, True)
            if pred == "const":
                continue
            te = fe = None
            for e, v, n, tb in edges:
                val = True if v is None else (v != 0)
                if val == pol:
                    te = e
                else:
                    fe = e
            out.append((bid, pred, args, te, fe))
        elif len(t["targets"]) == 1:
            v0 = t["targets"][0][0]
            te = fe = None
            for e, v, n, tb in edges:
                if v is None:
                    fe = e
                else:
                    te = e
            out.append((bid, "eq", _sym(deep_peel(o), ("const", "int", v0)), te, fe))
    return out


def dominating_conditions(prov, fn, node):
    """all conditions that hold on every path reaching `node` (block id or edge)"""
    cfg = cfg_of(fn)
    dom = cfg.dominators().get(node, set())
    out = []
    for d in dom:
        if isinstance(d, tuple) and d[0] == "e":
            for c in edge_conditions(prov, fn, d):
                out.append((d, c))
                out.extend((d, c2) for c2 in _equivalent_conditions(c))
    return out


def inherited_conditions(prov, fn, node):
    """dominating_conditions plus what a test on a *merged* value implies: when the path to `node` takes the `V` edge of a
    switch on a local that gets its value at several places (a spliced helper's `return None` / `Some(x)`, a desugared
    combinator), and exactly one of those places makes a `V`, the conditions under which that place runs hold as well
    (applied repeatedly: `helper(..).map(f).ok_or_else(g)` is two such merges in a row)"""
    out = list(dominating_conditions(prov, fn, node))
    seen_edges = set()
    todo = [e for e, c in out if isinstance(e, tuple) and e[0] == "e"]
    while todo:
        e = todo.pop()
        if e in seen_edges:
            continue
        seen_edges.add(e)
        _, sb, idx = e
        t = fn.blocks[sb]["term"]
        if t["k"] != "switch" or "discr_of" not in t or idx == "o" or t["discr_of"]["p"]:
            continue
        variant = t["targets"][idx][2]
        loc = t["discr_of"]["l"]
        # `x.map(f)` / `x.ok_or_else(g)` / `r.ok()` with a function passed by path stay calls: the tested value is V exactly when
        # the receiver is the corresponding variant
        BACK = {"std::option::Option::map": {"Some": "Some", "None": "None"}, "std::result::Result::map": {"Ok": "Ok", "Err": "Err"},
                "std::result::Result::map_err": {"Ok": "Ok", "Err": "Err"}, "std::option::Option::ok_or": {"Ok": "Some", "Err": "None"},
                "std::option::Option::ok_or_else": {"Ok": "Some", "Err": "None"}, "std::result::Result::ok": {"Some": "Ok", "None": "Err"},
                "std::result::Result::err": {"Some": "Err", "None": "Ok"}}
        for _ in range(8):
            ds = [d for d in prov.defs(fn).get(loc, []) if d[0] != "setdiscr"]
            if len(ds) == 1 and ds[0][0] == "call" and ds[0][3]["callee"]["key"] in BACK and variant in BACK[ds[0][3]["callee"]["key"]] and ds[0][3]["args"]:
                a0 = ds[0][3]["args"][0]
                if a0.get("k") in ("copy", "move") and not a0["place"]["p"]:
                    variant = BACK[ds[0][3]["callee"]["key"]][variant]
                    loc = a0["place"]["l"]
                    continue
            if len(ds) == 1 and ds[0][0] == "assign" and not ds[0][3]["dst"]["p"] and ds[0][3]["rv"]["k"] == "use" and \
                    ds[0][3]["rv"]["op"].get("k") in ("copy", "move") and not ds[0][3]["rv"]["op"]["place"]["p"]:
                loc = ds[0][3]["rv"]["op"]["place"]["l"]        # (a plain move)
                continue
            break
        cases = value_cases(prov, fn, loc)
        makers = []
        for v, cs, site in cases:
            o = peel(v)
            alts_ = [peel(x) for x in alts(o)]
            if any(a[0] == "agg" and a[1].rsplit("::", 1)[-1] == variant for a in alts_):
                makers.append((v, cs, site))
        if len(makers) == 1 and len(cases) > 1:
            for e2, c2 in makers[0][1]:
                if (e2, c2) not in out:
                    out.append((e2, c2))
                    out.extend((e2, c3) for c3 in _equivalent_conditions(c2))
                if isinstance(e2, tuple) and e2[0] == "e":
                    todo.append(e2)
    return out


_VARIANT_PRED = {"Some": ("is_some", True), "None": ("is_some", False), "Ok": ("is_ok", True), "Err": ("is_ok", False)}


def _equivalent_conditions(c):
    """`x.is_some()` and `if let Some(_) = x` (likewise is_none / is_ok / is_err) establish the same fact: each is also
    reported in the other's form, so a rule may ask for either"""
    out = []
    if c[0] == "bool" and c[1][0] in ("is_some", "is_ok") and len(c[1][1]) == 1:
        pred, args, pol = c[1]
        v = {("is_some", True): "Some", ("is_some", False): "None", ("is_ok", True): "Ok", ("is_ok", False): "Err"}[(pred, bool(pol))]
        out.append(("variant_in", args[0], (v,), "~"))
    elif c[0] == "variant_in" and len(c[2]) == 1 and c[2][0] in _VARIANT_PRED:
        pred, pol = _VARIANT_PRED[c[2][0]]
        out.append(("bool", (pred, (deep_peel(c[1]),), pol), "~"))
        # `r.ok()` is Some exactly when r is Ok (`r.err()`: when it is Err; `o.ok_or(..)` / `ok_or_else(..)`: Ok exactly when o is Some)
        x = peel(c[1])
        if x[0] == "call" and x[2]:
            conv = {("std::result::Result::ok", "Some"): "Ok", ("std::result::Result::ok", "None"): "Err", ("std::result::Result::err", "Some"): "Err",
                    ("std::result::Result::err", "None"): "Ok", ("std::option::Option::ok_or", "Ok"): "Some", ("std::option::Option::ok_or", "Err"): "None",
                    ("std::option::Option::ok_or_else", "Ok"): "Some", ("std::option::Option::ok_or_else", "Err"): "None"}.get((x[1], c[2][0]))
            if conv:
                out.append(("variant_in", x[2][0], (conv,), "~"))
    return out


def is_derived(c):
    """condition added by _equivalent_conditions (the same fact in the other spelling): not to be counted twice"""
    return c[-1] == "~"


def bool_temp_conditions(prov, fn, node):
    """like dominating_conditions, but also resolves `matches!`-style bool temporaries:
    a switch on a bool local that is assigned const true/false in blocks each dominated by
    a variant edge. Returns extra ("variant_in", origin, variants) facts for the true edge."""
    # handled by path enumeration (paths.py) where needed
    return []


def has_cond(conds, pred, pol=None, arg_pred=None):
    """is there a ("bool", (pred, args, pol)) condition among conds"""
    for edge, c in conds:
        if c[0] != "bool":
            continue
        p, args, cp = c[1]
        if p != pred:
            continue
        if pol is not None and cp != pol:
            continue
        if arg_pred is not None and not arg_pred(args):
            continue
        return True
    return False


# -------------------------------------------------------------------- misc
def returns_of(fn):
    cfg = cfg_of(fn)
    return cfg.return_blocks()


def assigns_to_local(fn, l):
    """[(bid, idx, kind, item)] assignments whose destination is local l (any projection)"""
    out = []
    for bid in fn.order:
        b = fn.blocks[bid]
        for i, st in enumerate(b["stmts"]):
            if st["k"] == "assign" and st["dst"]["l"] == l:
                out.append((bid, i, "assign", st))
        t = b["term"]
        if t["k"] == "call" and t["dst"]["l"] == l:
            out.append((bid, "t", "call", t))
    return out


def describe_call(fn, t):
    return "%s:%d %s" % (fn.file, t.get("line", 0), term_str(t, fn))


def local_of_operand(op):
    if op["k"] in ("copy", "move") and not op["place"]["p"]:
        return op["place"]["l"]
    return None


# -------------------------------------------------------------------- ordered mutations of a local (vector building)
CONTENT_NEUTRAL = {"reserve", "reserve_exact", "shrink_to_fit", "shrink_to", "try_reserve", "try_reserve_exact"}
APPENDERS = {"extend_from_slice", "extend", "push", "append", "push_str", "insert", "extend_from_within"}


def vec_build(prov, fn, l):
    """for a local vector/string: (origin of its initial value, [(block, call, name, arg origins)]) of the
    mutating calls that receive `&mut local`, in execution order; None when the mutations are not
    totally ordered by dominance (branches/loops) — callers then fall back or fail closed"""
    cfg = cfg_of(fn)
    muts = prov.mutations(fn, l)
    items = []
    for bid, t, ai in muts:
        if ai != 0:
            return None
        if t["callee"]["name"] in CONTENT_NEUTRAL:
            continue
        items.append((bid, t))
    # total order by dominance
    ordered = []
    rest = list(items)
    while rest:
        first = [x for x in rest if all(x is y or cfg.dominates(x[0], y[0]) for y in rest)]
        if len(first) != 1:
            return None
        ordered.append(first[0])
        rest.remove(first[0])
    # no cycles through a mutation (not inside a loop)
    for bid, t in ordered:
        if bid in cfg.reachable_from(bid):
            return None
    whole = [d for d in prov.defs(fn).get(l, []) if not d[3]["dst"]["p"]]
    if len(whole) != 1:
        return None
    kind, db, di, x = whole[0]
    init = prov.rvalue(fn, x["rv"], (db, di)) if kind == "assign" else prov.call_origin(fn, x, db)
    out = []
    for bid, t in ordered:
        args = prov.call_args(fn, t, bid)
        out.append((bid, t, t["callee"]["name"], args[1:]))
    return init, out


def diverges(fn):
    """no return block is reachable from the entry"""
    cfg = cfg_of(fn)
    live = cfg.live_nodes()
    return not any(b in live for b in cfg.return_blocks())


def callers_of(facts, key):
    """sorted root functions (closures folded into their lexical parent) that call `key` (by key or resolved key)"""
    out = set()
    for f in facts.fns.values():
        for bid, t in f.calls():
            c = t["callee"]
            if c["key"] == key or c.get("resolved") == key:
                out.add(f.key.split("::{closure")[0])
    return sorted(out)


def who_may_call(ctx, rule, facts, key, allowed, why, accept=None):
    """layering rule: `key` is called only from the listed functions - or from a caller for which `accept(caller key)` holds:
    a call site added later that can be *shown* to keep the discipline the listed ones keep (the predicate states that
    discipline) needs no entry in the list; one that cannot be shown to is reported as before"""
    cs = callers_of(facts, key)
    extra = [c for c in cs if c not in allowed and not (accept is not None and accept(c))]
    return ctx.ob(rule, key, "who-may-call", not extra and bool(cs),
                  "%s is also called from %s (%s)" % (key, extra, why) if cs else "%s has no callers" % key,
                  sample="callers: %s" % [c.rsplit("::", 1)[-1] for c in cs])


def router_querier(o):
    """the fields {router, api, storage, block_info} of a RouterQuerier value, whether written as a struct literal or built
    by RouterQuerier::new / Router::querier (constructor-like functions are expanded by the provenance engine; the call
    forms are accepted too); None when `o` is not such a value"""
    o = peel(o)
    if o[0] == "agg" and o[1].startswith("app::RouterQuerier"):
        return dict(o[2])
    if o[0] == "call" and o[1] in ("app::RouterQuerier::new", "app::Router::querier") and len(o[2]) == 4:
        return {"router": o[2][0], "api": o[2][1], "storage": o[2][2], "block_info": o[2][3]}
    return None


def presence_edges(prov, fn, is_source):
    """switches that decide whether an optional value is there - on the Option itself (`match x { Some.. None.. }`,
    `let Some(v) = x else ..`) or on the Result made from it by ok_or / ok_or_else followed by `?`:
    ([edges on which it is present], [edges on which it is absent]); is_source(origin) selects the Option"""
    cfg = cfg_of(fn)
    present, absent = [], []
    for sb in fn.order:
        tt = fn.blocks[sb]["term"]
        if tt["k"] != "switch" or "discr_of" not in tt:
            continue
        so = peel(prov.place(fn, tt["discr_of"], (sb, "t")))
        is_opt = is_source(so)
        is_res = so[0] == "call" and so[1] in ("std::option::Option::ok_or_else", "std::option::Option::ok_or") and so[2] and is_source(peel(so[2][0]))
        if not (is_opt or is_res):
            continue
        for e, v, n, tb in cfg.switch_edges(sb):
            if n in ("Some", "Continue", "Ok"):
                present.append(e)
            elif n in ("None", "Break", "Err"):
                absent.append(e)
            elif n is None and is_opt:
                # `otherwise` of a switch that lists only one Option variant
                listed = [x[2] for x in tt["targets"]]
                if listed == ["Some"]:
                    absent.append(e)
                elif listed == ["None"]:
                    present.append(e)
    return present, absent


def only_errors_from(prov, fn, node, forbidden_blocks=()):
    """every way on from `node` ends in an error return: no assignment of a non-error value to the return place and none of
    the forbidden blocks (writes, loop heads) is reachable"""
    cfg = cfg_of(fn)
    reach = cfg.reachable_from(node)
    if any(b in reach for b in forbidden_blocks):
        return False
    for b2, i2, st in fn.stmts():
        if b2 in reach and st["k"] == "assign" and st["dst"]["l"] == 0 and not st["dst"]["p"]:
            o = peel(prov.rvalue(fn, st["rv"], (b2, i2)))
            if not ((o[0] == "agg" and o[1].endswith("Result::Err")) or (o[0] == "call" and o[1].endswith("FromResidual::from_residual"))):
                return False
    for b2, t in fn.calls():
        if b2 in reach and t["dst"]["l"] == 0 and not t["dst"]["p"] and not t["callee"]["key"].endswith("FromResidual::from_residual"):
            return False
    return True


def forward_target(facts, prov, fn):
    """`fn` only hands its work to one other local function (`fn new() -> Self { Self::new_custom() }`): (that function,
    origins of the arguments it is given, the call's block) - None when fn does anything else (another non-value-preserving
    call, a branch, a loop)"""
    from .prov import callee_is_vp
    if any(fn.blocks[b]["term"]["k"] == "switch" for b in fn.order):
        return None
    nonvp = [(b, t) for b, t in fn.calls() if not callee_is_vp(t["callee"])]
    if len(nonvp) != 1:
        return None
    b, t = nonvp[0]
    c = t["callee"]
    g = facts.fn(c.get("resolved") or c["key"]) if c.get("local") else None
    if g is None or g.key == fn.key:
        return None
    r = peel(prov.ret(fn))
    if not (r[0] == "call" and r[4] == (fn.key, b)):
        return None
    return g, prov.call_args(fn, t, b), b


def returned_value(facts, prov, fn, depth=2):
    """origin of what `fn` returns, looking through pure forwarding (forward_target) with the arguments substituted"""
    from .prov import map_origin
    ft = forward_target(facts, prov, fn) if depth > 0 else None
    if ft is None:
        return prov.ret(fn)
    g, args, b = ft

    def sub(x):
        if x[0] == "param" and 1 <= x[1] <= len(args):
            return args[x[1] - 1]
        return None
    return map_origin(returned_value(facts, prov, g, depth - 1), sub)


def record_update(origin, is_loaded):
    """how a stored struct differs from the loaded one it is made from, whatever the syntax: `rec.f = v; save(rec)` or
    `save(Struct { f: v, ..rec })` (or every field spelled out).  is_loaded(origin) recognises the loaded record.
    Returns None when `origin` is not derived from a loaded record, else {field name: new value origin}; fields that are
    only handed out as `&mut` to a call are reported under the key ("&mut", field)."""
    o = origin
    while o[0] == "vp":
        o = o[2]
    if o[0] == "upd":
        base = o
        changed = {}
        while base[0] == "upd":
            for path, v in base[2]:
                if path and path[0] == "&mut":
                    changed[("&mut",) + tuple(path[1:2])] = v
                elif path:
                    changed.setdefault(path[0], v)
            base = base[1]
            while base[0] == "vp":
                base = base[2]
        return changed if is_loaded(base) else None
    if o[0] == "agg" and o[2]:
        changed = {}
        kept = 0
        for fname, v in o[2]:
            pv = peel(v)
            if pv[0] == "field" and pv[2] == fname and is_loaded(peel(pv[1])):
                kept += 1
            elif pv[0] == "upd" and peel(pv[1])[0] == "field" and peel(pv[1])[2] == fname and is_loaded(peel(peel(pv[1])[1])) and all(p and p[0] == "&mut" for p, _ in pv[2]):
                kept += 1
                changed[("&mut", fname)] = pv
            else:
                changed[fname] = v
        return changed if kept else None
    if is_loaded(o):
        return {}
    return None


def success_payloads(prov, fn):
    """what `fn` answers on success: the payload of every `Ok(..)` it can return, and - for a result handed on as it is
    (`f(..)`, `f(..).map_err(Into::into)`) - the call itself"""
    out = []
    for site, v in success_return_sites(prov, fn):
        o = peel(v)
        if o[0] == "agg" and o[1].endswith("Result::Ok") and o[2]:
            out.append(o[2][0][1])
        else:
            out.append(o)
    return out
