"""Query helpers shared by the rules: call-site matching, guard normalisation, dominance shortcuts."""
from .cfg import cfg_of
from .prov import peel, alts, fmt, deep_peel, contains
from .facts import place_str, term_str

STORAGE_MUT = "&mut dyn cosmwasm_std::Storage"
STORAGE_RO = "&dyn cosmwasm_std::Storage"


# -------------------------------------------------------------------- callees
def callee_matches(c, spec):
    """spec: a key string, or a (trait, method) tuple, or a callable"""
    if callable(spec):
        return spec(c)
    if isinstance(spec, tuple):
        return c.get("trait") == spec[0] and c["name"] == spec[1]
    return c["key"] == spec or c.get("resolved") == spec


def calls(fn, spec):
    return [(bid, t) for bid, t in fn.calls() if callee_matches(t["callee"], spec)]


def lexical_calls(facts, key, spec):
    out = []
    for f in facts.lexical(key):
        for bid, t in f.calls():
            if callee_matches(t["callee"], spec):
                out.append((f, bid, t))
    return out


def all_calls(facts, spec, user_only=True):
    out = []
    for f in facts.fns.values():
        if user_only and f.derived:
            continue
        for bid, t in f.calls():
            if callee_matches(t["callee"], spec):
                out.append((f, bid, t))
    return out


def input_positions(c, ty_s):
    """positions of declared parameters of the callee with the given type string"""
    return [i for i, t in enumerate(c.get("inputs", [])) if t["s"] == ty_s]


def is_storage_mut_ty(t):
    return t.get("ref") == "mut" and t.get("pointee", "").endswith("dyn cosmwasm_std::Storage")


def is_storage_ty(t):
    return t.get("ref") is not None and "cosmwasm_std::Storage" in t.get("pointee", "")


# -------------------------------------------------------------------- conditions
NEG = {"eq": "ne", "ne": "eq", "lt": "ge", "ge": "lt", "gt": "le", "le": "gt"}
CMP_TRAIT_NAMES = {"eq", "ne", "lt", "le", "gt", "ge"}
PRED_CALLS = {
    "is_empty", "is_zero", "is_ok", "is_err", "is_some", "is_none", "contains_key", "starts_with", "contains",
    "ends_with", "has", "is_some_and", "is_ok_and", "exists",
}
PRED_NEG = {"is_err": "is_ok", "is_none": "is_some"}


def norm_cond(o, pol=True):
    """normalise a boolean origin and polarity to (pred, args tuple, polarity)

    comparisons are reduced to eq / lt:   a > b ≡ b < a ;  a >= b ≡ !(a < b) ;  a <= b ≡ !(b < a) ; ne ≡ !eq
    """
    o = peel(o)
    k = o[0]
    if k == "unop" and o[1] == "Not":
        return norm_cond(o[2], not pol)
    if k == "binop" and o[1] in NEG:
        return _cmp(o[1], o[2], o[3], pol)
    if k == "call":
        name = o[1].rsplit("::", 1)[-1]
        if name in CMP_TRAIT_NAMES and len(o[2]) == 2 and ("PartialEq" in o[1] or "PartialOrd" in o[1] or "cmp::" in o[1]):
            return _cmp(name, o[2][0], o[2][1], pol)
        if name in PRED_NEG:
            return (PRED_NEG[name], tuple(deep_peel(a) for a in o[2]), not pol)
        if name in PRED_CALLS:
            return (name, tuple(deep_peel(a) for a in o[2]), pol)
        return ("call:" + o[1], tuple(deep_peel(a) for a in o[2]), pol)
    if k == "const" and o[1] == "bool":
        return ("const", (o[2],), pol)
    return ("opaque", (deep_peel(o),), pol)


def _cmp(op, a, b, pol):
    a, b = deep_peel(a), deep_peel(b)
    if op == "ne":
        return ("eq", _sym(a, b), not pol)
    if op == "eq":
        return ("eq", _sym(a, b), pol)
    if op == "lt":
        return ("lt", (a, b), pol)
    if op == "gt":
        return ("lt", (b, a), pol)
    if op == "ge":
        return ("lt", (a, b), not pol)
    if op == "le":
        return ("lt", (b, a), not pol)
    raise ValueError(op)


def _sym(a, b):
    return tuple(sorted([a, b], key=repr))


def edge_conditions(prov, fn, edge):
    """condition established by taking switch edge ("e", block, idx): list of
    ("bool", norm_cond) or ("variant", origin of scrutinee, variant name, positive?)"""
    _, bid, idx = edge
    t = fn.blocks[bid]["term"]
    out = []
    if "discr_of" in t:
        o = prov.place(fn, t["discr_of"])
        if idx == "o":
            listed = [n for v, b, n in t["targets"]]
            out.append(("variant_not_in", o, tuple(listed)))
            # complement, when the enum's variants are known
            allv = [n for v, n in t.get("variants", [])]
            rest = [n for n in allv if n not in listed]
            if rest:
                out.append(("variant_in", o, tuple(rest)))
        else:
            out.append(("variant_in", o, (t["targets"][idx][2],)))
        return out
    d = t["discr"]
    o = prov.operand(fn, d)
    if t.get("discr_ty") == "bool":
        if idx == "o":
            pol = True
        else:
            pol = t["targets"][idx][0] != 0
        out.append(("bool", norm_cond(o, pol)))
        return out
    # integer switch
    if idx == "o":
        out.append(("int_not_in", deep_peel(o), tuple(v for v, b, n in t["targets"])))
    else:
        out.append(("int_eq", deep_peel(o), t["targets"][idx][0]))
    return out


def dominating_conditions(prov, fn, node):
    """all conditions that hold on every path reaching `node` (block id or edge)"""
    cfg = cfg_of(fn)
    dom = cfg.dominators().get(node, set())
    out = []
    for d in dom:
        if isinstance(d, tuple) and d[0] == "e":
            for c in edge_conditions(prov, fn, d):
                out.append((d, c))
    return out


def bool_temp_conditions(prov, fn, node):
    """like dominating_conditions, but also resolves `matches!`-style bool temporaries:
    a switch on a bool local that is assigned const true/false in blocks each dominated by
    a variant edge. Returns extra ("variant_in", origin, variants) facts for the true edge."""
    # handled by path enumeration (paths.py) where needed
    return []


def has_cond(conds, pred, pol=None, arg_pred=None):
    """is there a ("bool", (pred, args, pol)) condition among conds"""
    for edge, c in conds:
        if c[0] != "bool":
            continue
        p, args, cp = c[1]
        if p != pred:
            continue
        if pol is not None and cp != pol:
            continue
        if arg_pred is not None and not arg_pred(args):
            continue
        return True
    return False


# -------------------------------------------------------------------- misc
def returns_of(fn):
    cfg = cfg_of(fn)
    return cfg.return_blocks()


def assigns_to_local(fn, l):
    """[(bid, idx, kind, item)] assignments whose destination is local l (any projection)"""
    out = []
    for bid in fn.order:
        b = fn.blocks[bid]
        for i, st in enumerate(b["stmts"]):
            if st["k"] == "assign" and st["dst"]["l"] == l:
                out.append((bid, i, "assign", st))
        t = b["term"]
        if t["k"] == "call" and t["dst"]["l"] == l:
            out.append((bid, "t", "call", t))
    return out


def describe_call(fn, t):
    return "%s:%d %s" % (fn.file, t.get("line", 0), term_str(t, fn))


def local_of_operand(op):
    if op["k"] in ("copy", "move") and not op["place"]["p"]:
        return op["place"]["l"]
    return None


# -------------------------------------------------------------------- ordered mutations of a local (vector building)
CONTENT_NEUTRAL = {"reserve", "reserve_exact", "shrink_to_fit", "shrink_to", "try_reserve", "try_reserve_exact"}
APPENDERS = {"extend_from_slice", "extend", "push", "append", "push_str", "insert", "extend_from_within"}


def vec_build(prov, fn, l):
    """for a local vector/string: (origin of its initial value, [(block, call, name, arg origins)]) of the
    mutating calls that receive `&mut local`, in execution order; None when the mutations are not
    totally ordered by dominance (branches/loops) — callers then fall back or fail closed"""
    cfg = cfg_of(fn)
    muts = prov.mutations(fn, l)
    items = []
    for bid, t, ai in muts:
        if ai != 0:
            return None
        if t["callee"]["name"] in CONTENT_NEUTRAL:
            continue
        items.append((bid, t))
    # total order by dominance
    ordered = []
    rest = list(items)
    while rest:
        first = [x for x in rest if all(x is y or cfg.dominates(x[0], y[0]) for y in rest)]
        if len(first) != 1:
            return None
        ordered.append(first[0])
        rest.remove(first[0])
    # no cycles through a mutation (not inside a loop)
    for bid, t in ordered:
        if bid in cfg.reachable_from(bid):
            return None
    whole = [d for d in prov.defs(fn).get(l, []) if not d[3]["dst"]["p"]]
    if len(whole) != 1:
        return None
    kind, db, di, x = whole[0]
    init = prov.rvalue(fn, x["rv"], (db, di)) if kind == "assign" else prov.call_origin(fn, x, db)
    out = []
    for bid, t in ordered:
        args = prov.call_args(fn, t, bid)
        out.append((bid, t, t["callee"]["name"], args[1:]))
    return init, out


def diverges(fn):
    """no return block is reachable from the entry"""
    cfg = cfg_of(fn)
    live = cfg.live_nodes()
    return not any(b in live for b in cfg.return_blocks())


def callers_of(facts, key):
    """sorted root functions (closures folded into their lexical parent) that call `key` (by key or resolved key)"""
    out = set()
    for f in facts.fns.values():
        for bid, t in f.calls():
            c = t["callee"]
            if c["key"] == key or c.get("resolved") == key:
                out.add(f.key.split("::{closure")[0])
    return sorted(out)


def who_may_call(ctx, rule, facts, key, allowed, why):
    """layering rule: `key` is called only from the listed functions"""
    cs = callers_of(facts, key)
    extra = [c for c in cs if c not in allowed]
    return ctx.ob(rule, key, "who-may-call", not extra and bool(cs),
                  "%s is also called from %s (%s)" % (key, extra, why) if cs else "%s has no callers" % key,
                  sample="callers: %s" % [c.rsplit("::", 1)[-1] for c in cs])
