"""Use sites of locals and A7 (error discipline: no dropped Result)."""


def _op_locals(op, out):
    if op["k"] in ("copy", "move"):
        out.add(op["place"]["l"])
        for e in op["place"]["p"]:
            if e["k"] == "index":
                out.add(e["local"])


def rvalue_reads(rv):
    out = set()
    k = rv["k"]
    if k in ("use", "cast", "repeat"):
        _op_locals(rv["op"], out)
    elif k in ("ref", "rawptr", "discriminant"):
        out.add(rv["place"]["l"])
    elif k == "binop":
        _op_locals(rv["a"], out)
        _op_locals(rv["b"], out)
    elif k == "unop":
        _op_locals(rv["a"], out)
    elif k == "aggregate":
        for o in rv["ops"]:
            _op_locals(o, out)
    return out


def uses_of_local(fn, l):
    """[(bid, idx, kind)] sites that read local l; kind in stmt, call-arg, switch, assert, drop, write-through"""
    out = []
    for bid in fn.order:
        b = fn.blocks[bid]
        for i, st in enumerate(b["stmts"]):
            if st["k"] != "assign":
                continue
            if l in rvalue_reads(st["rv"]):
                # `_n = discriminant(l)` that only feeds drop elaboration is still a read of the tag;
                # count only discriminant reads that reach a switch
                if st["rv"]["k"] == "discriminant":
                    out.append((bid, i, "discriminant"))
                else:
                    out.append((bid, i, "stmt"))
            if st["dst"]["l"] == l and st["dst"]["p"]:
                out.append((bid, i, "write-through"))
        t = b["term"]
        k = t["k"]
        if k == "call":
            s = set()
            for a in t["args"]:
                _op_locals(a, s)
            if "indirect" in t["callee"]:
                _op_locals(t["callee"]["indirect"], s)
            if l in s:
                out.append((bid, "t", "call-arg"))
        elif k == "switch":
            s = set()
            _op_locals(t["discr"], s)
            if l in s:
                out.append((bid, "t", "switch"))
        elif k == "assert":
            s = set()
            _op_locals(t["cond"], s)
            if l in s:
                out.append((bid, "t", "assert"))
        elif k == "drop":
            if t["place"]["l"] == l:
                out.append((bid, "t", "drop"))
    return out


def discriminant_feeds_switch(fn, bid, i):
    """does `_x = discriminant(..)` at (bid, i) feed the switch terminating the same block"""
    b = fn.blocks[bid]
    st = b["stmts"][i]
    t = b["term"]
    if t["k"] != "switch":
        return False
    d = t["discr"]
    return d["k"] in ("copy", "move") and d["place"]["l"] == st["dst"]["l"]


RESULT_PREFIXES = ("std::result::Result<",)
# calls that discard the error of their receiver when their own result is unused
ERROR_SWALLOWERS = {"std::result::Result::ok", "std::result::Result::unwrap_or_default", "std::result::Result::is_ok",
                    "std::result::Result::is_err", "std::result::Result::err"}


def dropped_results(fn):
    """A7: calls returning Result whose value is never inspected, propagated or passed on.

    Returns [(bid, terminator, reason)]. `let _ = f();` and `f().ok();` both end up here.
    """
    out = []
    for bid, t in fn.calls():
        dst = t["dst"]
        if dst["p"]:
            continue
        l = dst["l"]
        ty = fn.locals[l]["s"]
        if not ty.startswith(RESULT_PREFIXES):
            continue
        if l == 0:
            continue  # returned
        if t.get("exp") and t["exp"] not in ("desugar:QuestionMark",):
            # results produced inside std macro expansions (write!/format!) are not user code
            if t["exp"] in ("write", "writeln", "format", "format_args", "panic", "unreachable", "assert", "assert_eq",
                            "debug_assert", "vec", "println", "eprintln"):
                continue
        us = uses_of_local(fn, l)
        real = []
        for (ub, ui, kind) in us:
            if kind == "drop":
                continue
            if kind == "discriminant" and not discriminant_feeds_switch(fn, ub, ui):
                continue
            real.append((ub, ui, kind))
        if not real:
            out.append((bid, t, "result of %s is never used" % t["callee"]["key"]))
            continue
        # `.ok()` etc. whose own result is unused
        if len(real) == 1 and real[0][2] == "call-arg":
            ub = real[0][0]
            ut = fn.blocks[ub]["term"]
            if ut["callee"]["key"] in ERROR_SWALLOWERS and not ut["dst"]["p"]:
                l2 = ut["dst"]["l"]
                us2 = [u for u in uses_of_local(fn, l2) if u[2] != "drop" and not (
                    u[2] == "discriminant" and not discriminant_feeds_switch(fn, u[0], u[1]))]
                if not us2 and l2 != 0:
                    out.append((bid, t, "error of %s swallowed by %s" % (t["callee"]["key"], ut["callee"]["key"])))
    return out
