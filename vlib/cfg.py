"""A2: control-flow graph with edges as first-class nodes, dominators, reachability.

Nodes are block ids (int) and switch edges ("e", block, index) where index is the position in the
switch's target list or "o" for the otherwise edge. Unwind edges are not part of the graph.
A *site* is (block, i) with i a statement index or "t" for the terminator.
"""


class Cfg:
    def __init__(self, fn):
        self.fn = fn
        self.succ = {}
        self.pred = {}
        self.entry = fn.order[0] if fn.order else None
        for bid in fn.order:
            t = fn.blocks[bid]["term"]
            k = t["k"]
            outs = []
            if k == "call":
                if t["target"] is not None:
                    outs.append(t["target"])
            elif k in ("goto", "drop", "assert"):
                outs.append(t["target"])
            elif k == "switch":
                for i, (v, b, n) in enumerate(t["targets"]):
                    e = ("e", bid, i)
                    outs.append(e)
                    self.succ[e] = [b]
                e = ("e", bid, "o")
                outs.append(e)
                self.succ[e] = [t["otherwise"]]
            self.succ[bid] = outs
        # missing blocks (cleanup blocks are not dumped) are terminal
        for n, outs in list(self.succ.items()):
            for m in outs:
                if m not in self.succ:
                    self.succ[m] = []
        for n, outs in self.succ.items():
            for m in outs:
                self.pred.setdefault(m, []).append(n)
        self._dom = None
        self._pdom = None
        self._reach = {}

    # ---------------------------------------------------------------- basic
    def nodes(self):
        return list(self.succ)

    def reachable_from(self, n, avoid=()):
        key = (n, frozenset(avoid))
        if key in self._reach:
            return self._reach[key]
        seen = set()
        stack = [n]
        avoid = set(avoid)
        while stack:
            x = stack.pop()
            for y in self.succ.get(x, []):
                if y in seen or y in avoid:
                    continue
                seen.add(y)
                stack.append(y)
        self._reach[key] = seen
        return seen

    def live_nodes(self):
        if self.entry is None:
            return set()
        return self.reachable_from(self.entry) | {self.entry}

    def is_unreachable_block(self, bid):
        t = self.fn.blocks.get(bid, {}).get("term", {})
        return t.get("k") == "unreachable"

    # ---------------------------------------------------------------- dominators
    def dominators(self):
        if self._dom is not None:
            return self._dom
        live = self.live_nodes()
        order = self._rpo(live)
        allset = set(live)
        dom = {n: set(allset) for n in live}
        dom[self.entry] = {self.entry}
        changed = True
        while changed:
            changed = False
            for n in order:
                if n == self.entry:
                    continue
                ps = [p for p in self.pred.get(n, []) if p in live]
                if not ps:
                    new = {n}
                else:
                    new = set.intersection(*[dom[p] for p in ps]) | {n}
                if new != dom[n]:
                    dom[n] = new
                    changed = True
        self._dom = dom
        return dom

    def _rpo(self, live):
        seen = set()
        out = []

        def dfs(n):
            stack = [(n, iter(self.succ.get(n, [])))]
            seen.add(n)
            while stack:
                x, it = stack[-1]
                adv = False
                for y in it:
                    if y not in seen and y in live:
                        seen.add(y)
                        stack.append((y, iter(self.succ.get(y, []))))
                        adv = True
                        break
                if not adv:
                    out.append(x)
                    stack.pop()

        dfs(self.entry)
        out.reverse()
        return out

    def dominates(self, a, b):
        """node a dominates node b (reflexive); unreachable b is dominated by everything"""
        dom = self.dominators()
        if b not in dom:
            return True
        return a in dom[b]

    def site_dominates(self, a, b):
        """site a = (block, i) is executed before site b on every path reaching b"""
        (ba, ia), (bb_, ib) = a, b
        if ba == bb_:
            return _idx(ia) < _idx(ib)
        return self.dominates(ba, bb_)

    def after_call_node(self, bid):
        """node that is reached exactly when the call terminating `bid` has returned"""
        t = self.fn.blocks[bid]["term"]
        return t.get("target")

    # ---------------------------------------------------------------- return / exit
    def return_blocks(self):
        return [b for b in self.fn.order if self.fn.blocks[b]["term"]["k"] == "return"]

    def can_reach(self, a, b, avoid=()):
        return b == a or b in self.reachable_from(a, avoid)

    def must_pass(self, via, to, start=None):
        """every path start→to goes through node `via`"""
        start = self.entry if start is None else start
        if via == start or via == to:
            return True
        if to not in self.reachable_from(start) and to != start:
            return True
        return to not in self.reachable_from(start, avoid=[via])

    # ---------------------------------------------------------------- switch edges
    def switch_edges(self, bid):
        """[(edge node, value or None, variant name or None, target)]"""
        t = self.fn.blocks[bid]["term"]
        if t["k"] != "switch":
            return []
        out = []
        for i, (v, b, n) in enumerate(t["targets"]):
            out.append((("e", bid, i), v, n, b))
        out.append((("e", bid, "o"), None, None, t["otherwise"]))
        return out


def _idx(i):
    return 10 ** 9 if i == "t" else i


_CFGS = {}


def cfg_of(fn):
    c = fn._cfg
    if c is None:
        c = Cfg(fn)
        fn._cfg = c
    return c
