"""Loading and indexing of the JSON fact files written by the cwmt-facts driver."""
import json
import os

_FROZEN = None


def frozen_params():
    """{function key: [parameter names at the time the rule tables were confirmed]} (tools/freeze_params.py)"""
    global _FROZEN
    if _FROZEN is None:
        _FROZEN = {}
        p = os.path.join(os.path.dirname(os.path.abspath(__file__)), "frozen_params.json")
        if os.path.exists(p) and not os.environ.get("CWMT_NO_FROZEN"):
            with open(p) as fh:
                _FROZEN = json.load(fh)
    return _FROZEN


_KNOWN = None


def known_fns():
    """keys of the functions that existed when the rule tables were confirmed (tools/freeze_params.py)"""
    global _KNOWN
    if _KNOWN is None:
        _KNOWN = set()
        p = os.path.join(os.path.dirname(os.path.abspath(__file__)), "known_fns.json")
        if os.path.exists(p) and not os.environ.get("CWMT_NO_FROZEN"):
            with open(p) as fh:
                _KNOWN = set(json.load(fh))
    return _KNOWN


_KNOWN_CONSTS = None


def known_consts():
    """keys of the constants / statics that existed when the rule tables were confirmed (tools/freeze_params.py)"""
    global _KNOWN_CONSTS
    if _KNOWN_CONSTS is None:
        _KNOWN_CONSTS = set()
        p = os.path.join(os.path.dirname(os.path.abspath(__file__)), "known_consts.json")
        if os.path.exists(p) and not os.environ.get("CWMT_NO_FROZEN"):
            with open(p) as fh:
                _KNOWN_CONSTS = set(json.load(fh))
    return _KNOWN_CONSTS


class Fn:
    def __init__(self, d):
        self.d = d
        self.key = d["key"]
        self.kind = d["kind"]
        self.file = d["file"]
        self.line = d["line"]
        self.derived = d["derived"] or bool(d.get("exp"))
        self.vis = d["vis"]
        self.arg_count = d["arg_count"]
        self.locals = d["locals"]
        self.blocks = {b["id"]: b for b in d["blocks"]}
        self.order = [b["id"] for b in d["blocks"]]
        self.parent = d.get("parent")
        self.upvars = d.get("upvars", [])
        # names: local index -> user variable name (whole-local bindings only)
        self.names = {}
        self.upvar_names = {}
        for n in d["names"]:
            pl = n["place"]
            if not pl["p"]:
                self.names.setdefault(pl["l"], n["name"])
        # parameters are identified by position: a renamed parameter keeps the name the rules know it by
        fz = frozen_params().get(self.key)
        if fz and len(fz) == self.arg_count:
            self.actual_arg_names = {i: self.names.get(i) for i in range(1, self.arg_count + 1)}
            for i, nm in enumerate(fz):
                self.names[i + 1] = nm
        self._defs = None
        self._cfg = None
        self.promoted = {}
        for pr in d.get("promoted", []):
            pd = {"key": "%s::{promoted#%d}" % (self.key, pr["idx"]), "kind": "promoted", "file": self.file,
                  "line": self.line, "derived": d["derived"], "vis": "n/a", "arg_count": 0, "locals": pr["locals"],
                  "blocks": pr["blocks"], "names": []}
            self.promoted[pr["idx"]] = Fn(pd)

    def __repr__(self):
        return "<Fn %s>" % self.key

    @property
    def loc(self):
        return "%s:%d" % (self.file, self.line)

    def arg_name(self, i):
        """name of argument local i (1-based MIR local)"""
        return self.names.get(i, "_%d" % i)

    def arg_index(self, name):
        for i in range(1, self.arg_count + 1):
            if self.names.get(i) == name:
                return i
        return None

    def local_ty(self, l):
        return self.locals[l]["s"]

    def calls(self):
        """yield (block id, terminator) for every call terminator"""
        for bid in self.order:
            t = self.blocks[bid]["term"]
            if t["k"] == "call":
                yield bid, t

    def stmts(self):
        for bid in self.order:
            for i, st in enumerate(self.blocks[bid]["stmts"]):
                yield bid, i, st


class Facts:
    def __init__(self, path=None, data=None):
        if data is None:
            with open(path) as fh:
                data = json.load(fh)
        self.data = data
        self.config = data.get("config", "")
        self.nonce = data.get("nonce", "")
        self.fns = {}
        self.dups = []
        # A8: new private helpers are spliced into their callers (only for the crate the rule tables were frozen on)
        self.inlined = {"spliced": {}, "removed": []}
        known = known_fns()
        if known and sum(1 for d in data["functions"] if d["key"] in known) >= 100 and not os.environ.get("CWMT_NO_INLINE"):
            from . import inline
            self.inlined = inline.normalise(data, known)
        for d in data["functions"]:
            f = Fn(d)
            if f.key in self.fns:
                self.dups.append(f.key)
                n = 2
                while "%s#%d" % (f.key, n) in self.fns:
                    n += 1
                f.key = "%s#%d" % (f.key, n)
            self.fns[f.key] = f
        self.children = {}
        for f in self.fns.values():
            if f.parent:
                self.children.setdefault(f.parent, []).append(f)
        self.adts = {a["path"]: a for a in data["adts"]}
        self.traits = {t["path"]: t for t in data["traits"]}
        self.impls = data["impls"]
        self.consts = {c["key"]: c for c in data["consts"]}
        self.statics = data["statics"]
        self.unsafe = data["unsafe"]

    def fn(self, key):
        return self.fns.get(key)

    def lexical(self, key):
        """the function and all closures nested in it (lexical body)"""
        out = []
        f = self.fns.get(key)
        if f is None:
            return out
        stack = [f]
        while stack:
            g = stack.pop()
            out.append(g)
            stack.extend(sorted(self.children.get(g.key, []), key=lambda x: x.key))
        return out

    def user_fns(self):
        return [f for f in self.fns.values() if not f.derived]

    def n_calls(self):
        return sum(1 for f in self.fns.values() for _ in f.calls())

    def file_of(self, key):
        f = self.fns.get(key)
        return f.file if f else None


# ------------------------------------------------------------------ pretty printing
def place_str(p, fn=None):
    s = "_%d" % p["l"]
    if fn is not None and p["l"] in fn.names:
        s = "%s(_%d)" % (fn.names[p["l"]], p["l"])
    for e in p["p"]:
        k = e["k"]
        if k == "deref":
            s = "(*%s)" % s
        elif k == "field":
            s = "%s.%s" % (s, e["name"])
        elif k == "downcast":
            s = "(%s as %s)" % (s, e["variant"])
        elif k == "index":
            s = "%s[_%d]" % (s, e["local"])
        else:
            s = "%s[%s]" % (s, k)
    return s


def op_str(o, fn=None):
    k = o["k"]
    if k in ("copy", "move"):
        return ("move " if k == "move" else "") + place_str(o["place"], fn)
    if k == "const":
        ck = o.get("ck")
        if ck == "str" or ck == "bytes":
            return "const %r" % o["str"]
        if ck in ("int", "bool"):
            return "const %s" % o["int"]
        if ck == "fn":
            return "fn %s" % o["fn"]
        if ck == "item":
            return "item %s" % o["item"]
        return "const<%s>" % o.get("text", "?")
    return o.get("text", "?")


def rv_str(rv, fn=None):
    k = rv["k"]
    if k == "use":
        return op_str(rv["op"], fn)
    if k == "ref":
        return ("&mut " if rv["mut"] else "&") + place_str(rv["place"], fn)
    if k == "cast":
        return "%s as %s [%s]" % (op_str(rv["op"], fn), rv["ty"], rv["cast"])
    if k == "binop":
        return "%s(%s, %s)" % (rv["op"], op_str(rv["a"], fn), op_str(rv["b"], fn))
    if k == "unop":
        return "%s(%s)" % (rv["op"], op_str(rv["a"], fn))
    if k == "discriminant":
        return "discriminant(%s)" % place_str(rv["place"], fn)
    if k == "aggregate":
        a = rv["agg"]
        ops = [op_str(o, fn) for o in rv["ops"]]
        if a == "adt":
            return "%s::%s{%s}" % (rv["adt"], rv["variant"], ", ".join("%s: %s" % z for z in zip(rv["fields"], ops)))
        if a == "closure":
            return "closure %s{%s}" % (rv["closure"], ", ".join("%s: %s" % z for z in zip(rv["fields"], ops)))
        return "%s(%s)" % (a, ", ".join(ops))
    if k == "rawptr":
        return "&raw " + place_str(rv["place"], fn)
    return rv.get("text", k)


def term_str(t, fn=None):
    k = t["k"]
    if k == "call":
        c = t["callee"]
        name = c["key"]
        if c.get("trait"):
            name = "<%s as %s>::%s" % (c.get("self_ty"), c["trait"], c["name"])
            if c.get("resolved"):
                name += " => " + c["resolved"]
        return "%s = %s(%s) -> bb%s" % (
            place_str(t["dst"], fn), name, ", ".join(op_str(a, fn) for a in t["args"]), t["target"])
    if k == "switch":
        tg = ", ".join("%s%s->bb%d" % (v, ("=" + n) if n else "", b) for v, b, n in t["targets"])
        extra = ""
        if "discr_of" in t:
            extra = " [discr of %s : %s]" % (place_str(t["discr_of"], fn), t.get("adt"))
        return "switch %s {%s, otherwise->bb%d}%s" % (op_str(t["discr"], fn), tg, t["otherwise"], extra)
    if k == "goto":
        return "goto bb%d" % t["target"]
    if k == "drop":
        return "drop(%s) -> bb%d" % (place_str(t["place"], fn), t["target"])
    if k == "assert":
        return "assert(%s == %s) -> bb%d" % (op_str(t["cond"], fn), t["expected"], t["target"])
    return k


def dump_fn(fn):
    out = ["fn %s  @%s  args=%d" % (fn.key, fn.loc, fn.arg_count)]
    if fn.upvars:
        out.append("  upvars: %s" % fn.upvars)
    for bid in fn.order:
        b = fn.blocks[bid]
        out.append("  bb%d:" % bid)
        for st in b["stmts"]:
            if st["k"] == "assign":
                out.append("    %s = %s   // %d%s" % (place_str(st["dst"], fn), rv_str(st["rv"], fn), st["line"],
                                                     (" " + st["exp"]) if st.get("exp") else ""))
            else:
                out.append("    setdiscr %s = %s" % (place_str(st["dst"], fn), st["variant"]))
        t = b["term"]
        out.append("    %s   // %d%s" % (term_str(t, fn), t.get("line", 0), (" " + t["exp"]) if t.get("exp") else ""))
    return "\n".join(out)
