"""Mutation catalogue runner (measures the checker; never decides a property).

A mutant is a dict:
  id        unique name
  prop      property whose rules must report it
  file      path relative to the repository root
  old, new  exact text replacement (old must occur exactly `count` times, default 1)
  edits     alternative to file/old/new: list of (file, old, new)
  expect    list of rule ids, one of which must report (None: any finding of the property)
  configs   feature configurations to analyse (default ["default"])
  kind      "break" (must be reported) or "preserve" (behaviour-preserving edit: must stay silent)
  base      optional id of a behaviour-preserving seed under /verif/seeded whose patch is applied first: the mutation is
            then made to the *refactored* form of the code (does the rule still see the breakage in the other syntax?)

Each mutant is applied to a scratch copy of the sources created with mkdtemp outside /repo and
/verif, analysed statically by replaying the recorded rustc command line with the driver, and
the copy is removed immediately.
"""
import importlib
import os
import shutil
import tempfile
import traceback
from concurrent.futures import ProcessPoolExecutor

from . import core, extract
from .facts import Facts


def load_catalogue(prop):
    try:
        mod = importlib.import_module("mutants." + prop)
    except ModuleNotFoundError:
        return []
    out = []
    for m in mod.MUTANTS:
        m = dict(m)
        m.setdefault("prop", prop)
        m.setdefault("kind", "break")
        m.setdefault("configs", ["default"])
        m.setdefault("expect", None)
        out.append(m)
    return out


def apply_edits(root, m):
    edits = m.get("edits") or [(m["file"], m["old"], m["new"])]
    for ed in edits:
        file, old, new = ed[:3]
        p = os.path.join(root, file)
        with open(p) as fh:
            text = fh.read()
        cnt = text.count(old)
        want = ed[3] if len(ed) > 3 else m.get("count", 1)
        if cnt != want:
            return "pattern occurs %d times in %s (expected %d)" % (cnt, file, want)
        text = text.replace(old, new)
        with open(p, "w") as fh:
            fh.write(text)
    return None


def run_one(m, repo=None):
    repo = repo or extract.REPO
    tmp = tempfile.mkdtemp(prefix="cwmt-mut-")
    res = {"id": m["id"], "prop": m["prop"], "kind": m["kind"], "status": "?", "rules": [], "detail": ""}
    try:
        shutil.copytree(os.path.join(repo, "src"), os.path.join(tmp, "src"))
        for f in ("Cargo.toml", "Cargo.lock"):
            shutil.copy(os.path.join(repo, f), os.path.join(tmp, f))
        err = None
        if m.get("base"):
            import subprocess
            bp = os.path.join(extract.VERIF, "seeded", m["base"], "patch.diff")
            r = subprocess.run(["patch", "-p1", "-s", "--no-backup-if-mismatch", "-i", bp], cwd=tmp, stdout=subprocess.PIPE, stderr=subprocess.STDOUT, text=True)
            if r.returncode != 0:
                err = "base patch %s does not apply: %s" % (m["base"], r.stdout[-200:])
        err = err or apply_edits(tmp, m)
        if err:
            res["status"] = "skipped"
            res["detail"] = err
            return res
        props = [m["prop"]]
        if m["kind"] == "preserve":
            # behaviour-preserving edits must keep every property's rules silent
            rdir = os.path.join(extract.VERIF, "rules")
            props = sorted(f[:-3] for f in os.listdir(rdir) if f.startswith("C") and f.endswith(".py") and len(f) == 6)
        cfgs = []
        for cname in m["configs"]:
            out = os.path.join(tmp, "facts-%s.json" % cname)
            ok, log = extract.replay(cname, tmp, out)
            if not ok:
                res["status"] = "killed" if m.get("rustc_rejects") else "does-not-compile"
                res["rules"] = ["rustc"] if m.get("rustc_rejects") else []
                res["detail"] = log[-1500:]
                return res
            cfgs.append(core.Cfg(cname, Facts(out)))
        known = core.load_known()
        rules_new = []
        res["findings"] = []
        for prop in props:
            mod = importlib.import_module("rules." + prop)
            if getattr(mod, "NOT_APPLICABLE", None):
                continue
            ctx = core.Ctx(prop, cfgs, "thorough")
            for c in cfgs:
                ctx.cur = c
                try:
                    mod.check(ctx, c)
                except Exception as e:
                    ctx.fail(prop + ".R0", "-", "checker-crash", "%r %s" % (e, traceback.format_exc()[-800:]))
            rules_new += sorted({f.rule for k, f in ctx.findings.items() if (prop, k) not in known})
            res["findings"] += ["%s: %s" % (k, f.message[:200]) for k, f in ctx.findings.items() if (prop, k) not in known][:6]
        res["rules"] = rules_new
        if m["kind"] == "preserve":
            res["status"] = "silent" if not rules_new else "false-alarm"
        else:
            exp = m["expect"]
            hit = bool(rules_new) if exp is None else any(r in exp for r in rules_new)
            res["status"] = "killed" if hit else ("reported-by-other-rule" if rules_new else "survived")
        return res
    except Exception as e:
        res["status"] = "error"
        res["detail"] = "%r %s" % (e, traceback.format_exc()[-800:])
        return res
    finally:
        shutil.rmtree(tmp, ignore_errors=True)


def run_catalogue(prop, only=None, jobs=16):
    ms = load_catalogue(prop)
    if only:
        ms = [m for m in ms if m["id"] in only]
    if not ms:
        return []
    # make sure command lines are recorded for all needed configs before going parallel
    for c in sorted({c for m in ms for c in m["configs"]}):
        if not os.path.exists(os.path.join(extract.WORK, "cmd-%s.json" % c)):
            extract.extract(c, use_cache=False)
    with ProcessPoolExecutor(max_workers=min(jobs, len(ms))) as ex:
        return list(ex.map(run_one, ms))


def summarize(results):
    s = {}
    for r in results:
        s[r["status"]] = s.get(r["status"], 0) + 1
    return s


def dump_mutant(prop, mid, keys, config="default"):
    """print the MIR of functions of a mutated scratch copy (debugging aid)"""
    from .facts import dump_fn
    ms = [m for m in load_catalogue(prop) if m["id"] == mid]
    m = ms[0]
    tmp = tempfile.mkdtemp(prefix="cwmt-mut-")
    try:
        shutil.copytree(os.path.join(extract.REPO, "src"), os.path.join(tmp, "src"))
        for f in ("Cargo.toml", "Cargo.lock"):
            shutil.copy(os.path.join(extract.REPO, f), os.path.join(tmp, f))
        err = None
        if m.get("base"):
            import subprocess
            bp = os.path.join(extract.VERIF, "seeded", m["base"], "patch.diff")
            r = subprocess.run(["patch", "-p1", "-s", "--no-backup-if-mismatch", "-i", bp], cwd=tmp, stdout=subprocess.PIPE, stderr=subprocess.STDOUT, text=True)
            if r.returncode != 0:
                err = "base patch %s does not apply: %s" % (m["base"], r.stdout[-200:])
        err = err or apply_edits(tmp, m)
        if err:
            print(err)
            return
        out = os.path.join(tmp, "facts.json")
        ok, log = extract.replay(config, tmp, out)
        if not ok:
            print(log[-3000:])
            return
        F = Facts(out)
        for k in keys:
            for key, f in F.fns.items():
                if key == k or (k.endswith("*") and key.startswith(k[:-1])):
                    print(dump_fn(f))
    finally:
        shutil.rmtree(tmp, ignore_errors=True)


# ------------------------------------------------------------------------------------------ seeded changes
def load_seeded(prop=None):
    """seeded changes produced by independent sub-agents: /verif/seeded/<id>/{patch.diff, meta.json}"""
    import json
    root = os.path.join(extract.VERIF, "seeded")
    out = []
    if not os.path.isdir(root):
        return out
    for d in sorted(os.listdir(root)):
        mp = os.path.join(root, d, "meta.json")
        pp = os.path.join(root, d, "patch.diff")
        if not (os.path.exists(mp) and os.path.exists(pp)):
            continue
        with open(mp) as fh:
            meta = json.load(fh)
        if prop and meta.get("property") != prop:
            continue
        meta["id"] = d
        meta["patch"] = pp
        out.append(meta)
    return out


def run_seeded_one(meta, repo=None):
    """apply the patch to a scratch copy, analyse statically, run every property's rules; returns which fire"""
    import subprocess
    repo = repo or extract.REPO
    tmp = tempfile.mkdtemp(prefix="cwmt-seed-")
    res = {"id": meta["id"], "prop": meta.get("property"), "status": "?", "rules": [], "findings": [], "detail": ""}
    try:
        shutil.copytree(os.path.join(repo, "src"), os.path.join(tmp, "src"))
        for f in ("Cargo.toml", "Cargo.lock"):
            shutil.copy(os.path.join(repo, f), os.path.join(tmp, f))
        r = subprocess.run(["patch", "-p1", "-s", "--no-backup-if-mismatch", "-i", meta["patch"]], cwd=tmp, stdout=subprocess.PIPE, stderr=subprocess.STDOUT, text=True)
        if r.returncode != 0:
            res["status"] = "skipped"
            res["detail"] = "patch does not apply: " + r.stdout[-300:]
            return res
        cfgs = []
        for cname in meta.get("configs") or ["default", "all-features"]:
            out = os.path.join(tmp, "facts-%s.json" % cname)
            ok, log = extract.replay(cname, tmp, out)
            if not ok:
                res["status"] = "does-not-compile"
                res["detail"] = log[-800:]
                return res
            cfgs.append(core.Cfg(cname, Facts(out)))
        known = core.load_known()
        rdir = os.path.join(extract.VERIF, "rules")
        props = sorted(f[:-3] for f in os.listdir(rdir) if f.startswith("C") and f.endswith(".py") and len(f) == 6)
        for prop in props:
            mod = importlib.import_module("rules." + prop)
            ctx = core.Ctx(prop, cfgs, "thorough")
            for c in cfgs:
                ctx.cur = c
                try:
                    mod.check(ctx, c)
                except Exception as e:
                    ctx.fail(prop + ".R0", "-", "checker-crash", "%r %s" % (e, traceback.format_exc()[-600:]))
            for k, f in ctx.findings.items():
                if (prop, k) not in known:
                    res["rules"].append(f.rule)
                    res["findings"].append("%s: %s" % (k, f.message[:240]))
        res["rules"] = sorted(set(res["rules"]))
        if meta.get("kind") == "preserve":
            res["status"] = "silent" if not res["rules"] else "false-alarm"
            return res
        if meta.get("kind") == "preserve-structural":
            # behaviour-preserving, but the private decomposition the rules are anchored on (function identities, parameter
            # lists, result types) was changed: the rules are expected to fail closed (DESIGN.md section 16, round I) -
            # recorded as a measured limit, not as a regression input
            res["status"] = "silent" if not res["rules"] else "alarm-as-documented"
            return res
        own = [r for r in res["rules"] if r.startswith(meta.get("property", "?") + ".")]
        res["status"] = "caught" if own else ("caught-by-other-property" if res["rules"] else "missed")
        return res
    except Exception as e:
        res["status"] = "error"
        res["detail"] = "%r %s" % (e, traceback.format_exc()[-600:])
        return res
    finally:
        shutil.rmtree(tmp, ignore_errors=True)


def run_seeded(prop=None, only=None, jobs=8):
    metas = load_seeded(prop)
    if only:
        metas = [m for m in metas if m["id"] in only]
    if not metas:
        return []
    for c in sorted({c for m in metas for c in (m.get("configs") or ["default", "all-features"])}):
        if not os.path.exists(os.path.join(extract.WORK, "cmd-%s.json" % c)):
            extract.extract(c, use_cache=False)
    with ProcessPoolExecutor(max_workers=min(jobs, len(metas))) as ex:
        return list(ex.map(run_seeded_one, metas))


def cross_catalogue(seed_ids=None, jobs=16):
    """every breaking catalogue mutant whose text pattern still applies after a behaviour-preserving seed was applied is
    run on top of that seed (does the rule still see the breakage in the refactored form?)"""
    import re
    import subprocess
    seeds = [m for m in load_seeded(None) if m.get("kind") == "preserve" and (not seed_ids or m["id"] in seed_ids)]
    rdir = os.path.join(extract.VERIF, "mutants")
    cats = sorted(f[:-3] for f in os.listdir(rdir) if re.match(r"C\d\d\.py$", f))
    work = []
    for sd in seeds:
        tmp = tempfile.mkdtemp(prefix="cwmt-cross-")
        try:
            shutil.copytree(os.path.join(extract.REPO, "src"), os.path.join(tmp, "src"))
            r = subprocess.run(["patch", "-p1", "-s", "--no-backup-if-mismatch", "-i", sd["patch"]], cwd=tmp, stdout=subprocess.PIPE, stderr=subprocess.STDOUT, text=True)
            if r.returncode != 0:
                continue
            touched = set(re.findall(r"^\+\+\+ b/(\S+)", open(sd["patch"]).read(), re.M))
            for prop in cats:
                for m in load_catalogue(prop):
                    if m["kind"] != "break" or m.get("rustc_rejects") or m.get("base"):
                        continue
                    edits = m.get("edits") or [(m["file"], m["old"], m["new"])]
                    if not any(e[0] in touched for e in edits):
                        continue
                    ok = True
                    for e in edits:
                        try:
                            text = open(os.path.join(tmp, e[0])).read()
                        except OSError:
                            ok = False
                            break
                        want = e[3] if len(e) > 3 else m.get("count", 1)
                        if text.count(e[1]) != want:
                            ok = False
                            break
                        # the pattern must lie in code the seed left alone or rewrote compatibly: it applies, that is enough
                    if ok:
                        mm = dict(m)
                        mm["base"] = sd["id"]
                        mm["id"] = "%s@%s" % (m["id"], sd["id"].split("-")[0])
                        cfgs = set(m["configs"]) | ({"all-features"} if "staking" in " ".join(e[0] for e in edits) else set())
                        mm["configs"] = sorted(cfgs)
                        work.append(mm)
        finally:
            shutil.rmtree(tmp, ignore_errors=True)
    for c in sorted({c for m in work for c in m["configs"]}):
        if not os.path.exists(os.path.join(extract.WORK, "cmd-%s.json" % c)):
            extract.extract(c, use_cache=False)
    with ProcessPoolExecutor(max_workers=jobs) as ex:
        return list(ex.map(run_one, work))
