"""A3: provenance (value origin) over MIR facts.

origin(fn, operand) is a finite tree (nested tuples) over sources. It is computed backwards
through moves, copies, borrows, reborrows, derefs, unsizing casts and a fixed table of
value-preserving calls. Field-sensitive, flow-insensitive per local (several whole assignments
give ("multi", ...); field assignments give ("upd", base, updates)).

Node kinds
  ("param", idx, name)            parameter of the function being analysed
  ("env",)                        closure environment
  ("upvar", name)                 captured variable not resolvable in a parent (should not occur)
  ("cparam", idx, name, hof)      closure parameter not bound by the higher-order table
  ("bound", role, origin)         closure parameter bound by the higher-order table
                                  roles: cache_of, base_ro, elem, acc, some, ok, err
  ("const", kind, value) ("item", key) ("fn", key)
  ("call", key, args, resolved, site)
  ("vp", name, inner)             value-preserving call around inner
  ("agg", name, fields)           ADT / tuple / array aggregate; fields = ((name, origin), ...)
  ("closure", key, fields)
  ("binop", op, a, b) ("unop", op, a) ("cast", kind, o) ("discr", o)
  ("field", base, name) ("variant", base, vname) ("index", base)
  ("ok", o) ("err", o) ("some", o)   payload of the respective variant of o
  ("multi", (o, ...)) ("upd", base, ((path, origin), ...))
  ("cycle",) ("unknown", text)
"""
from .facts import known_consts, place_str
from .cfg import cfg_of, _idx

VP_TRAIT_METHODS = {
    ("std::clone::Clone", "clone"),
    ("std::borrow::ToOwned", "to_owned"),
    ("std::convert::Into", "into"),
    ("std::convert::From", "from"),
    ("std::ops::Deref", "deref"),
    ("std::ops::DerefMut", "deref_mut"),
    ("std::convert::AsRef", "as_ref"),
    ("std::convert::AsMut", "as_mut"),
    ("std::borrow::Borrow", "borrow"),
    ("std::borrow::BorrowMut", "borrow_mut"),
    ("std::string::ToString", "to_string"),
    ("std::iter::IntoIterator", "into_iter"),
    ("std::ops::Try", "branch"),
}
VP_KEYS = {
    "[T]::to_vec", "slice::<impl [T]>::to_vec", "std::vec::Vec::as_slice", "std::string::String::as_str",
    "std::string::String::as_bytes", "str::as_bytes", "cosmwasm_std::Addr::as_str",
    "cosmwasm_std::Addr::as_bytes", "cosmwasm_std::Addr::unchecked", "cosmwasm_std::Addr::into_string",
    "std::boxed::Box::new", "std::option::Option::as_ref", "std::option::Option::as_mut",
    "std::option::Option::cloned", "std::option::Option::as_deref", "std::option::Option::copied",
    "std::result::Result::as_ref", "cosmwasm_std::Binary::as_slice", "cosmwasm_std::Binary::to_vec",
    "cosmwasm_std::Binary::new", "std::vec::Vec::into_boxed_slice", "std::hint::must_use",
    "std::string::String::into_bytes", "std::slice::<impl [T]>::iter", "std::slice::<impl [T]>::to_vec",
    "std::vec::Vec::into_iter", "std::collections::BTreeMap::iter", "std::mem::take",
    "std::collections::VecDeque::iter", "std::collections::VecDeque::iter_mut", "std::collections::VecDeque::into_iter",
    "std::collections::BTreeSet::iter", "std::collections::BTreeSet::into_iter", "std::collections::BTreeMap::into_iter",
    "std::collections::BTreeMap::iter_mut", "std::vec::Vec::iter", "std::vec::Vec::iter_mut",
    "cosmwasm_std::CanonicalAddr::as_slice", "cosmwasm_std::Checksum::as_slice", "cosmwasm_std::HexBinary::as_slice",
    "cosmwasm_std::HexBinary::to_vec", "cosmwasm_std::CanonicalAddr::to_vec",
}
VP_NAMES_ON_SLICES = {"to_vec", "iter", "iter_mut", "as_slice", "as_mut_slice", "as_str", "as_bytes", "as_ref", "into_vec", "to_owned"}

# higher-order callees: name -> (closure argument index, {closure param (MIR local, env is _1) -> (role, arg index)})
HOF = {
    "transactions::transactional": (1, {2: ("cache_of", 0), 3: ("base_ro", 0)}),
    "std::iter::Iterator::map": (1, {2: ("elem", 0)}),
    "std::iter::Iterator::for_each": (1, {2: ("elem", 0)}),
    "std::iter::Iterator::filter": (1, {2: ("elem", 0)}),
    "std::iter::Iterator::filter_map": (1, {2: ("elem", 0)}),
    "std::iter::Iterator::flat_map": (1, {2: ("elem", 0)}),
    "std::iter::Iterator::any": (1, {2: ("elem", 0)}),
    "std::iter::Iterator::all": (1, {2: ("elem", 0)}),
    "std::iter::Iterator::find": (1, {2: ("elem", 0)}),
    "std::iter::Iterator::find_map": (1, {2: ("elem", 0)}),
    "std::iter::Iterator::position": (1, {2: ("elem", 0)}),
    "std::iter::Iterator::inspect": (1, {2: ("elem", 0)}),
    "std::iter::Iterator::take_while": (1, {2: ("elem", 0)}),
    "std::iter::Iterator::skip_while": (1, {2: ("elem", 0)}),
    "std::iter::Iterator::try_for_each": (1, {2: ("elem", 0)}),
    "std::vec::Vec::retain": (1, {2: ("elem", 0)}),
    "std::collections::VecDeque::retain": (1, {2: ("elem", 0)}),
    "std::iter::Iterator::fold": (2, {2: ("acc", 1), 3: ("elem", 0)}),
    "std::iter::Iterator::try_fold": (2, {2: ("acc", 1), 3: ("elem", 0)}),
    "std::option::Option::map": (1, {2: ("some", 0)}),
    "std::option::Option::map_or": (2, {2: ("some", 0)}),
    "std::result::Result::map_or": (2, {2: ("ok", 0)}),
    "std::option::Option::and_then": (1, {2: ("some", 0)}),
    "std::option::Option::filter": (1, {2: ("some", 0)}),
    "std::option::Option::is_some_and": (1, {2: ("some", 0)}),
    "std::result::Result::map": (1, {2: ("ok", 0)}),
    "std::result::Result::and_then": (1, {2: ("ok", 0)}),
    "std::result::Result::map_err": (1, {2: ("err", 0)}),
    "std::result::Result::or_else": (1, {2: ("err", 0)}),
    "std::result::Result::unwrap_or_else": (1, {2: ("err", 0)}),
}


ITER_NEXT = ("std::iter::Iterator::next", "std::iter::DoubleEndedIterator::next_back")
FROM_RESIDUAL = "std::ops::FromResidual::from_residual"


# iterator adapters that hand on the very elements of the iterator they wrap (possibly fewer / in another order)
ELEM_PRESERVING = {
    "std::iter::Iterator::filter", "std::iter::Iterator::rev", "std::iter::Iterator::skip_while", "std::iter::Iterator::take_while",
    "std::iter::Iterator::peekable", "std::iter::Iterator::by_ref", "std::iter::Iterator::inspect", "std::iter::Iterator::skip",
    "std::iter::Iterator::take", "std::iter::Iterator::step_by", "std::iter::Iterator::fuse",
    "std::iter::Iterator::copied", "std::iter::Iterator::cloned",
}


def strip_adapters(o):
    """the collection whose elements iterator `o` yields: element-preserving adapters and value-preserving wrappers removed"""
    while True:
        o = peel(o)
        if o[0] == "call" and o[1] in ELEM_PRESERVING and o[2]:
            o = o[2][0]
        else:
            return o


def strip_ref_prefix(name):
    return name[6:] if name.startswith("_ref__") else name


def callee_is_vp(c):
    if c.get("trait") and (c["trait"], c["name"]) in VP_TRAIT_METHODS:
        return True
    k = c["key"]
    if k in VP_KEYS:
        return True
    if c.get("resolved") in VP_KEYS:
        return True
    # inherent methods on slices/str print with impl-block noise; match by method name
    if ("<impl [T]>" in k or "<impl str>" in k or k.startswith("str::") or k.startswith("[T]::") or k.startswith("[T; N]::")) \
            and c["name"] in VP_NAMES_ON_SLICES:
        return True
    return False


class Prov:
    def __init__(self, facts):
        self.facts = facts
        self._memo = {}
        self._defs = {}
        self._closure_sites = {}
        self._closure_inv = {}
        self._mut_idx = {}
        self._kill_idx = {}
        self._ctor_like = {}
        self._infeasible_memo = {}
        self.assumptions = []
        self._live = {}
        self._rl_memo = {}
        self._in_progress = set()
        self._cycle_hits = 0
        self._depth = 0

    # ---------------------------------------------------------------- definitions
    def defs(self, fn):
        d = self._defs.get(fn.key)
        if d is not None:
            return d
        d = {}
        for bid in fn.order:
            b = fn.blocks[bid]
            for i, st in enumerate(b["stmts"]):
                if st["k"] == "assign":
                    d.setdefault(st["dst"]["l"], []).append(("assign", bid, i, st))
                elif st["k"] == "setdiscr":
                    d.setdefault(st["dst"]["l"], []).append(("setdiscr", bid, i, st))
            t = b["term"]
            if t["k"] == "call":
                d.setdefault(t["dst"]["l"], []).append(("call", bid, "t", t))
        self._defs[fn.key] = d
        return d

    # ---------------------------------------------------------------- origin
    def operand(self, fn, op, site=None):
        """origin of an operand; with `site` = (block, index) only definitions that can reach the
        site are considered (flow-sensitive by reachability), otherwise all definitions"""
        k = op["k"]
        if k in ("copy", "move"):
            return self.place(fn, op["place"], site)
        if k == "const":
            ck = op.get("ck")
            if ck in ("str", "bytes"):
                return ("const", ck, op["str"])
            if ck in ("int", "bool"):
                return ("const", ck, op["int"])
            if ck == "fn":
                return ("fn", op["fn"])
            if ck == "item":
                if "promoted" in op and not isinstance(op["promoted"], bool):
                    pf = fn.promoted.get(op["promoted"])
                    if pf is None and fn.kind == "promoted":
                        pf = None
                    if pf is not None:
                        return self.local(pf, 0)
                    return ("item", "%s::{promoted#%s}" % (op["item"], op["promoted"]))
                # a literal constant introduced after the rule tables were confirmed (`const PREFIX: &[u8] = b"..";`)
                # is the literal it names; the known ones keep their name (rules refer to them by it)
                kc = known_consts()
                c = self.facts.consts.get(op["item"])
                if kc and c is not None and op["item"] not in kc and "value" in c and not c.get("calls"):
                    ty = c.get("ty", "")
                    if ty.endswith("str"):
                        return ("const", "str", c["value"])
                    if "[u8" in ty:
                        return ("const", "bytes", c["value"])
                return ("item", op["item"])
            text = op.get("text", "")
            if text.startswith("const "):
                text = text[len("const "):]
            if text.startswith('b"') and op.get("ty", "").startswith("&[u8;"):
                try:
                    import ast
                    return ("const", "bytes", ast.literal_eval(text).decode("latin-1"))
                except Exception:
                    pass
            return ("const", ck or "other", text)
        return ("unknown", op.get("text", k))

    def place(self, fn, pl, site=None):
        o = self.local(fn, pl["l"], site)
        return self.apply_proj(fn, o, pl["p"])

    def apply_proj(self, fn, o, proj):
        i = 0
        n = len(proj)
        while i < n:
            e = proj[i]
            k = e["k"]
            if k == "deref":
                pass
            elif k == "field":
                o = project(o, e["name"], e.get("of", ""))
                if o[0] == "upvar" and fn.kind == "closure":
                    o = self._resolve_upvar(fn, o[1])
            elif k == "downcast":
                v = e["variant"]
                # (x as V).0 for the payload-carrying std enums
                if i + 1 < n and proj[i + 1]["k"] == "field" and v in ("Ok", "Continue", "Err", "Break", "Some"):
                    role = {"Ok": "ok", "Continue": "ok", "Err": "err", "Break": "err", "Some": "some"}[v]
                    o = payload(o, role)
                    i += 1
                else:
                    o = variant(o, v)
            elif k == "constindex" and not e.get("from_end"):
                # element <offset> of an array / slice pattern: a literal array is looked into
                b0 = peel(o)
                if b0[0] == "agg" and b0[1] in ("array", "vec") and e["offset"] < len(b0[2]):
                    o = b0[2][e["offset"]][1]
                else:
                    o = ("index", o, e["offset"])
            elif k in ("index", "constindex", "subslice"):
                o = ("index", o)
            else:
                o = ("unknown", k)
            i += 1
        return o

    def _reaches(self, fn, dsite, usite):
        (db, di), (ub, ui) = dsite, usite
        cfg = cfg_of(fn)
        if db == ub:
            if _idx(di) < _idx(ui):
                return True
            return db in cfg.reachable_from(db)
        return ub in cfg.reachable_from(db)

    def assuming(self, assumptions):
        """a provenance engine for the same facts under assumptions [(predicate on the scrutinee's origin, variant name)]:
        definitions that only run on a `match` edge contradicting an assumption are ignored (used by decision tables,
        where each cell fixes the variants of the tracked values)"""
        p = Prov(self.facts)
        p.assumptions = list(assumptions)
        return p

    def _infeasible(self, fn, bid):
        """block `bid` only runs after taking a `match` edge that contradicts the scrutinee's visible constructor
        (`let op = Op::Set{..}; match op { Op::Delete{..} => <bid> }` - what a spliced helper leaves behind)"""
        key = (fn.key, bid)
        r = self._infeasible_memo.get(key)
        if r is not None:
            return r
        self._infeasible_memo[key] = False     # re-entrancy guard
        r = False
        cfg = cfg_of(fn)
        for d in cfg.dominators().get(bid, ()):
            if not (isinstance(d, tuple) and d[0] == "e"):
                continue
            _, sb, idx = d
            t = fn.blocks[sb]["term"]
            if "discr_of" not in t:
                continue
            o = self.place(fn, t["discr_of"], (sb, "t"))
            while o[0] == "vp":
                o = o[2]
            vn = None
            for pred, v0 in self.assumptions:
                if pred(o):
                    vn = v0
            if vn is None:
                if o[0] != "agg" or "::" not in o[1] or o[1] in ("tuple", "array", "vec"):
                    continue
                vn = o[1].rsplit("::", 1)[1]
            names = [n for v, b, n in t["targets"]]
            if vn not in [n for v, n in t.get("variants", [])]:
                continue
            if idx == "o":
                if vn in names:
                    r = True
            elif names[idx] != vn:
                r = True
            if r:
                break
        self._infeasible_memo[key] = r
        return r

    def _kills(self, fn, l):
        """sites that overwrite local l as a whole"""
        ks = self._kill_idx.get((fn.key, l))
        if ks is None:
            ks = {}
            for kind, bid, i, x in self.defs(fn).get(l, []):
                if kind in ("assign", "call") and not x["dst"]["p"]:
                    ks.setdefault(bid, []).append(_idx(i))
            self._kill_idx[(fn.key, l)] = ks
        return ks

    def _reaches_live(self, fn, l, dsite, usite):
        """a partial update of local l made at dsite is still visible at usite: some path from dsite to usite on which
        l is not re-assigned as a whole (a loop variable is a fresh value in every iteration)"""
        kills = self._kills(fn, l)
        if not kills:
            return self._reaches(fn, dsite, usite)
        mk = (fn.key, l, dsite, usite)
        r = self._rl_memo.get(mk)
        if r is None:
            r = self._rl_memo[mk] = self._reaches_live0(fn, l, kills, dsite, usite)
        return r

    def _reaches_live0(self, fn, l, kills, dsite, usite):
        (db, di), (ub, ui) = dsite, usite
        di, ui = _idx(di), _idx(ui)
        if db == ub and di < ui and not any(di < k < ui for k in kills.get(db, ())):
            return True
        if any(k > di for k in kills.get(db, ())):
            return False
        cfg = cfg_of(fn)
        seen = set()
        stack = list(cfg.succ.get(db, []))
        while stack:
            x = stack.pop()
            if x in seen:
                continue
            seen.add(x)
            if x == ub and not any(k < ui for k in kills.get(x, ())):
                return True
            if not isinstance(x, tuple) and kills.get(x):
                continue
            stack.extend(cfg.succ.get(x, []))
        return False

    def local(self, fn, l, site=None):
        defs = self.defs(fn).get(l, [])
        nsrc = len(defs) + (1 if 1 <= l <= fn.arg_count else 0) + len(self.mut_index(fn).get(l, []))
        if nsrc <= 1:
            site = None
        key = (fn.key, l, site)
        m = self._memo.get(key)
        if m is not None:
            return m
        if key in self._in_progress:
            self._cycle_hits += 1
            return ("cycle",)
        self._in_progress.add(key)
        hits0 = self._cycle_hits
        self._depth += 1
        try:
            o = self._local(fn, l, site)
        finally:
            self._depth -= 1
            self._in_progress.discard(key)
        # results computed while a cycle marker was handed out below are only cached for the outermost query:
        # an inner value may contain a placeholder for a definition that was still being evaluated
        if self._cycle_hits == hits0 or self._depth == 0:
            self._memo[key] = o
        return o

    def _local(self, fn, l, site):
        whole = []
        updates = []
        live = self._live.get(fn.key)
        if live is None:
            live = self._live[fn.key] = cfg_of(fn).live_nodes()
        multi_def = len(self.defs(fn).get(l, [])) > 1
        if 1 <= l <= fn.arg_count:
            if fn.kind == "closure" and l == 1:
                whole.append(("env",))
            elif fn.kind == "closure":
                whole.append(self._closure_param(fn, l))
            else:
                whole.append(("param", l, fn.names.get(l, "_%d" % l)))
        for kind, bid, i, x in self.defs(fn).get(l, []):
            if kind == "setdiscr":
                continue
            proj = x["dst"]["p"]
            if site is not None and not self._reaches_live(fn, l, (bid, i), site):
                continue
            if bid not in live:
                continue
            if multi_def and self._infeasible(fn, bid):
                continue
            path = tuple(e["name"] for e in proj if e["k"] == "field")
            hard = [e for e in proj if e["k"] not in ("field", "deref", "downcast")]
            if kind == "assign":
                o = self.rvalue(fn, x["rv"], (bid, i))
            else:
                o = self.call_origin(fn, x, bid)
            if not proj or (not path and not hard):
                # whole assignment (possibly through a deref of a reference local: writes the pointee)
                if any(e["k"] == "deref" for e in proj):
                    updates.append((("*",), o))
                else:
                    whole.append(o)
            elif hard:
                updates.append((("[]",), o))
            else:
                updates.append((path, o))
        # calls that receive `&mut local` may change it: record them so that taint queries see them
        for mb, mt, mai, mpath in self.mut_index(fn).get(l, []):
            if site is not None and not self._reaches_live(fn, l, (mb, "t"), site):
                continue
            c = mt["callee"]
            if c["name"] in ("reserve", "reserve_exact", "shrink_to_fit"):
                continue
            others = tuple(self.operand(fn, a, (mb, "t")) for j, a in enumerate(mt["args"]) if j != mai)
            updates.append((("&mut",) + mpath, ("mutby", c["key"], others, (fn.key, mb), c.get("resolved") or "")))
        whole = [w for w in whole if w != ("cycle",)] or whole
        if not whole:
            base = ("unknown", "undef _%d" % l)
        elif len(whole) == 1:
            base = whole[0]
        else:
            base = multi(whole)
        if updates:
            base = ("upd", base, tuple(sorted(set(updates), key=repr)))
        return base

    def rvalue(self, fn, rv, site=None):
        k = rv["k"]
        if k == "use":
            return self.operand(fn, rv["op"], site)
        if k == "ref" or k == "rawptr":
            return self.place(fn, rv["place"], site)
        if k == "cast":
            inner = self.operand(fn, rv["op"], site)
            ck = rv["cast"]
            if ck.startswith("PointerCoercion") or ck.startswith("PtrToPtr") or ck.startswith("Transmute"):
                return inner
            return ("cast", ck.split("(")[0], inner)
        if k == "binop":
            return ("binop", rv["op"], self.operand(fn, rv["a"], site), self.operand(fn, rv["b"], site))
        if k == "unop":
            return ("unop", rv["op"], self.operand(fn, rv["a"], site))
        if k == "discriminant":
            return ("discr", self.place(fn, rv["place"], site))
        if k == "aggregate":
            ops = [self.operand(fn, o, site) for o in rv["ops"]]
            a = rv["agg"]
            if a == "adt":
                name = rv["adt"] + "::" + rv["variant"]
                if name == "std::result::Result::Err" and len(ops) == 1 and peel(ops[0])[0] == "err":
                    # `Err(e) => return Err(e.into())` is what `?` does: same origin as the desugared form
                    return ("call", FROM_RESIDUAL, (peel(ops[0]),), "<std::result::Result as std::ops::FromResidual>::from_residual", (fn.key, "agg"))
                return ("agg", name, tuple(zip(rv["fields"], ops)))
            if a == "closure":
                return ("closure", rv["closure"], tuple(zip([strip_ref_prefix(x) for x in rv["fields"]], ops)))
            return ("agg", a, tuple((str(i), o) for i, o in enumerate(ops)))
        if k == "repeat":
            return ("agg", "repeat", (("0", self.operand(fn, rv["op"], site)),))
        return ("unknown", rv.get("text", k))

    def call_origin(self, fn, t, bid):
        c = t["callee"]
        site = (bid, "t")
        args = tuple(self.operand(fn, a, site) for a in t["args"])
        if c["key"].endswith("box_assume_init_into_vec_unsafe") and t["args"]:
            v = self._vec_macro(fn, t["args"][0], bid)
            if v is not None:
                return v
        if callee_is_vp(c) and args:
            return ("vp", c["name"], args[0])
        if c["key"] in ("std::ops::RangeBounds::start_bound", "std::ops::RangeBounds::end_bound") and len(args) == 1:
            # (Bound<T>, Bound<T>) as RangeBounds: the component itself
            tup = peel(args[0])
            if tup[0] == "agg" and tup[1] == "tuple" and len(tup[2]) == 2:
                return ("vp", c["name"], tup[2][0 if c["name"] == "start_bound" else 1][1])
        if c["key"] in ("std::option::Option::unwrap_or", "std::result::Result::unwrap_or") and len(args) == 2:
            # `x.unwrap_or(d)` is `match x { Some(v) => v, None => d }`
            return multi([payload(args[0], "some" if c["key"].startswith("std::option") else "ok"), args[1]])
        if c["key"] in ("std::option::Option::map_or", "std::result::Result::map_or") and len(args) == 3:
            # `x.map_or(d, |v| e)` is `match x { Some(v) => e, None => d }`
            cl = peel(args[2])
            g = self.facts.fn(cl[1]) if cl[0] == "closure" else None
            if g is not None:
                return multi([args[1], self.ret(g)])
            if cl[0] == "fn":
                # `x.map_or(d, f)` with a function item or a variant constructor (`Bound::Included`) passed by path
                return multi([args[1], self._apply_fn_item(fn, bid, cl[1], payload(args[0], "some" if c["key"].startswith("std::option") else "ok"))])
        if c["key"] in ("std::option::Option::and_then", "std::result::Result::and_then") and len(args) == 2:
            # `x.and_then(f)` is `match x { Ok(v) => f(v), Err(e) => Err(e) }`
            cl = peel(args[1])
            g = self.facts.fn(cl[1]) if cl[0] == "closure" else None
            is_opt = c["key"].startswith("std::option")
            r = None
            if g is not None:
                r = self.ret(g)
            elif cl[0] == "fn":
                r = ("call", cl[1], (payload(args[0], "some" if is_opt else "ok"),), None, (fn.key, bid))
            if r is not None:
                if is_opt:
                    return multi([r, ("agg", "std::option::Option::None", ())])
                return multi([r, ("call", FROM_RESIDUAL, (payload(args[0], "err"),), "<std::result::Result as std::ops::FromResidual>::from_residual", (fn.key, "agg"))])
        if c["key"] in ("std::option::Option::map", "std::result::Result::map") and len(args) == 2:
            # `x.map(|v| e)` is `match x { Some(v) => Some(e), None => None }` (resp. Ok / Err)
            cl = peel(args[1])
            g = self.facts.fn(cl[1]) if cl[0] == "closure" else None
            r = None
            if g is not None:
                r = self.ret(g)
            elif cl[0] == "fn":
                # `x.map(f)` with a function item: f applied to the payload
                r = self._apply_fn_item(fn, bid, cl[1], payload(args[0], "some" if c["key"].startswith("std::option") else "ok"))
            if r is not None:
                if c["key"].startswith("std::option"):
                    return multi([("agg", "std::option::Option::Some", (("0", r),)), ("agg", "std::option::Option::None", ())])
                return multi([("agg", "std::result::Result::Ok", (("0", r),)),
                              ("call", FROM_RESIDUAL, (payload(args[0], "err"),), "<std::result::Result as std::ops::FromResidual>::from_residual", (fn.key, "agg"))])
        if c["key"] == "<indirect>":
            return ("call", "<indirect>", (self.operand(fn, c["indirect"], site),) + args, None, (fn.key, bid))
        if c.get("trait", "").startswith("std::ops::Fn") and c["name"] in ("call_once", "call_mut", "call") and args:
            # invoking a closure that is defined in this crate: its result (its parameters are bound to this call's
            # arguments by _closure_param / closure_invocation)
            cl = peel(args[0])
            g = self.facts.fn(cl[1]) if cl[0] == "closure" else None
            if g is not None and g.key != fn.key:
                inv = self.closure_invocation(g)
                if inv is not None and inv[0].key == fn.key and inv[1] == bid:
                    return self.ret(g)
                if inv is None and len(args) == 2 and self._is_straight_closure(g):
                    # a local constructor-like closure invoked at several places (`let make = |x| T { a, b, x }`): at each
                    # call its body with the parameters replaced by this call's arguments
                    tup = peel(args[1])
                    if tup[0] == "agg" and tup[1] == "tuple":
                        def subc(x):
                            if x[0] == "cparam" and 0 <= x[1] - 2 < len(tup[2]):
                                return tup[2][x[1] - 2][1]
                            return None
                        return map_origin(self.ret(g), subc)
        if c.get("local"):
            g = self.facts.fn(c.get("resolved") or c["key"])
            if g is not None and self._is_constructor_like(g) and len(args) == g.arg_count:
                # `self.querier(api, storage, block)` is `RouterQuerier { router: self, api, .. }`: a local function that only
                # packs / projects its arguments has the origin of its body with the arguments substituted
                def sub(x):
                    if x[0] == "param" and 1 <= x[1] <= len(args):
                        return args[x[1] - 1]
                    return None
                return map_origin(self.ret(g), sub)
        return ("call", c["key"], args, c.get("resolved"), (fn.key, bid))

    CTOR_FN_ITEMS = ("std::ops::Bound::Included", "std::ops::Bound::Excluded", "std::option::Option::Some", "std::result::Result::Ok",
                     "std::result::Result::Err")

    def _apply_fn_item(self, fn, bid, key, arg):
        """`f(arg)` for a function item named by path: a tuple-variant constructor builds the variant, anything else is a call"""
        local_variant = key.rsplit("::", 1)[0] in self.facts.adts and any(v.get("name") == key.rsplit("::", 1)[1] for v in self.facts.adts[key.rsplit("::", 1)[0]].get("variants", []))
        if key in self.CTOR_FN_ITEMS or local_variant:
            return ("agg", key, (("0", arg),))
        if callee_is_vp({"key": key, "name": key.rsplit("::", 1)[-1]}):
            return ("vp", key.rsplit("::", 1)[-1], arg)        # `.map(<[u8]>::to_vec)`
        return ("call", key, (arg,), None, (fn.key, bid))

    def _is_constructor_like(self, g):
        """a local non-closure function whose body is straight-line and makes no call other than value-preserving ones"""
        r = self._ctor_like.get(g.key)
        if r is None:
            r = g.kind != "closure" and not g.derived and len(g.order) <= 6
            if r:
                for bid in g.order:
                    t = g.blocks[bid]["term"]
                    if t["k"] == "switch" or t["k"] == "tailcall":
                        r = False
                    elif t["k"] == "call" and not callee_is_vp(t["callee"]):
                        r = False
            self._ctor_like[g.key] = r
        return r

    def _is_straight_closure(self, g):
        """a closure whose body is straight-line and makes no call other than value-preserving ones"""
        r = self._ctor_like.get(g.key)
        if r is None:
            r = g.kind == "closure" and len(g.order) <= 6
            if r:
                for bid in g.order:
                    t = g.blocks[bid]["term"]
                    if t["k"] in ("switch", "tailcall") or (t["k"] == "call" and not callee_is_vp(t["callee"])):
                        r = False
            self._ctor_like[g.key] = r
        return r

    def _vec_macro(self, fn, op, bid):
        """`vec![a, b]` at mir-opt-level=0: Box::new_uninit(); (*ptr).value.value.0 = [a, b]; box_assume_init_into_vec_unsafe(box).
        Returns ("agg", "vec", elements) when the pattern is recognised."""
        # the box local
        cur = op
        box_local = None
        for _ in range(6):
            if cur["k"] not in ("copy", "move") or cur["place"]["p"]:
                break
            l = cur["place"]["l"]
            ds = self.defs(fn).get(l, [])
            if len(ds) == 1 and ds[0][0] == "call" and ds[0][3]["callee"]["key"].endswith("Box::new_uninit"):
                box_local = l
                break
            if len(ds) == 1 and ds[0][0] == "assign" and ds[0][3]["rv"]["k"] == "use":
                cur = ds[0][3]["rv"]["op"]
                continue
            break
        if box_local is None:
            return None
        # pointers derived from the box
        ptrs = set()
        for b2, i2, st in fn.stmts():
            if st["k"] == "assign" and st["rv"]["k"] == "cast" and st["rv"]["op"]["k"] in ("copy", "move") and st["rv"]["op"]["place"]["l"] == box_local:
                ptrs.add(st["dst"]["l"])
        for b2, i2, st in fn.stmts():
            if st["k"] == "assign" and st["dst"]["l"] in ptrs and st["dst"]["p"] and st["dst"]["p"][0]["k"] == "deref" and \
                    st["rv"]["k"] == "aggregate" and st["rv"]["agg"] == "array":
                ops = [self.operand(fn, o, (b2, i2)) for o in st["rv"]["ops"]]
                return ("agg", "vec", tuple((str(i), o) for i, o in enumerate(ops)))
        return None

    # ---------------------------------------------------------------- closures
    def closure_site(self, fn):
        """for a closure: (parent fn, block id of the aggregate, statement) creating it"""
        if fn.key in self._closure_sites:
            return self._closure_sites[fn.key]
        res = None
        parent = self.facts.fn(fn.parent) if fn.parent else None
        if parent is not None:
            for bid, i, st in parent.stmts():
                if st["k"] == "assign" and st["rv"]["k"] == "aggregate" and st["rv"].get("closure") == fn.key:
                    res = (parent, bid, i, st)
                    break
        self._closure_sites[fn.key] = res
        return res

    def _resolve_upvar(self, fn, name):
        site = self.closure_site(fn)
        if site is None:
            return ("upvar", name)
        parent, bid, i, st = site
        for fname, op in zip(st["rv"]["fields"], st["rv"]["ops"]):
            if strip_ref_prefix(fname) == name:
                return self.operand(parent, op, (bid, i))
        return ("upvar", name)

    def closure_use(self, fn):
        """the call in the parent that receives this closure: (parent, bid, terminator, arg index)"""
        site = self.closure_site(fn)
        if site is None:
            return None
        parent, bid, i, st = site
        for cb, t in parent.calls():
            for ai, a in enumerate(t["args"]):
                o = peel(self.operand(parent, a, (cb, "t")))
                if o[0] == "closure" and o[1] == fn.key:
                    return parent, cb, t, ai
        return None

    def closure_invocation(self, fn):
        """a direct invocation `f(a, b)` / `FnOnce::call_once(f, (a, b))` of closure `fn` somewhere in the lexical family of
        its parent (typically after a helper taking `impl FnOnce(..)` was spliced): (function, block, terminator)"""
        if fn.key in self._closure_inv:
            return self._closure_inv[fn.key]
        self._closure_inv[fn.key] = None
        res = None
        root = fn.key.split("::{closure")[0]
        found = []
        for g in self.facts.lexical(root):
            if g.key == fn.key:
                continue
            for b, t in g.calls():
                c = t["callee"]
                if not (c.get("trait", "").startswith("std::ops::Fn") and c["name"] in ("call_once", "call_mut", "call")) or not t["args"]:
                    continue
                o = peel(self.operand(g, t["args"][0], (b, "t")))
                if o[0] == "closure" and o[1] == fn.key:
                    found.append((g, b, t))
        # only an unambiguous invocation binds the parameters (several call sites may pass different values)
        if len(found) == 1:
            res = found[0]
        self._closure_inv[fn.key] = res
        return res

    def _closure_param(self, fn, l):
        name = fn.names.get(l, "_%d" % l)
        use = self.closure_use(fn)
        inv = self.closure_invocation(fn) if (use is None or HOF.get(use[2]["callee"]["key"]) is None) else None
        if inv is not None:
            g, b, t = inv
            if len(t["args"]) == 2:
                tup = peel(self.operand(g, t["args"][1], (b, "t")))
                if tup[0] == "agg" and tup[1] == "tuple" and 0 <= l - 2 < len(tup[2]):
                    return tup[2][l - 2][1]
        if use is None:
            return ("cparam", l, name, None)
        parent, cb, t, ai = use
        c = t["callee"]
        h = HOF.get(c["key"])
        if h is None or h[0] != ai or l not in h[1]:
            return ("cparam", l, name, c["key"])
        role, argi = h[1][l]
        src = self.operand(parent, t["args"][argi], (cb, "t"))
        if role in ("some", "ok", "err"):
            # the payload of an Option / Result: the same value a `match` arm binds
            return payload(src, role)
        if role == "elem":
            src = strip_adapters(src)
        return ("bound", role, src)

    # ---------------------------------------------------------------- helpers for rules
    def call_args(self, fn, t, bid=None):
        """origins of the arguments of call terminator t (evaluated at the call site when the block is given)"""
        if bid is None:
            for b in fn.order:
                if fn.blocks[b]["term"] is t:
                    bid = b
                    break
        site = (bid, "t") if bid is not None else None
        return [self.operand(fn, a, site) for a in t["args"]]

    def ret(self, fn):
        """flow-insensitive origin of the return place"""
        return self.local(fn, 0)

    def mutations(self, fn, l):
        """calls that receive `&mut local` — the whole local — directly or via reborrow temps"""
        return [(b, t, ai) for b, t, ai, path in self.mut_index(fn).get(l, []) if not path]

    def mut_index(self, fn):
        """{local: [(block, call terminator, argument index, field path)]} for arguments that are `&mut local` or
        `&mut local.f.g` (directly or through reborrow temporaries)"""
        idx = self._mut_idx.get(fn.key)
        if idx is not None:
            return idx
        idx = {}
        for bid, t in fn.calls():
            for ai, a in enumerate(t["args"]):
                if a["k"] in ("copy", "move") and not any(e["k"] == "field" for e in a["place"]["p"]):
                    for root, path in self._mut_roots(fn, a["place"]["l"], 0, set()):
                        idx.setdefault(root, []).append((bid, t, ai, path))
                    # the argument tuple of a closure call (`action(&mut x)` is `Fn::call(&action, (&mut x,))`)
                    if t["callee"].get("trait") in ("std::ops::Fn", "std::ops::FnMut", "std::ops::FnOnce") and not a["place"]["p"]:
                        ds = self.defs(fn).get(a["place"]["l"], [])
                        if len(ds) == 1 and ds[0][0] == "assign" and ds[0][3]["rv"]["k"] == "aggregate" and ds[0][3]["rv"].get("agg") == "tuple":
                            for op in ds[0][3]["rv"]["ops"]:
                                if op["k"] in ("copy", "move") and not op["place"]["p"]:
                                    for root, path in self._mut_roots(fn, op["place"]["l"], 0, set()):
                                        idx.setdefault(root, []).append((bid, t, ai, path))
        self._mut_idx[fn.key] = idx
        return idx

    def _mut_roots(self, fn, tmp, depth, seen):
        """(local L, field path) such that temporary `tmp` is `&mut L.path` (possibly via reborrows / casts)"""
        out = set()
        if depth > 6 or tmp in seen:
            return out
        seen.add(tmp)
        for kind, bid, i, x in self.defs(fn).get(tmp, []):
            if kind != "assign" or x["dst"]["p"]:
                continue
            rv = x["rv"]
            if rv["k"] == "ref" and rv["mut"]:
                pl = rv["place"]
                path = tuple(e["name"] for e in pl["p"] if e["k"] == "field")
                if any(e["k"] not in ("field", "deref", "downcast") for e in pl["p"]):
                    continue
                if pl["p"] and pl["p"][0]["k"] == "deref":
                    for root, p0 in self._mut_roots(fn, pl["l"], depth + 1, seen):
                        out.add((root, p0 + path))
                    if not self.defs(fn).get(pl["l"]) or 1 <= pl["l"] <= fn.arg_count:
                        out.add((pl["l"], path))
                else:
                    out.add((pl["l"], path))
            elif rv["k"] in ("use", "cast") and rv["op"]["k"] in ("copy", "move") and not rv["op"]["place"]["p"]:
                out |= self._mut_roots(fn, rv["op"]["place"]["l"], depth + 1, seen)
            elif rv["k"] == "use" and rv["op"]["k"] in ("copy", "move"):
                # `(*env).captured` where env is a closure value built in this body (spliced closure bodies, A9):
                # the captured `&mut x` is the reference
                pl = rv["op"]["place"]
                fields = [e for e in pl["p"] if e["k"] == "field"]
                if len(fields) == 1 and all(e["k"] in ("field", "deref") for e in pl["p"]):
                    cap = self._captured_operand(fn, pl["l"], fields[0]["name"], 0)
                    if cap is not None and cap["k"] in ("copy", "move") and not cap["place"]["p"]:
                        out |= self._mut_roots(fn, cap["place"]["l"], depth + 1, seen)
        return out

    def _captured_operand(self, fn, l, field, depth):
        """local l is (a reference to) a closure value built in this body: the operand captured as `field`"""
        if depth > 6:
            return None
        ds = [d for d in self.defs(fn).get(l, []) if d[0] == "assign" and not d[3]["dst"]["p"]]
        if len(ds) != 1 or len(self.defs(fn).get(l, [])) != 1:
            return None
        rv = ds[0][3]["rv"]
        if rv["k"] == "aggregate" and rv.get("agg") == "closure":
            for name, op in zip(rv["fields"], rv["ops"]):
                if name == field or strip_ref_prefix(name) == strip_ref_prefix(field):
                    return op
            return None
        if rv["k"] == "ref" and all(e["k"] == "deref" for e in rv["place"]["p"]):
            return self._captured_operand(fn, rv["place"]["l"], field, depth + 1)
        if rv["k"] in ("use", "cast") and rv["op"]["k"] in ("copy", "move") and all(e["k"] == "deref" for e in rv["op"]["place"]["p"]):
            return self._captured_operand(fn, rv["op"]["place"]["l"], field, depth + 1)
        return None


# -------------------------------------------------------------------- origin algebra
def multi(os):
    flat = []
    for o in os:
        if o[0] == "multi":
            flat.extend(o[1])
        else:
            flat.append(o)
    if any(o != ("never",) for o in flat):
        flat = [o for o in flat if o != ("never",)]
    uniq = []
    seen = set()
    for o in flat:
        r = repr(o)
        if r not in seen:
            seen.add(r)
            uniq.append(o)
    if len(uniq) == 1:
        return uniq[0]
    return ("multi", tuple(sorted(uniq, key=repr)))


TRANSPARENT_OWNERS = ("std::boxed::Box", "std::ptr::Unique", "std::ptr::NonNull", "core::ptr::Unique", "core::ptr::NonNull")


def project(o, name, of=""):
    k = o[0]
    if of in TRANSPARENT_OWNERS:
        return o  # Box<T> internals (`.0.pointer`) produced by deref elaboration
    if k == "env":
        return ("upvar", strip_ref_prefix(name))
    if k in ("agg", "closure"):
        want = strip_ref_prefix(name) if k == "closure" else name
        for f, v in o[2]:
            if f == want:
                return v
        return ("field", o, name)
    if k == "vp":
        return project(o[2], name, of)
    if k == "multi":
        return multi([project(x, name, of) for x in o[1]])
    if k == "upd":
        outs = [project(o[1], name, of)]
        muts = []
        for path, v in o[2]:
            if path and path[0] == "&mut":
                # the object (or one of its fields) was handed out mutably to a call
                if len(path) == 1 or path[1] == name:
                    muts.append((("&mut",) + path[2:], v))
                continue
            if path and path[0] == name:
                if len(path) == 1:
                    outs.append(v)
                else:
                    outs.append(("upd", ("unknown", "partial"), ((path[1:], v),)))
            elif path in (("*",), ("[]",)):
                outs.append(project(v, name, of))
        res = multi(outs)
        if muts:
            res = ("upd", res, tuple(sorted(set(muts), key=repr)))
        return res
    return ("field", o, name)


def payload(o, role):
    k = o[0]
    if k == "vp":
        return payload(o[2], role)
    if k == "multi":
        return multi([payload(x, role) for x in o[1]])
    if k == "agg":
        # Result::Ok{0: x} / Option::Some{0: x}
        vn = o[1].rsplit("::", 1)[-1]
        want = {"ok": ("Ok", "Continue"), "err": ("Err", "Break"), "some": ("Some",)}[role]
        if vn in want and o[2]:
            return o[2][0][1]
        if o[1].startswith(("std::result::Result::", "std::option::Option::", "std::ops::ControlFlow::")) and vn in ("Ok", "Err", "Some", "None", "Continue", "Break"):
            return ("never",)      # the payload of the other variant: no value ever flows here
    if role == "ok" and k == "call" and o[1] == FROM_RESIDUAL:
        return ("never",)
    if role == "ok" and k == "call" and o[1] in ("std::option::Option::ok_or_else", "std::option::Option::ok_or") and o[2]:
        # `x.ok_or_else(f)?` is `match x { Some(v) => v, None => return Err(f()) }`
        return payload(o[2][0], "some")
    if role == "ok" and k == "call" and o[1] == "std::option::Option::transpose" and o[2]:
        # Option<Result<T, E>> -> Result<Option<T>, E>
        outs = []
        for x in alts(o[2][0]):
            x = peel(x)
            if x[0] == "agg" and x[1].endswith("Option::Some") and x[2]:
                outs.append(("agg", x[1], (("0", payload(x[2][0][1], "ok")),)))
            elif x[0] == "agg" and x[1].endswith("Option::None"):
                outs.append(x)
            else:
                outs = None
                break
        if outs:
            return multi(outs)
    if role == "err" and k == "call" and o[1] == FROM_RESIDUAL and o[2] and peel(o[2][0])[0] == "err":
        # the error of the Result that `?` builds from the error of X is (the conversion of) X's error
        return peel(o[2][0])
    if role == "some" and k in ("call", "upd"):
        # `for x in I` / `while let Some(x) = it.next()`: x is an element of I, exactly what a closure handed to
        # I.map / I.filter / I.for_each receives
        c = peel(o)
        if c[0] == "call" and c[1] in ITER_NEXT and c[2]:
            return ("bound", "elem", strip_adapters(c[2][0]))
    return (role, o)


def variant(o, v):
    k = o[0]
    if k == "vp":
        return variant(o[2], v)
    if k == "multi":
        return multi([variant(x, v) for x in o[1]])
    if k == "agg" and o[1].endswith("::" + v):
        return o
    return ("variant", o, v)


def peel(o):
    """strip value-preserving wrappers at the top; an object that was only handed out as `&mut` to calls
    (no direct field writes) is still that object for shape matching — taint queries (leaves/contains)
    keep seeing the recorded calls"""
    while True:
        if o[0] == "vp":
            o = o[2]
        elif o[0] == "upd" and all(p and p[0] == "&mut" for p, v in o[2]):
            o = o[1]
        else:
            return o


def deep_peel(o):
    """strip value-preserving wrappers everywhere and call sites (for structural comparison)"""
    k = o[0]
    if k == "vp":
        return deep_peel(o[2])
    if k == "call":
        return ("call", o[1], tuple(deep_peel(a) for a in o[2]), None, None)
    if k == "mutby":
        return ("mutby", o[1], tuple(deep_peel(a) for a in o[2]), None)
    if k in ("agg", "closure"):
        return (k, o[1], tuple((f, deep_peel(v)) for f, v in o[2]))
    if k == "multi":
        return multi([deep_peel(x) for x in o[1]])
    if k == "upd":
        if all(p and p[0] == "&mut" for p, v in o[2]):
            return deep_peel(o[1])
        return ("upd", deep_peel(o[1]), tuple((p, deep_peel(v)) for p, v in o[2] if not (p and p[0] == "&mut")))
    if k in ("binop",):
        return (k, o[1], deep_peel(o[2]), deep_peel(o[3]))
    if k in ("unop", "cast"):
        return (k, o[1], deep_peel(o[2]))
    if k == "index" and len(o) > 2:
        return (k, deep_peel(o[1]), o[2])
    if k in ("discr", "index", "ok", "err", "some"):
        return (k, deep_peel(o[1]))
    if k in ("field", "variant"):
        return (k, deep_peel(o[1]), o[2])
    if k == "bound":
        return (k, o[1], deep_peel(o[2]))
    return o


def same_origin(a, b):
    return deep_peel(a) == deep_peel(b)


def leaves(o, out=None):
    """set of leaf sources the value depends on"""
    if out is None:
        out = set()
    k = o[0]
    if k in ("param", "env", "upvar", "cparam", "const", "item", "fn", "cycle", "unknown"):
        out.add(o if k != "cparam" else o[:3])
    elif k == "vp":
        leaves(o[2], out)
    elif k in ("call", "mutby"):
        out.add(("callee", o[1]))
        for a in o[2]:
            leaves(a, out)
    elif k in ("agg", "closure"):
        for f, v in o[2]:
            leaves(v, out)
    elif k == "multi":
        for x in o[1]:
            leaves(x, out)
    elif k == "upd":
        leaves(o[1], out)
        for p, v in o[2]:
            leaves(v, out)
    elif k == "binop":
        leaves(o[2], out)
        leaves(o[3], out)
    elif k in ("unop", "cast"):
        leaves(o[2], out)
    elif k in ("discr", "index", "ok", "err", "some"):
        leaves(o[1], out)
    elif k in ("field", "variant"):
        leaves(o[1], out)
    elif k == "bound":
        out.add(("bound", o[1]))
        leaves(o[2], out)
    return out


def map_origin(o, f):
    """rebuild the tree bottom-up, replacing every node x by f(x) when that is not None (projections and payloads are
    re-applied so that a substituted aggregate is looked into)"""
    r = f(o)
    if r is not None:
        return r
    k = o[0]
    if k == "vp":
        return ("vp", o[1], map_origin(o[2], f))
    if k == "call":
        return ("call", o[1], tuple(map_origin(a, f) for a in o[2])) + tuple(o[3:])
    if k == "mutby":
        return ("mutby", o[1], tuple(map_origin(a, f) for a in o[2])) + tuple(o[3:])
    if k in ("agg", "closure"):
        return (k, o[1], tuple((n, map_origin(v, f)) for n, v in o[2]))
    if k == "multi":
        return multi([map_origin(x, f) for x in o[1]])
    if k == "upd":
        return ("upd", map_origin(o[1], f), tuple((p, map_origin(v, f)) for p, v in o[2]))
    if k == "binop":
        return (k, o[1], map_origin(o[2], f), map_origin(o[3], f))
    if k in ("unop", "cast"):
        return (k, o[1], map_origin(o[2], f))
    if k in ("ok", "err", "some"):
        return payload(map_origin(o[1], f), k)
    if k in ("discr", "index"):
        return (k, map_origin(o[1], f)) + tuple(o[2:])
    if k == "field":
        return project(map_origin(o[1], f), o[2])
    if k == "variant":
        return variant(map_origin(o[1], f), o[2])
    if k == "bound":
        return (k, o[1], map_origin(o[2], f))
    return o


def contains(o, pred):
    """does any node of the tree satisfy pred"""
    if pred(o):
        return True
    k = o[0]
    if k == "vp":
        return contains(o[2], pred)
    if k in ("call", "mutby"):
        return any(contains(a, pred) for a in o[2])
    if k in ("agg", "closure"):
        return any(contains(v, pred) for f, v in o[2])
    if k == "multi":
        return any(contains(x, pred) for x in o[1])
    if k == "upd":
        return contains(o[1], pred) or any(contains(v, pred) for p, v in o[2])
    if k == "binop":
        return contains(o[2], pred) or contains(o[3], pred)
    if k in ("unop", "cast"):
        return contains(o[2], pred)
    if k in ("discr", "index", "ok", "err", "some"):
        return contains(o[1], pred)
    if k in ("field", "variant"):
        return contains(o[1], pred)
    if k == "bound":
        return contains(o[2], pred)
    return False


def alts(o):
    """the alternatives of a (peeled) origin: members of a multi, base+updates are not split"""
    o = peel(o)
    if o[0] == "multi":
        out = []
        for x in o[1]:
            out.extend(alts(x))
        return out
    return [o]


# methods of std collections / strings that change what a value holds when it is lent to them mutably
CONTENT_MUTATORS = {"retain", "retain_mut", "sort", "sort_by", "sort_by_key", "sort_unstable", "sort_unstable_by", "sort_unstable_by_key", "sort_by_cached_key",
                    "dedup", "dedup_by", "dedup_by_key", "reverse", "truncate", "clear", "drain", "remove", "swap_remove", "pop", "pop_front", "pop_back",
                    "split_off", "rotate_left", "rotate_right", "swap", "fill", "fill_with", "resize", "resize_with", "make_ascii_lowercase",
                    "make_ascii_uppercase", "push", "push_str", "push_front", "push_back", "insert", "insert_str", "extend", "extend_from_slice", "append",
                    "extend_from_within", "take", "replace", "splice", "remove_entry", "retain_keys"}
_STD_OWNERS = ("std::vec::Vec::", "[T]::", "std::string::String::", "str::", "std::collections::", "std::option::Option::", "std::mem::")


def content_mutated(o):
    """the value was lent out mutably to a std method that changes its contents (`v.retain(..)`, `v.sort()`, `v.truncate(1)`,
    `s.push_str(..)`) somewhere on the way: it is not "the parameter" / "the field" any more, whatever it is rooted in"""
    x = o
    while x[0] in ("vp", "upd"):
        if x[0] == "upd":
            for p0, v0 in x[2]:
                if p0 == ("&mut",) and v0[0] == "mutby" and v0[1].startswith(_STD_OWNERS) and v0[1].rsplit("::", 1)[-1] in CONTENT_MUTATORS:
                    return True
                # a mutable slice / str of a Vec / String was handed out (`v.sort_by(..)`, `v.reverse()`, `s.make_ascii_lowercase()` reach
                # the slice methods through DerefMut): whatever is done with it is done to the contents
                if p0 == ("&mut",) and v0[0] == "mutby" and v0[1] in ("std::ops::DerefMut::deref_mut", "std::vec::Vec::as_mut_slice", "std::string::String::as_mut_str") and \
                        (len(v0) < 5 or not v0[4] or v0[4].startswith(("<std::vec::Vec", "<std::string::String", "<std::collections::")) or not v0[1].endswith("deref_mut")):
                    return True
            x = x[1]
        else:
            x = x[2]
    return False


def is_param(o, name=None, idx=None):
    if content_mutated(o):
        return False
    o = peel(o)
    if o[0] == "upd":
        o = peel(o[1])
    if o[0] != "param":
        return False
    if name is not None and o[2] != name:
        return False
    if idx is not None and o[1] != idx:
        return False
    return True


def is_field_of_param(o, pname, *path):
    """o == param.pname.path (through vp wrappers and variant downcasts)"""
    o = peel(o)
    for name in reversed(path):
        while o[0] in ("variant",):
            o = peel(o[1])
        if o[0] != "field" or o[2] != name:
            return False
        o = peel(o[1])
    while o[0] == "variant":
        o = peel(o[1])
    return is_param(o, pname)


def fmt(o, depth=0):
    """human readable rendering"""
    k = o[0]
    if depth > 8:
        return "…"
    d = depth + 1
    if k == "param":
        return "param %s" % o[2]
    if k == "env":
        return "env"
    if k == "upvar":
        return "upvar %s" % o[1]
    if k == "cparam":
        return "closure-param %s" % o[2]
    if k == "bound":
        return "%s(%s)" % (o[1], fmt(o[2], d))
    if k == "const":
        return "const %r" % (o[2],)
    if k == "item":
        return "item %s" % o[1]
    if k == "fn":
        return "fn %s" % o[1]
    if k == "call":
        return "%s(%s)" % (o[1], ", ".join(fmt(a, d) for a in o[2]))
    if k == "mutby":
        return "mutated-by %s(.., %s)" % (o[1], ", ".join(fmt(a, d) for a in o[2]))
    if k == "vp":
        return "%s~(%s)" % (o[1], fmt(o[2], d))
    if k == "agg":
        return "%s{%s}" % (o[1], ", ".join("%s: %s" % (f, fmt(v, d)) for f, v in o[2]))
    if k == "closure":
        return "closure %s" % o[1]
    if k == "binop":
        return "%s(%s, %s)" % (o[1], fmt(o[2], d), fmt(o[3], d))
    if k in ("unop", "cast"):
        return "%s(%s)" % (o[1], fmt(o[2], d))
    if k in ("discr", "index", "ok", "err", "some"):
        return "%s(%s)" % (k, fmt(o[1], d))
    if k == "field":
        return "%s.%s" % (fmt(o[1], d), o[2])
    if k == "variant":
        return "(%s as %s)" % (fmt(o[1], d), o[2])
    if k == "multi":
        return "{" + " | ".join(fmt(x, d) for x in o[1]) + "}"
    if k == "upd":
        return "%s with {%s}" % (fmt(o[1], d), ", ".join("%s: %s" % (".".join(p), fmt(v, d)) for p, v in o[2]))
    return str(o)


def root_param(o):
    """the parameter a projection chain starts from (through fields, variants, payloads), or None"""
    o = peel(o)
    while o[0] in ("field", "variant", "ok", "err", "some", "index", "upd"):
        o = peel(o[1])
    return o if o[0] == "param" else None


def is_param_field(o, pname, fname):
    """o is `<pname>…​.fname` (possibly through enum variant downcasts)"""
    if content_mutated(o):
        return False
    o = peel(o)
    if o[0] != "field" or o[2] != fname:
        return False
    r = root_param(o[1])
    return r is not None and r[2] == pname


def format_parts(prov, fn, o):
    """for the origin of `format!(..)`: (template bytes as latin-1 str, [argument origins]) or None"""
    o = peel(o)
    if o[0] != "call" or o[1] != "std::fmt::format":
        return None
    a = peel(o[2][0])
    if a[0] != "call" or not a[1].startswith("std::fmt::Arguments::new"):
        return None
    tpl = peel(a[2][0])
    args = []
    if len(a[2]) > 1:
        arr = peel(a[2][1])
        if arr[0] == "agg":
            for _, v in arr[2]:
                v = peel(v)
                if v[0] == "call" and "fmt::rt::Argument::new_" in v[1]:
                    args.append((v[1].rsplit("_", 1)[1], v[2][0]))
    if tpl[0] == "const" and tpl[1] in ("bytes", "str"):
        return tpl[2], args
    return None


CONVERSIONS = {"from", "into", "to_string", "to_owned", "clone", "as_str", "as_ref", "as_bytes", "to_vec", "into_string", "unchecked", "deref", "borrow",
               "as_slice", "into_vec", "into_bytes", "to_bytes", "as_mut"}


# `&mut self` methods that leave the contents as they are
MUT_NEUTRAL = {"reserve", "reserve_exact", "shrink_to_fit", "shrink_to", "as_mut", "as_mut_slice", "as_mut_str", "iter_mut", "borrow_mut", "deref_mut",
               "make_contiguous", "by_ref", "as_mut_ptr"}


def just(o, pred, depth=0):
    """`o` IS the value `pred` recognises - looked at through references, clones and type conversions (`String::from`, `.into()`,
    `Addr::unchecked`, `.to_string()`, `.to_vec()`, ..) - not something computed from it: `x.to_lowercase()`, `&x[..n]`, `x / 2`,
    `f(x)` merely *mention* x.  (The counterpart of `contains` for obligations of the form "the value stored / sent is X".)"""
    # a value that was lent out mutably to something that changes contents (`v.retain(..)`, `v.sort()`, `v.dedup()`, `s.push_str(..)`)
    # is not that value any more
    if content_mutated(o):
        return False
    x = o
    while x[0] in ("vp", "upd"):
        if x[0] == "upd":
            for p0, v0 in x[2]:
                if p0 and p0[0] == "&mut" and v0[0] == "mutby" and v0[1].rsplit("::", 1)[-1] not in MUT_NEUTRAL:
                    return False
            x = x[1]
        else:
            x = x[2]
    o = peel(o)
    if pred(o):
        return True
    if depth < 6 and o[0] == "call" and len(o[2]) == 1 and o[1].rsplit("::", 1)[-1] in CONVERSIONS:
        return just(o[2][0], pred, depth + 1)
    if depth < 6 and o[0] == "multi":
        return all(just(x, pred, depth + 1) for x in o[1])
    return False
