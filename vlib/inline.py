"""Normalisation of *new* private helper functions (A8).

The rule tables name the functions that existed when they were confirmed (vlib/frozen_params.json).  A private local
function that is not in that table is a helper somebody extracted later ("extract function" is the most common
behaviour-preserving refactoring).  Its body is spliced, at MIR level, into every caller, so every rule sees the same
statements, calls and branch conditions as before the extraction - and a property-relevant step that somebody *moves*
into a new helper cannot hide from the rules either.

  * call `dst = H(a1..an) -> T`   becomes   p1 = a1; ..; pn = an; goto entry(H)   with H's locals, blocks and promoted
    constants renumbered into the caller; every `return` of H becomes `dst = move ret(H); goto T`
  * closures defined in H are cloned per call site under the caller (`C::{closure#<site>.<helper>.<n>}`)
  * a helper passed as a function value (`iter.try_for_each(Self::check)`) is eta-expanded into a synthesised
    closure `|x..| H(x..)` first, so the higher-order binding tables treat it like the closure it replaces
  * recursive helpers (directly or through other new helpers) and public functions are left alone
  * helpers whose every use was spliced are removed from the function table

Nothing here decides a property; it only changes which function a statement is attributed to.  The evidence of every
run lists the helpers that were spliced (Facts.inlined).
"""
import copy

MAX_ROUNDS = 6

# Known private helpers whose only job is to compute a value or to guard a precondition for their (few) callers.  The
# rules state their obligations at the callers; these helpers are therefore always spliced, so that the analysed form is
# the same whether a maintainer keeps them, inlines them by hand, or extracts them again under another name.
ALWAYS_INLINE = {
    "transactions::Op::to_delta",
    "transactions::range_bounds",
    "staking::StakeKeeper::validate_percentage",
    "bank::coins_to_string",
    "staking::StakeKeeper::remove_staker",
    "wasm::WasmKeeper::instance_count",
    "transactions::RepLog::append",
    "prefixed_storage::namespace_helpers::trim",
    "transactions::MergeOverlay::pick_match",
    "wasm::encode_response_data",
    "wasm::WasmKeeper::with_storage_readonly",
    "addresses::instantiate_address",
}


def _map_place(p, lm):
    p["l"] = lm(p["l"])
    for e in p["p"]:
        if e["k"] == "index":
            e["local"] = lm(e["local"])


def _map_operand(o, lm, cm):
    k = o.get("k")
    if k in ("copy", "move"):
        _map_place(o["place"], lm)
    elif k == "const":
        cm(o)


def _map_rvalue(rv, lm, cm):
    k = rv["k"]
    if k in ("use", "cast", "repeat"):
        _map_operand(rv["op"], lm, cm)
    elif k in ("ref", "rawptr", "discriminant"):
        _map_place(rv["place"], lm)
    elif k == "binop":
        _map_operand(rv["a"], lm, cm)
        _map_operand(rv["b"], lm, cm)
    elif k == "unop":
        _map_operand(rv["a"], lm, cm)
    elif k == "aggregate":
        for o in rv["ops"]:
            _map_operand(o, lm, cm)
        if rv.get("agg") == "closure":
            cm(rv)


def _map_block(b, lm, bm, cm):
    for st in b["stmts"]:
        _map_place(st["dst"], lm)
        if st["k"] == "assign":
            _map_rvalue(st["rv"], lm, cm)
    t = b["term"]
    k = t["k"]
    if k in ("call", "tailcall"):
        for a in t["args"]:
            _map_operand(a, lm, cm)
        if "indirect" in t["callee"]:
            _map_operand(t["callee"]["indirect"], lm, cm)
        if k == "call":
            _map_place(t["dst"], lm)
            if t["target"] is not None:
                t["target"] = bm(t["target"])
    elif k == "switch":
        _map_operand(t["discr"], lm, cm)
        if "discr_of" in t:
            _map_place(t["discr_of"], lm)
        t["targets"] = [[v, bm(bb), n] for v, bb, n in t["targets"]]
        t["otherwise"] = bm(t["otherwise"])
    elif k == "goto":
        t["target"] = bm(t["target"])
    elif k == "drop":
        _map_place(t["place"], lm)
        t["target"] = bm(t["target"])
    elif k == "assert":
        _map_operand(t["cond"], lm, cm)
        t["target"] = bm(t["target"])
    b["id"] = bm(b["id"])


def _callee_is(t, key):
    c = t["callee"]
    return c.get("key") == key or (c.get("resolved") == key and not c.get("self_dyn"))


def _fn_item_uses(d, keys):
    """[(block, statement index or "t", operand)]: constant operands that name one of `keys` as a function value
    (not as the callee of a call)"""
    out = []

    def op(o, b, pos):
        if o.get("k") == "const" and o.get("ck") == "fn" and o.get("fn") in keys:
            out.append((b, pos, o))

    def rv(r, b, pos):
        k = r["k"]
        if k in ("use", "cast", "repeat"):
            op(r["op"], b, pos)
        elif k == "binop":
            op(r["a"], b, pos)
            op(r["b"], b, pos)
        elif k == "unop":
            op(r["a"], b, pos)
        elif k == "aggregate":
            for o in r["ops"]:
                op(o, b, pos)

    for b in d["blocks"]:
        for i, st in enumerate(b["stmts"]):
            if st["k"] == "assign":
                rv(st["rv"], b, i)
        t = b["term"]
        if t["k"] in ("call", "tailcall"):
            for a in t["args"]:
                op(a, b, "t")
    return out


def _closure_family(funcs, root_key):
    """closure dicts lexically nested in root_key (any depth)"""
    pre = root_key + "::{closure#"
    return [d for d in funcs if d["kind"] == "closure" and d["key"].startswith(pre)]


def _short(key):
    return key.rsplit("::", 1)[-1].replace("{", "").replace("}", "")


class Inliner:
    def __init__(self, functions, known_keys):
        self.funcs = functions
        self.known = known_keys
        self.by_key = {}
        for d in functions:
            self.by_key.setdefault(d["key"], d)
        self.report = []      # (helper, caller, line)
        self.site_no = {}

    # ------------------------------------------------------------ helper selection
    def helpers(self):
        hs = {}
        for d in self.funcs:
            if d["kind"] not in ("fn", "assoc") or d["derived"] or d.get("exp"):
                continue
            if d["key"] in self.known and d["key"] not in ALWAYS_INLINE:
                continue
            if d["vis"] == "pub" and d["key"] not in ALWAYS_INLINE:
                continue
            if d.get("impl_trait") or d.get("in_trait"):
                continue        # a new trait method is new interface, not an extracted helper
            if d["key"].startswith("tests::") or "::tests::" in d["key"] or "::test::" in d["key"] or d["key"].startswith("test_helpers::"):
                continue
            hs[d["key"]] = d
        return hs

    def _calls_to(self, d, keys):
        out = []
        for b in d["blocks"]:
            t = b["term"]
            if t["k"] == "call" and t["callee"].get("local"):
                for k in keys:
                    if _callee_is(t, k):
                        out.append((b, k))
                        break
        return out

    def _body_family(self, key):
        d = self.by_key[key]
        return [d] + _closure_family(self.funcs, key)

    # ------------------------------------------------------------ eta expansion of function values
    def eta_expand(self, hs):
        n = 0
        for d in list(self.funcs):
            uses = _fn_item_uses(d, hs)
            if not uses:
                continue
            root = d["key"]
            # statement indices shift as aggregates are inserted: handle later positions first
            uses.sort(key=lambda u: (u[0]["id"], -10 ** 9 if u[1] == "t" else -u[1]))
            for blk, pos, o in uses:
                h = hs[o["fn"]]
                n += 1
                ck = "%s::{closure#eta%d.%s}" % (root, n, _short(h["key"]))
                a = h["arg_count"]
                # closure body: _0 ret, _1 env, _2.. the helper's parameters
                locs = [copy.deepcopy(h["locals"][0]), {"s": "&{closure eta}", "ref": "shared"}] + [copy.deepcopy(h["locals"][i]) for i in range(1, a + 1)]
                callee = {"key": h["key"], "local": True, "name": _short(h["key"]), "gargs": list(o.get("gargs", [])),
                          "inputs": [copy.deepcopy(h["locals"][i]) for i in range(1, a + 1)], "output": h["locals"][0]["s"]}
                if h.get("impl_self"):
                    callee["self_adt"] = h.get("impl_self")
                blocks = [
                    {"id": 0, "stmts": [], "term": {"k": "call", "callee": callee,
                                                    "args": [{"k": "move", "place": {"l": i + 2, "p": []}} for i in range(a)],
                                                    "dst": {"l": 0, "p": []}, "target": 1, "line": d["line"]}},
                    {"id": 1, "stmts": [], "term": {"k": "return", "line": d["line"]}},
                ]
                cd = {"key": ck, "path": ck, "kind": "closure", "file": d["file"], "line": d["line"], "derived": False, "vis": "n/a",
                      "arg_count": a + 1, "parent": root, "upvars": [], "locals": locs,
                      "names": [{"name": nm["name"], "place": {"l": nm["place"]["l"] + 1, "p": []}} for nm in h["names"]
                                if not nm["place"]["p"] and 1 <= nm["place"]["l"] <= a],
                      "blocks": blocks, "promoted": [], "eta_of": h["key"]}
                self.funcs.append(cd)
                self.by_key[ck] = cd
                # the operand becomes a closure value held in a fresh local that is assigned right before its use
                nl = len(d["locals"])
                d["locals"].append({"s": "{closure eta %s}" % h["key"]})
                st = {"k": "assign", "dst": {"l": nl, "p": []}, "line": d["line"], "inl": "eta",
                      "rv": {"k": "aggregate", "agg": "closure", "closure": ck, "fields": [], "ops": []}}
                blk["stmts"].insert(len(blk["stmts"]) if pos == "t" else pos, st)
                o.clear()
                o.update({"k": "move", "place": {"l": nl, "p": []}})
        return n

    # ------------------------------------------------------------ splice one call
    def splice(self, c, blk, h):
        """replace the call terminating `blk` of caller dict `c` by the body of helper dict `h`"""
        t = blk["term"]
        site = self.site_no.get(c["key"], 0) + 1
        self.site_no[c["key"]] = site
        L = len(c["locals"])
        B = max(b["id"] for b in c["blocks"]) + 1
        hk, ck = h["key"], c["key"]
        # closures of the helper: clone under the caller
        fam = _closure_family(self.funcs, hk)
        pre_old = hk + "::{closure#"
        pre_new = "%s::{closure#%d.%s." % (ck, site, _short(hk))

        def rekey(k):
            if k.startswith(pre_old):
                return pre_new + k[len(pre_old):]
            return k

        # promoted constants: append to the caller's table
        c.setdefault("promoted", [])
        pbase = (max([p["idx"] for p in c["promoted"]]) + 1) if c["promoted"] else 0
        pmap = {}
        for p in h.get("promoted", []):
            q = copy.deepcopy(p)
            pmap[p["idx"]] = pbase + len(pmap)
            q["idx"] = pmap[p["idx"]]
            c["promoted"].append(q)

        def lm(l):
            return L + l

        def bm(b):
            return B + b

        def cm(o):
            if o.get("agg") == "closure":
                o["closure"] = rekey(o["closure"])
            elif o.get("ck") == "item" and "promoted" in o and not isinstance(o["promoted"], bool) and o.get("item") == hk:
                o["item"] = ck
                o["promoted"] = pmap.get(o["promoted"], o["promoted"])

        for cl in fam:
            q = copy.deepcopy(cl)
            q["key"] = rekey(cl["key"])
            q["parent"] = ck if cl["parent"] == hk else rekey(cl["parent"])
            q["inlined_from"] = cl["key"]
            for b in q["blocks"]:
                for st in b["stmts"]:
                    if st["k"] == "assign" and st["rv"]["k"] == "aggregate" and st["rv"].get("agg") == "closure":
                        st["rv"]["closure"] = rekey(st["rv"]["closure"])
            self.funcs.append(q)
            self.by_key[q["key"]] = q
        body = copy.deepcopy(h["blocks"])
        entry = body[0]["id"]
        ret_target = t["target"]
        for b in body:
            _map_block(b, lm, bm, cm)
            bt = b["term"]
            if bt["k"] == "return":
                if ret_target is None:
                    b["term"] = {"k": "unreachable", "line": bt.get("line", 0)}
                else:
                    b["stmts"].append({"k": "assign", "dst": copy.deepcopy(t["dst"]),
                                       "rv": {"k": "use", "op": {"k": "move", "place": {"l": L, "p": []}}},
                                       "line": t.get("line", 0), "inl": "ret"})
                    b["term"] = {"k": "goto", "target": ret_target, "line": bt.get("line", 0)}
        c["locals"].extend(copy.deepcopy(h["locals"]))
        for nm in h["names"]:
            q = copy.deepcopy(nm)
            _map_place(q["place"], lm)
            q["inl"] = hk
            c["names"].append(q)
        for i, a in enumerate(t["args"]):
            blk["stmts"].append({"k": "assign", "dst": {"l": L + 1 + i, "p": []}, "rv": {"k": "use", "op": a}, "line": t.get("line", 0), "inl": "arg"})
        blk["term"] = {"k": "goto", "target": B + entry, "line": t.get("line", 0), "inl_call": hk}
        c["blocks"].extend(body)
        c.setdefault("inlined", []).append({"helper": hk, "line": t.get("line", 0), "locals": [L, L + len(h["locals"])]})
        self.report.append((hk, ck, t.get("line", 0)))

    # ------------------------------------------------------------ driver
    def run(self):
        hs = self.helpers()
        if not hs:
            return []
        self.eta_expand(hs)
        # helper -> helpers it (or its closures) calls
        deps = {}
        for k in hs:
            s = set()
            for d in self._body_family(k):
                for b, k2 in self._calls_to(d, hs):
                    s.add(k2)
            deps[k] = s
        # drop helpers on a cycle
        def reach(k, seen):
            for k2 in deps.get(k, ()):
                if k2 not in seen:
                    seen.add(k2)
                    reach(k2, seen)
            return seen
        cyclic = {k for k in hs if k in reach(k, set())}
        for k in cyclic:
            hs.pop(k)
        for k in deps:
            deps[k] -= cyclic
        done = set()
        for _ in range(MAX_ROUNDS + len(hs)):
            ready = [k for k in hs if k not in done and deps[k] <= done]
            if not ready:
                break
            # helpers whose own bodies are free of helper calls: splice them everywhere
            for k in sorted(ready):
                h = hs[k]
                for d in list(self.funcs):
                    if d is h:
                        continue
                    if d["kind"] == "closure" and d["key"].startswith(k + "::{closure#"):
                        continue
                    while True:
                        cs = self._calls_to(d, [k])
                        if not cs:
                            break
                        self.splice(d, cs[0][0], h)
                done.add(k)
        # remove helpers (and their closures) that are no longer referenced
        removed = []
        for k in sorted(done):
            still = False
            for d in self.funcs:
                if d["key"] == k or d["key"].startswith(k + "::{closure#"):
                    continue
                if self._calls_to(d, [k]) or _fn_item_uses(d, {k: 1}):
                    still = True
                    break
            if not still:
                removed.append(k)
        rm = set(removed)
        self.funcs[:] = [d for d in self.funcs if not (d["key"] in rm or any(d["key"].startswith(k + "::{closure#") for k in rm))]
        return removed


# ---------------------------------------------------------------------------------------------------------------------
# A9: internal iteration becomes external iteration.  `I.for_each(c)`, `I.try_for_each(c)`, `I.fold(a, c)` and
# `I.try_fold(a, c)` are rewritten into the loop the standard library documents them to be, with the closure body
# spliced in, so `for x in I { .. }` and `I.for_each(|x| ..)` are one shape for every rule.
LOOP_HOFS = {
    "std::iter::Iterator::for_each": ("for_each", False, False),
    "std::iter::Iterator::try_for_each": ("try_for_each", False, True),
    "std::iter::Iterator::fold": ("fold", True, False),
    "std::iter::Iterator::try_fold": ("try_fold", True, True),
    "std::iter::Iterator::find": ("find", False, False),
    "std::iter::Iterator::any": ("any", False, False),
    "std::iter::Iterator::all": ("all", False, False),
}
UNIT = {"k": "const", "ck": "zst_or_other", "ty": "()", "text": "()"}

# A13: Option / Result combinators that take a closure become the `match` they abbreviate, closure body spliced in:
#   x.map(f)  x.and_then(f)  x.map_err(f)  x.unwrap_or_else(f)  x.ok_or_else(f)  x.map_or(d, f)  x.map_or_else(g, f) is left alone
# (receiver enum, variant carrying the payload the closure gets | None when it gets nothing, what each arm yields)
COMBINATORS = {
    "std::option::Option::map": ("std::option::Option", "Some", "wrap:Some", "None"),
    "std::option::Option::and_then": ("std::option::Option", "Some", "raw", "None"),
    "std::option::Option::unwrap_or_else": ("std::option::Option", None, "payload", "closure"),
    "std::option::Option::ok_or_else": ("std::option::Option", None, "ok-payload", "err-closure"),
    "std::result::Result::map": ("std::result::Result", "Ok", "wrap:Ok", "Err"),
    "std::result::Result::and_then": ("std::result::Result", "Ok", "raw", "Err"),
    "std::result::Result::map_err": ("std::result::Result", "Err", "wrap:Err", "Ok"),
    "std::option::Option::map_or": ("std::option::Option", "Some", "raw", "default"),
    "std::option::Option::map_or_else": ("std::option::Option", "Some", "raw", "default-closure"),
    "std::option::Option::filter": ("std::option::Option", "Some", "filter", "None"),
    "std::option::Option::or_else": ("std::option::Option", None, "payload", "closure-whole"),
    "std::result::Result::or_else": ("std::result::Result", "Err", "raw", "Ok"),
    "std::result::Result::unwrap_or_else": ("std::result::Result", "Err", "raw", "payload:Ok"),
    # x.is_some_and(p) = match x { Some(v) => p(v), None => false } and its relatives
    "std::option::Option::is_some_and": ("std::option::Option", "Some", "raw", "const:false"),
    "std::option::Option::is_none_or": ("std::option::Option", "Some", "raw", "const:true"),
    "std::result::Result::is_ok_and": ("std::result::Result", "Ok", "raw", "const:false"),
    "std::result::Result::is_err_and": ("std::result::Result", "Err", "raw", "const:false"),
}
VARIANTS = {"std::option::Option": [[0, "None"], [1, "Some"]], "std::result::Result": [[0, "Ok"], [1, "Err"]]}


def _pl(l, *proj):
    return {"l": l, "p": list(proj)}


def _mv(l, *proj):
    return {"k": "move", "place": _pl(l, *proj)}


def _payload_proj(variant, owner):
    return [{"k": "downcast", "variant": variant}, {"k": "field", "name": "0", "idx": 0, "of": owner + "::" + variant, "ty": "?"}]


class Desugarer:
    def __init__(self, inliner):
        self.inl = inliner
        self.report = []
        self.extra_gone = []

    def _closure_of(self, c, op):
        if op.get("k") not in ("copy", "move") or op["place"]["p"]:
            return None
        l = op["place"]["l"]
        found = None
        for b in c["blocks"]:
            for st in b["stmts"]:
                if st["k"] == "assign" and st["dst"]["l"] == l:
                    if st["dst"]["p"] or found is not None:
                        return None
                    rv = st["rv"]
                    if rv["k"] == "aggregate" and rv.get("agg") == "closure":
                        found = rv["closure"]
                    else:
                        return None
            t = b["term"]
            if t["k"] == "call" and t["dst"]["l"] == l:
                return None
        return found

    def one(self, c, blk):
        t = blk["term"]
        name, has_acc, is_try = LOOP_HOFS[t["callee"]["key"]]
        args = t["args"]
        if len(args) != (3 if has_acc else 2) or t["target"] is None:
            return False
        ck = self._closure_of(c, args[-1])
        cl = self.inl.by_key.get(ck) if ck else None
        if cl is None or cl["arg_count"] != (3 if has_acc else 2):
            return False
        rty = cl["locals"][0]["s"]
        if is_try and not rty.startswith("std::result::Result<"):
            return False
        line = t.get("line", 0)
        L = len(c["locals"])
        n_it, n_ref, n_nx, n_d, n_x, n_r, n_env, n_acc, n_br, n_brd = range(L, L + 10)
        a0 = args[0]
        it_ty = copy.deepcopy(c["locals"][a0["place"]["l"]]) if a0.get("k") in ("copy", "move") and not a0["place"]["p"] else {"s": "?"}
        c["locals"].extend([
            it_ty, {"s": "&mut " + it_ty.get("s", "?"), "ref": "mut"}, {"s": "std::option::Option<?>"}, {"s": "isize"},
            copy.deepcopy(cl["locals"][cl["arg_count"]]), copy.deepcopy(cl["locals"][0]), {"s": "&mut {closure}", "ref": "mut"},
            copy.deepcopy(cl["locals"][2]) if has_acc else {"s": "()"}, {"s": "std::ops::ControlFlow<?>"}, {"s": "isize"}])
        B = max(b["id"] for b in c["blocks"]) + 1
        H, S, U, BD, A, A2, A3, A4, X = range(B, B + 9)
        clocal = args[-1]["place"]["l"]
        dst, target = t["dst"], t["target"]

        def asg(d, rv, tag):
            return {"k": "assign", "dst": d, "rv": rv, "line": line, "inl": tag}

        blk["stmts"].append(asg(_pl(n_it), {"k": "use", "op": a0}, "hof"))
        if has_acc:
            blk["stmts"].append(asg(_pl(n_acc), {"k": "use", "op": args[1]}, "hof"))
        blk["term"] = {"k": "goto", "target": H, "line": line, "hof": name}
        nxt = {"key": "std::iter::Iterator::next", "local": False, "name": "next", "gargs": [it_ty.get("s", "?")], "trait": "std::iter::Iterator",
               "self_ty": it_ty.get("s", "?"), "inputs": [{"s": "&mut Self", "ref": "mut", "pointee": "Self"}], "output": "std::option::Option<?>"}
        blocks = [
            {"id": H, "stmts": [asg(_pl(n_ref), {"k": "ref", "mut": True, "place": _pl(n_it)}, "hof")],
             "term": {"k": "call", "callee": nxt, "args": [_mv(n_ref)], "dst": _pl(n_nx), "target": S, "line": line, "exp": "desugar:ForLoop"}},
            {"id": S, "stmts": [asg(_pl(n_d), {"k": "discriminant", "place": _pl(n_nx), "adt": "std::option::Option"}, "hof")],
             "term": {"k": "switch", "discr": _mv(n_d), "discr_ty": "isize", "discr_of": _pl(n_nx), "adt": "std::option::Option",
                      "variants": [[0, "None"], [1, "Some"]], "targets": [[0, X, "None"], [1, BD, "Some"]], "otherwise": U, "line": line}},
            {"id": U, "stmts": [], "term": {"k": "unreachable", "line": line}},
        ]
        call_args = [_mv(n_env)] + ([_mv(n_acc)] if has_acc else []) + [_mv(n_x)]
        ccallee = {"key": ck, "local": True, "name": "call_mut", "gargs": [], "inputs": [], "output": rty}
        bd = {"id": BD, "stmts": [asg(_pl(n_x), {"k": "use", "op": _mv(n_nx, *_payload_proj("Some", "std::option::Option"))}, "hof"),
                                  asg(_pl(n_env), {"k": "ref", "mut": True, "place": _pl(clocal)}, "hof")],
              "term": {"k": "call", "callee": ccallee, "args": call_args, "dst": _pl(n_r), "target": A, "line": line}}
        blocks.append(bd)
        if name in ("find", "any", "all"):
            # the closure yields a bool: stop at the first element that satisfies (find, any) / violates (all) it
            def cbool(v):
                return {"k": "const", "ck": "bool", "ty": "bool", "int": 1 if v else 0, "text": "true" if v else "false"}
            if name == "find":
                # find's predicate takes `&Item`
                n_xr = len(c["locals"])
                c["locals"].append({"s": "&" + c["locals"][n_x].get("s", "?"), "ref": "shared"})
                c["locals"][n_x] = {"s": "?"}
                bd["stmts"].insert(1, asg(_pl(n_xr), {"k": "ref", "mut": False, "place": _pl(n_x)}, "hof"))
                bd["term"]["args"][-1] = _mv(n_xr)
                hit_rv = {"k": "aggregate", "agg": "adt", "adt": "std::option::Option", "variant": "Some", "fields": ["0"], "ops": [_mv(n_x)]}
                xrv = {"k": "aggregate", "agg": "adt", "adt": "std::option::Option", "variant": "None", "fields": [], "ops": []}
                stop_on = True
            else:
                hit_rv = {"k": "use", "op": cbool(name == "any")}
                xrv = {"k": "use", "op": cbool(name == "all")}
                stop_on = name == "any"
            tg = [[0, A3 if stop_on else H, None]]
            blocks.append({"id": A, "stmts": [], "term": {"k": "switch", "discr": _mv(n_r), "discr_ty": "bool", "targets": [[0, H if stop_on else A3, None]],
                                                          "otherwise": A3 if stop_on else H, "line": line}})
            blocks.append({"id": A3, "stmts": [asg(copy.deepcopy(dst), hit_rv, "hof")], "term": {"k": "goto", "target": target, "line": line}})
        elif not is_try:
            st = [asg(_pl(n_acc), {"k": "use", "op": _mv(n_r)}, "hof")] if has_acc else []
            blocks.append({"id": A, "stmts": st, "term": {"k": "goto", "target": H, "line": line}})
            xrv = {"k": "use", "op": _mv(n_acc) if has_acc else copy.deepcopy(UNIT)}
        else:
            br = {"key": "std::ops::Try::branch", "local": False, "name": "branch", "gargs": [rty], "trait": "std::ops::Try", "self_ty": rty,
                  "resolved": "<std::result::Result as std::ops::Try>::branch", "inputs": [{"s": "Self"}], "output": "std::ops::ControlFlow<?>"}
            fr = {"key": "std::ops::FromResidual::from_residual", "local": False, "name": "from_residual", "gargs": [], "trait": "std::ops::FromResidual",
                  "resolved": "<std::result::Result as std::ops::FromResidual>::from_residual", "inputs": [{"s": "R"}], "output": rty}
            blocks.append({"id": A, "stmts": [], "term": {"k": "call", "callee": br, "args": [_mv(n_r)], "dst": _pl(n_br), "target": A2, "line": line, "exp": "desugar:QuestionMark"}})
            blocks.append({"id": A2, "stmts": [asg(_pl(n_brd), {"k": "discriminant", "place": _pl(n_br), "adt": "std::ops::ControlFlow"}, "hof")],
                           "term": {"k": "switch", "discr": _mv(n_brd), "discr_ty": "isize", "discr_of": _pl(n_br), "adt": "std::ops::ControlFlow",
                                    "variants": [[0, "Continue"], [1, "Break"]], "targets": [[0, A3, "Continue"], [1, A4, "Break"]], "otherwise": U, "line": line}})
            st = [asg(_pl(n_acc), {"k": "use", "op": _mv(n_br, *_payload_proj("Continue", "std::ops::ControlFlow"))}, "hof")] if has_acc else []
            blocks.append({"id": A3, "stmts": st, "term": {"k": "goto", "target": H, "line": line}})
            blocks.append({"id": A4, "stmts": [], "term": {"k": "call", "callee": fr, "args": [_mv(n_br, *_payload_proj("Break", "std::ops::ControlFlow"))],
                                                           "dst": copy.deepcopy(dst), "target": target, "line": line, "exp": "desugar:QuestionMark"}})
            xrv = {"k": "aggregate", "agg": "adt", "adt": "std::result::Result", "variant": "Ok", "fields": ["0"], "ops": [_mv(n_acc) if has_acc else copy.deepcopy(UNIT)]}
        blocks.append({"id": X, "stmts": [asg(copy.deepcopy(dst), xrv, "hof")], "term": {"k": "goto", "target": target, "line": line}})
        c["blocks"].extend(blocks)
        c["names"].append({"name": "iter", "place": _pl(n_it), "inl": "hof"})
        self.inl.splice(c, bd, cl)
        self.report.append((name, c["key"], line))
        return ck

    def comb(self, c, blk):
        """rewrite `dst = x.map(closure)` (and the other COMBINATORS) into a switch on x with the closure body spliced in"""
        t = blk["term"]
        enum, takes, hit, miss = COMBINATORS[t["callee"]["key"]]
        args = t["args"]
        default_op = None
        default_cl = None
        if miss == "default-closure":
            # x.map_or_else(default_closure, closure): the default closure runs on the None arm
            if len(args) != 3:
                return False
            dk = self._closure_of(c, args[1])
            default_cl = self.inl.by_key.get(dk) if dk else None
            if default_cl is None or default_cl["arg_count"] != 1:
                return False
            dcl_local = args[1]["place"]["l"]
            args = [args[0], args[2]]
        if miss.startswith("const:"):
            if len(args) != 2:
                return False
            default_op = {"k": "const", "ty": "bool", "ck": "bool", "int": 1 if miss == "const:true" else 0, "text": miss[6:]}
        if miss == "default":
            # x.map_or(default, closure)
            if len(args) != 3:
                return False
            default_op = args[1]
            args = [args[0], args[2]]
        if len(args) != 2 or t["target"] is None:
            return False
        ck = self._closure_of(c, args[1])
        cl = self.inl.by_key.get(ck) if ck else None
        if cl is None or cl["arg_count"] != (2 if takes else 1):
            return False
        line = t.get("line", 0)
        L = len(c["locals"])
        n_x, n_d, n_v, n_env, n_r = range(L, L + 5)
        a0 = args[0]
        x_ty = copy.deepcopy(c["locals"][a0["place"]["l"]]) if a0.get("k") in ("copy", "move") and not a0["place"]["p"] else {"s": "?"}
        c["locals"].extend([x_ty, {"s": "isize"}, copy.deepcopy(cl["locals"][2]) if takes else {"s": "?"}, {"s": "{closure}"}, copy.deepcopy(cl["locals"][0])])
        B = max(b["id"] for b in c["blocks"]) + 1
        BH, BM, BR, BU = B, B + 1, B + 2, B + 3          # hit arm (closure runs), miss arm, after the closure, unreachable
        dst, target = t["dst"], t["target"]
        clocal = args[1]["place"]["l"]
        variants = VARIANTS[enum]
        others = [n for v, n in variants]

        def asg(d, rv, tag="comb"):
            return {"k": "assign", "dst": d, "rv": rv, "line": line, "inl": tag}

        def agg(variant, op):
            return {"k": "aggregate", "agg": "adt", "adt": enum if variant in others else "std::result::Result", "variant": variant,
                    "fields": ["0"] if op is not None else [], "ops": [op] if op is not None else []}
        if takes:
            hit_variant = takes
            miss_variant = [n for n in others if n != takes][0]
        else:
            # the closure runs when there is nothing: None
            hit_variant = "None"
            miss_variant = "Some"
        # the decision gets a block of its own (so that a visible constructor flowing into it can be threaded, A10)
        BS = B + 6
        tgt = []
        for v, n in variants:
            tgt.append([v, BH if n == hit_variant else BM, n])
        sw = {"id": BS, "stmts": [asg(_pl(n_x), {"k": "use", "op": a0}), asg(_pl(n_d), {"k": "discriminant", "place": _pl(n_x), "adt": enum})],
              "term": {"k": "switch", "discr": _mv(n_d), "discr_ty": "isize", "discr_of": _pl(n_x), "adt": enum, "variants": variants,
                       "targets": tgt, "otherwise": BU, "line": line, "comb": t["callee"]["name"]}}
        c["blocks"].append(sw)
        blk["term"] = {"k": "goto", "target": BS, "line": line}
        ccallee = {"key": ck, "local": True, "name": "call_once", "gargs": [], "inputs": [], "output": cl["locals"][0]["s"]}
        call_args = [_mv(n_env)] + ([_mv(n_v)] if takes else [])
        st = [asg(_pl(n_env), {"k": "use", "op": _mv(clocal)})]
        if takes:
            st.insert(0, asg(_pl(n_v), {"k": "use", "op": _mv(n_x, *_payload_proj(hit_variant, enum))}))
        bh = {"id": BH, "stmts": st, "term": {"k": "call", "callee": ccallee, "args": call_args, "dst": _pl(n_r), "target": BR, "line": line}}
        # what the two arms yield
        if hit == "filter":
            rv_hit = None
        elif hit.startswith("wrap:"):
            rv_hit = agg(hit[5:], _mv(n_r))
        elif hit == "raw" or hit == "payload":
            rv_hit = {"k": "use", "op": _mv(n_r)}
        else:   # ok-payload: handled below (closure is on the miss side for *_or_else)
            rv_hit = None
        if not takes:
            # unwrap_or_else / ok_or_else: hit arm = None -> closure; miss arm = Some(v)
            if miss == "closure":
                rv_after = {"k": "use", "op": _mv(n_r)}
                rv_other = {"k": "use", "op": _mv(n_x, *_payload_proj("Some", enum))}
            elif miss == "closure-whole":
                # x.or_else(f): Some(v) stays as it is, None -> f()
                rv_after = {"k": "use", "op": _mv(n_r)}
                rv_other = {"k": "use", "op": _mv(n_x)}
            else:
                rv_after = {"k": "aggregate", "agg": "adt", "adt": "std::result::Result", "variant": "Err", "fields": ["0"], "ops": [_mv(n_r)]}
                rv_other = {"k": "aggregate", "agg": "adt", "adt": "std::result::Result", "variant": "Ok", "fields": ["0"], "ops": [_mv(n_x, *_payload_proj("Some", enum))]}
        else:
            rv_after = rv_hit
            if default_cl is not None:
                rv_other = None
            elif default_op is not None:
                rv_other = {"k": "use", "op": default_op}
            elif miss.startswith("payload:"):
                rv_other = {"k": "use", "op": _mv(n_x, *_payload_proj(miss[8:], enum))}
            elif miss_variant == "None":
                rv_other = agg("None", None)
            else:
                rv_other = agg(miss_variant, _mv(n_x, *_payload_proj(miss_variant, enum)))
        bm_blk = {"id": BM, "stmts": [asg(copy.deepcopy(dst), rv_other)] if rv_other is not None else [], "term": {"k": "goto", "target": target, "line": line}}
        if default_cl is not None:
            n_env2 = len(c["locals"])
            c["locals"].append({"s": "{closure}"})
            bm_blk["stmts"] = [asg(_pl(n_env2), {"k": "use", "op": _mv(dcl_local)})]
            bm_blk["term"] = {"k": "call", "callee": {"key": default_cl["key"], "local": True, "name": "call_once", "gargs": [], "inputs": [], "output": default_cl["locals"][0]["s"]},
                              "args": [_mv(n_env2)], "dst": copy.deepcopy(dst), "target": target, "line": line}
        if hit == "filter":
            # the predicate takes `&v`; keep Some(v) when it holds, None otherwise
            n_vr = len(c["locals"])
            c["locals"].append({"s": "&?", "ref": "shared"})
            st.append(asg(_pl(n_vr), {"k": "ref", "mut": False, "place": _pl(n_v)}))
            bh["term"]["args"][-1] = _mv(n_vr)
            BK, BN = B + 4, B + 5
            after = {"id": BR, "stmts": [], "term": {"k": "switch", "discr": _mv(n_r), "discr_ty": "bool", "targets": [[0, BN, None]], "otherwise": BK, "line": line}}
            keep = {"id": BK, "stmts": [asg(copy.deepcopy(dst), agg("Some", _mv(n_v)))], "term": {"k": "goto", "target": target, "line": line}}
            drop_ = {"id": BN, "stmts": [asg(copy.deepcopy(dst), agg("None", None))], "term": {"k": "goto", "target": target, "line": line}}
            c["blocks"].extend([keep, drop_])
        else:
            after = {"id": BR, "stmts": [asg(copy.deepcopy(dst), rv_after)], "term": {"k": "goto", "target": target, "line": line}}
        blocks = [bh,
                  bm_blk,
                  after,
                  {"id": BU, "stmts": [], "term": {"k": "unreachable", "line": line}}]
        c["blocks"].extend(blocks)
        self.inl.splice(c, bh, cl)
        if default_cl is not None:
            self.inl.splice(c, bm_blk, default_cl)
            self.extra_gone.append(default_cl["key"])
        self.report.append((t["callee"]["name"], c["key"], line))
        return ck

    def then(self, c, blk):
        """rewrite `dst = b.then(closure)` into `if b { dst = Some(closure()) } else { dst = None }`"""
        t = blk["term"]
        args = t["args"]
        if len(args) != 2 or t["target"] is None:
            return False
        ck = self._closure_of(c, args[1])
        cl = self.inl.by_key.get(ck) if ck else None
        if cl is None or cl["arg_count"] != 1:
            return False
        line = t.get("line", 0)
        L = len(c["locals"])
        n_env, n_r = L, L + 1
        c["locals"].extend([{"s": "{closure}"}, copy.deepcopy(cl["locals"][0])])
        B = max(b["id"] for b in c["blocks"]) + 1
        BS, BH, BM, BR = B, B + 1, B + 2, B + 3
        dst, target = t["dst"], t["target"]
        clocal = args[1]["place"]["l"]

        def asg(d, rv):
            return {"k": "assign", "dst": d, "rv": rv, "line": line, "inl": "comb"}
        enum = "std::option::Option"
        sw = {"id": BS, "stmts": [], "term": {"k": "switch", "discr": args[0], "discr_ty": "bool", "targets": [[0, BM, None]], "otherwise": BH, "line": line,
                                               "comb": "then"}}
        ccallee = {"key": ck, "local": True, "name": "call_once", "gargs": [], "inputs": [], "output": cl["locals"][0]["s"]}
        bh = {"id": BH, "stmts": [asg(_pl(n_env), {"k": "use", "op": _mv(clocal)})],
              "term": {"k": "call", "callee": ccallee, "args": [_mv(n_env)], "dst": _pl(n_r), "target": BR, "line": line}}
        after = {"id": BR, "stmts": [asg(copy.deepcopy(dst), {"k": "aggregate", "agg": "adt", "adt": enum, "variant": "Some", "fields": ["0"], "ops": [_mv(n_r)]})],
                 "term": {"k": "goto", "target": target, "line": line}}
        bm = {"id": BM, "stmts": [asg(copy.deepcopy(dst), {"k": "aggregate", "agg": "adt", "adt": enum, "variant": "None", "fields": [], "ops": []})],
              "term": {"k": "goto", "target": target, "line": line}}
        c["blocks"].extend([sw, bh, after, bm])
        blk["term"] = {"k": "goto", "target": BS, "line": line}
        self.inl.splice(c, bh, cl)
        self.report.append(("then", c["key"], line))
        return ck

    def then_some(self, c, blk):
        """rewrite `dst = b.then_some(v)` into `if b { dst = Some(v) } else { dst = None }` (v is evaluated before either way)"""
        t = blk["term"]
        args = t["args"]
        if len(args) != 2 or t["target"] is None:
            return False
        line = t.get("line", 0)
        B = max(b["id"] for b in c["blocks"]) + 1
        BS, BH, BM = B, B + 1, B + 2
        dst, target = t["dst"], t["target"]

        def asg(d, rv):
            return {"k": "assign", "dst": d, "rv": rv, "line": line, "inl": "comb"}
        enum = "std::option::Option"
        sw = {"id": BS, "stmts": [], "term": {"k": "switch", "discr": args[0], "discr_ty": "bool", "targets": [[0, BM, None]], "otherwise": BH, "line": line,
                                               "comb": "then_some"}}
        bh = {"id": BH, "stmts": [asg(copy.deepcopy(dst), {"k": "aggregate", "agg": "adt", "adt": enum, "variant": "Some", "fields": ["0"], "ops": [args[1]]})],
              "term": {"k": "goto", "target": target, "line": line}}
        bm = {"id": BM, "stmts": [asg(copy.deepcopy(dst), {"k": "aggregate", "agg": "adt", "adt": enum, "variant": "None", "fields": [], "ops": []})],
              "term": {"k": "goto", "target": target, "line": line}}
        c["blocks"].extend([sw, bh, bm])
        blk["term"] = {"k": "goto", "target": BS, "line": line}
        self.report.append(("then_some", c["key"], line))
        return True

    def run(self):
        gone = set()
        progress = True
        rounds = 0
        while progress and rounds < 8:
            progress = False
            rounds += 1
            for c in list(self.inl.funcs):
                if c["key"] in gone or c.get("derived"):
                    continue
                for blk in list(c["blocks"]):
                    t = blk["term"]
                    if t["k"] == "call" and t["callee"].get("key") in LOOP_HOFS:
                        ck = self.one(c, blk)
                        if ck:
                            gone.add(ck)
                            progress = True
                    elif t["k"] == "call" and t["callee"].get("key") in COMBINATORS:
                        ck = self.comb(c, blk)
                        if ck:
                            gone.add(ck)
                            progress = True
                    elif t["k"] == "call" and t["callee"].get("key") == "bool::then":
                        ck = self.then(c, blk)
                        if ck:
                            gone.add(ck)
                            progress = True
                    elif t["k"] == "call" and t["callee"].get("key") == "bool::then_some":
                        if self.then_some(c, blk):
                            progress = True
        gone |= set(self.extra_gone)
        if gone:
            def dead(k):
                return any(k == g or k.startswith(g + "::{closure#") for g in gone)
            self.inl.funcs[:] = [d for d in self.inl.funcs if not dead(d["key"])]
        return self.report


# ---------------------------------------------------------------------------------------------------------------------
# A10: jump threading of `?`.  Where a Result that is visibly `Ok(..)` or an error propagation (`from_residual`, `Err(..)`)
# flows - through moves and drop glue only - into the `branch` of a `?`, the block that decides Continue/Break is
# duplicated for that definition and continues in the arm that definition selects.  Hand-written loops already have this
# shape; desugared try_fold / try_for_each bodies (A9) get it here, so dominance questions ("can the error edge of this
# call reach the Ok return?") have the same answer for both.
BRANCH = "std::ops::Try::branch"
FROM_RES = "std::ops::FromResidual::from_residual"


def _succs(b):
    t = b["term"]
    k = t["k"]
    if k == "call":
        return [t["target"]] if t["target"] is not None else []
    if k in ("goto", "drop", "assert"):
        return [t["target"]]
    if k == "switch":
        return [x[1] for x in t["targets"]] + [t["otherwise"]]
    return []


def _branch_arms(by_id, m):
    """for block m ending in `br = branch(move x) -> m2` with m2 = `d = discriminant(br); switch d`: (x local, {Continue: b, Break: b})"""
    t = m["term"]
    if t["k"] != "call" or t["callee"].get("key") != BRANCH or t["target"] is None or len(t["args"]) != 1:
        return None
    a = t["args"][0]
    if a.get("k") not in ("copy", "move") or a["place"]["p"]:
        return None
    m2 = by_id.get(t["target"])
    if m2 is None or m2["term"]["k"] != "switch" or "discr_of" not in m2["term"]:
        return None
    sw = m2["term"]
    if sw["discr_of"]["l"] != t["dst"]["l"] or sw["discr_of"]["p"]:
        return None
    if any(st["k"] != "assign" or st["rv"]["k"] != "discriminant" for st in m2["stmts"]):
        return None
    arms = {n: bb for v, bb, n in sw["targets"]}
    if "Continue" not in arms or "Break" not in arms:
        return None
    return a["place"]["l"], arms


def _only_glue(b):
    """the block's statements are drop flags, plain moves and discriminant reads (safe to duplicate)"""
    for st in b["stmts"]:
        if st["k"] != "assign" or st["dst"]["p"]:
            return False
        rv = st["rv"]
        if rv["k"] == "discriminant":
            continue
        if rv["k"] == "use" and (rv["op"].get("k") == "const" or (rv["op"].get("k") in ("copy", "move") and not rv["op"]["place"]["p"])):
            continue
        return False
    return True


def _discr_switch(b):
    """block `d = discriminant(x); switch d` on a whole local x (nothing else in the block): (x, {variant name: target})"""
    t = b["term"]
    if t["k"] != "switch" or "discr_of" not in t or t["discr_of"]["p"]:
        return None
    nd = 0
    for st in b["stmts"]:
        if st["k"] != "assign" or st["dst"]["p"]:
            return None
        rv = st["rv"]
        if rv["k"] == "discriminant" and not rv["place"]["p"] and rv["place"]["l"] == t["discr_of"]["l"]:
            nd += 1
        elif rv["k"] == "discriminant":
            continue        # drop elaboration reads discriminants of other places: pure
        elif rv["k"] == "use" and rv["op"].get("k") == "const":
            continue        # drop flags
        elif rv["k"] == "use" and rv["op"].get("k") in ("copy", "move") and not rv["op"]["place"]["p"]:
            continue        # plain moves (the scrutinee temporary of a desugared combinator)
        else:
            return None
    if nd != 1:
        return None
    return t["discr_of"]["l"], {n: bb for v, bb, n in t["targets"]}


def thread_function(c, max_region=40):
    by_id = {b["id"]: b for b in c["blocks"]}
    n = 0
    # split blocks after a statement that builds Result::Ok / Result::Err so that the definition ends its block
    for b in list(c["blocks"]):
        for i, st in enumerate(b["stmts"]):
            if i < len(b["stmts"]) - 1 and st["k"] == "assign" and not st["dst"]["p"] and st["rv"]["k"] == "aggregate" and st["rv"].get("adt") in ("std::result::Result", "std::option::Option"):
                nid = max(by_id) + 1
                nb = {"id": nid, "stmts": b["stmts"][i + 1:], "term": b["term"]}
                b["stmts"] = b["stmts"][:i + 1]
                b["term"] = {"k": "goto", "target": nid, "line": st.get("line", 0)}
                c["blocks"].append(nb)
                by_id[nid] = nb
                break
    sites = []
    for b in c["blocks"]:
        t = b["term"]
        if t["k"] == "call" and not t["dst"]["p"] and t["callee"].get("key") == FROM_RES and t["target"] is not None:
            sites.append((b, "Break", t["dst"]["l"], "Err"))
        elif t["k"] in ("goto", "drop") and b["stmts"]:
            st = b["stmts"][-1]
            if st["k"] == "assign" and not st["dst"]["p"] and st["rv"]["k"] == "aggregate" and st["rv"].get("adt") == "std::result::Result":
                sites.append((b, "Break" if st["rv"]["variant"] == "Err" else "Continue", st["dst"]["l"], st["rv"]["variant"]))
            elif st["k"] == "assign" and not st["dst"]["p"] and st["rv"]["k"] == "aggregate" and st["rv"].get("adt") == "std::option::Option":
                sites.append((b, None, st["dst"]["l"], st["rv"]["variant"]))
    for b, arm, l0, vname in sites:
        start = b["term"]["target"]
        region, ms = [], []
        seen = set()
        stack = [start]
        ok = True
        while stack and ok:
            x = stack.pop()
            if x in seen:
                continue
            seen.add(x)
            xb = by_id.get(x)
            if xb is None or x == b["id"]:
                ok = False
                break
            if xb["term"]["k"] == "unreachable":
                continue
            if _branch_arms(by_id, xb) is not None and _only_glue(xb):
                ms.append(xb)
                continue
            if _discr_switch(xb) is not None:
                ms.append(xb)
                continue
            if xb["term"]["k"] in ("call", "return", "tailcall", "other"):
                ok = False
                break
            region.append(xb)
            if len(region) > max_region:
                ok = False
                break
            stack.extend(_succs(xb))
        if arm is None:
            # an Option has no `branch`: only direct matches on it are threaded
            ms = [m for m in ms if _branch_arms(by_id, m) is None]
        if not ok or not ms:
            continue
        # locals that hold the value on the way
        tracked = {l0}
        changed = True
        while changed:
            changed = False
            for xb in region + ms:
                for st in xb["stmts"]:
                    if st["k"] == "assign" and not st["dst"]["p"] and st["rv"]["k"] == "use" and st["rv"]["op"].get("k") in ("copy", "move") and \
                            not st["rv"]["op"]["place"]["p"] and st["rv"]["op"]["place"]["l"] in tracked and st["dst"]["l"] not in tracked:
                        tracked.add(st["dst"]["l"])
                        changed = True
        # nothing else may define the tracked locals inside the region
        bad = False
        for xb in region:
            for st in xb["stmts"]:
                if st["dst"]["l"] in tracked and not (st["k"] == "assign" and st["rv"]["k"] == "use" and st["rv"]["op"].get("k") in ("copy", "move") and
                                                      not st["rv"]["op"]["place"]["p"] and st["rv"]["op"]["place"]["l"] in tracked):
                    bad = True
        def m_local(m):
            ba = _branch_arms(by_id, m)
            return ba[0] if ba is not None else _discr_switch(m)[0]
        if bad or any(m_local(m) not in tracked for m in ms):
            continue
        base = max(by_id) + 1
        idmap = {xb["id"]: base + k for k, xb in enumerate(region + ms)}

        def bm(x):
            return idmap.get(x, x)
        for xb in region + ms:
            q = copy.deepcopy(xb)
            q["id"] = idmap[xb["id"]]
            t2 = q["term"]
            k2 = t2["k"]
            if xb in ms and _branch_arms(by_id, xb) is None:
                # a `match` on the value itself: continue in the arm of the visible constructor
                arms2 = _discr_switch(xb)[1]
                tgt = arms2.get(vname)
                if tgt is None:
                    tgt = t2["otherwise"]
                q["term"] = {"k": "goto", "target": tgt, "line": t2.get("line", 0), "threaded": vname}
            elif xb in ms:
                t2["target"] = _branch_arms(by_id, xb)[1][arm]
                t2["threaded"] = arm
            elif k2 in ("goto", "drop", "assert"):
                t2["target"] = bm(t2["target"])
            elif k2 == "switch":
                t2["targets"] = [[v, bm(bb), nm] for v, bb, nm in t2["targets"]]
                t2["otherwise"] = bm(t2["otherwise"])
            c["blocks"].append(q)
            by_id[q["id"]] = q
        b["term"]["target"] = bm(start)
        n += 1
    return n


def _rekey(data, old, new):
    """rename function `old` to `new` everywhere in the facts (definitions, closures, callees, function items, impls)"""
    pre_o, pre_n = old + "::{closure#", new + "::{closure#"

    def rk(k):
        if k == old:
            return new
        if isinstance(k, str) and k.startswith(pre_o):
            return pre_n + k[len(pre_o):]
        return k

    def walk(o):
        if isinstance(o, dict):
            for kk in ("key", "parent", "resolved", "fn", "closure", "item"):
                if kk in o and isinstance(o[kk], str):
                    o[kk] = rk(o[kk])
            for v in o.values():
                walk(v)
        elif isinstance(o, list):
            for v in o:
                walk(v)
    walk(data["functions"])
    walk(data.get("impls", []))


def match_renames(data, known_keys):
    """A14: a known private function that disappeared while exactly one new private function with the same home (module /
    impl), the same parameter and return types appeared is that function under a new name: the facts are re-keyed to the
    known name, so the rules keep their anchor.  Anything ambiguous is left alone (the anchor then fails closed)."""
    present = {d["key"] for d in data["functions"]}
    by_key = {d["key"]: d for d in data["functions"]}
    new = [d for d in data["functions"] if d["kind"] in ("fn", "assoc") and d["key"] not in known_keys and not d["derived"] and not d.get("exp")
           and d["vis"] != "pub" and not d.get("impl_trait") and not d.get("in_trait")]
    if not new:
        return {}
    sigs = known_signatures()
    missing = [k for k in known_keys if k not in present and k in sigs and k not in ALWAYS_INLINE]
    out = {}
    for k in missing:
        home = k.rsplit("::", 1)[0]
        cands = [d for d in new if d["key"].rsplit("::", 1)[0] == home and
                 [l["s"] for l in d["locals"][:d["arg_count"] + 1]] == sigs[k]]
        others = [k2 for k2 in missing if k2 != k and k2.rsplit("::", 1)[0] == home and sigs[k2] == sigs[k]]
        if len(cands) == 1 and not others:
            out[k] = cands[0]["key"]
            continue
        # moved to another module / impl block under the same name
        name = k.rsplit("::", 1)[-1]
        cands = [d for d in new if d["key"].rsplit("::", 1)[-1] == name and [l["s"] for l in d["locals"][:d["arg_count"] + 1]] == sigs[k]]
        others = [k2 for k2 in missing if k2 != k and k2.rsplit("::", 1)[-1] == name and sigs[k2] == sigs[k]]
        if len(cands) == 1 and not others:
            out[k] = cands[0]["key"]
    used = set()
    for k, n in list(out.items()):
        if n in used:
            out.pop(k)
        used.add(n)
    for k, n in out.items():
        _rekey(data, n, k)
    return out


_SIGS = None


def known_signatures():
    """{function key: [return type, parameter types..]} recorded with the rule tables (tools/freeze_params.py)"""
    global _SIGS
    if _SIGS is None:
        import json
        import os
        p = os.path.join(os.path.dirname(os.path.abspath(__file__)), "known_sigs.json")
        _SIGS = {}
        if os.path.exists(p):
            with open(p) as fh:
                _SIGS = json.load(fh)
    return _SIGS


def fold_known_switches(c):
    """after threading, a `match x` may be left with only definitions of one visible constructor reaching it (the others
    were redirected past it): the match is then decided - replace it by a jump to that arm.
    (`let mut found = None; for .. { if p { found = Some(v); break } } match found { .. }`: the Some definition is threaded
    into its arm, what still reaches the match is the initial None.)"""
    by_id = {b["id"]: b for b in c["blocks"]}
    succ = {b["id"]: [x for x in _succs(b) if x in by_id] for b in c["blocks"]}
    # definitions of whole locals with their visible constructor (None = unknown)
    defs = {}

    def cls(rv, depth=0):
        if rv["k"] == "aggregate" and rv.get("adt") in ("std::option::Option", "std::result::Result"):
            return rv["variant"]
        if rv["k"] == "use" and rv["op"].get("k") in ("copy", "move") and not rv["op"]["place"]["p"] and depth < 4:
            src = rv["op"]["place"]["l"]
            ds = single.get(src)
            if ds is not None:
                return cls(ds, depth + 1)
        return None
    single = {}
    count = {}
    for b in c["blocks"]:
        for st in b["stmts"]:
            if st["k"] == "assign" and not st["dst"]["p"]:
                count[st["dst"]["l"]] = count.get(st["dst"]["l"], 0) + 1
                single[st["dst"]["l"]] = st["rv"]
        t = b["term"]
        if t["k"] == "call" and not t["dst"]["p"]:
            count[t["dst"]["l"]] = count.get(t["dst"]["l"], 0) + 2
    single = {l: rv for l, rv in single.items() if count.get(l) == 1}
    for b in c["blocks"]:
        for st in b["stmts"]:
            if st["k"] == "assign" and not st["dst"]["p"]:
                defs.setdefault(st["dst"]["l"], []).append((b["id"], cls(st["rv"])))
            elif st["k"] == "setdiscr" or (st["k"] == "assign" and st["dst"]["p"]):
                defs.setdefault(st["dst"]["l"], []).append((b["id"], None))
        t = b["term"]
        if t["k"] == "call":
            defs.setdefault(t["dst"]["l"], []).append((b["id"], None))
            # a `&mut x` handed to a call may change x: treated as unknown if x's address is taken mutably anywhere
    mut_borrowed = set()
    for b in c["blocks"]:
        for st in b["stmts"]:
            if st["k"] == "assign" and st["rv"]["k"] == "ref" and st["rv"].get("mut"):
                mut_borrowed.add(st["rv"]["place"]["l"])
    entry = c["blocks"][0]["id"] if c["blocks"] else None
    live = set()
    stack = [entry]
    while stack:
        y = stack.pop()
        if y in live or y is None:
            continue
        live.add(y)
        stack.extend(succ.get(y, []))
    for l in list(defs):
        defs[l] = [(bid, k) for bid, k in defs[l] if bid in live]
    n = 0
    for m in c["blocks"]:
        ds = _discr_switch(m)
        if ds is None or m["id"] not in live:
            continue
        x, arms = ds
        # the scrutinee may be a fresh temporary moved from the variable: look through plain moves inside the block
        src = x
        for st in m["stmts"]:
            if st["k"] == "assign" and st["dst"]["l"] == src and st["rv"]["k"] == "use" and st["rv"]["op"].get("k") in ("copy", "move") and not st["rv"]["op"]["place"]["p"]:
                src = st["rv"]["op"]["place"]["l"]
        if src <= c["arg_count"] or src in mut_borrowed or src not in defs:
            continue
        dblocks = {bid for bid, k in defs[src] if bid != m["id"]}
        reaching = set()
        unknown = False
        for bid, k in defs[src]:
            if bid == m["id"]:
                continue
            # does this definition reach m without passing another definition block of src?
            seen = set()
            stack = list(succ.get(bid, []))
            hit = False
            while stack:
                y = stack.pop()
                if y in seen:
                    continue
                seen.add(y)
                if y == m["id"]:
                    hit = True
                    break
                if y in dblocks:
                    continue
                stack.extend(succ.get(y, []))
            if hit:
                # the last definition in that block counts
                last = [k2 for b2, k2 in defs[src] if b2 == bid][-1]
                if last is None:
                    unknown = True
                reaching.add(last)
        # reachable from the entry without any definition?
        seen = set()
        stack = [entry]
        while stack:
            y = stack.pop()
            if y in seen:
                continue
            seen.add(y)
            if y == m["id"]:
                unknown = True
                break
            if y in dblocks:
                continue
            stack.extend(succ.get(y, []))
        if unknown or len(reaching) != 1:
            continue
        v = next(iter(reaching))
        t = m["term"]
        tgt = arms.get(v, t["otherwise"])
        m["term"] = {"k": "goto", "target": tgt, "line": t.get("line", 0), "folded": v}
        n += 1
    return n


def thread_bool_temps(c, max_region=30):
    """A15: `matches!(..)`, `let flag = <match producing true/false>; if flag`, and the `false` / `true` short-circuit arm
    of `&&` / `||` all park a constant in a bool temporary and branch on it after a join.  Each block that assigns the
    constant is redirected straight to the successor that constant selects (the join and the branch are duplicated for
    it), so that dominance sees the conditions that led to the constant."""
    by_id = {b["id"]: b for b in c["blocks"]}
    n = 0
    # split so that `x = const bool` ends its block
    for b in list(c["blocks"]):
        for i, st in enumerate(b["stmts"]):
            if i < len(b["stmts"]) - 1 and st["k"] == "assign" and not st["dst"]["p"] and st["rv"]["k"] == "use" and st["rv"]["op"].get("k") == "const" and \
                    st["rv"]["op"].get("ck") == "bool" and c["locals"][st["dst"]["l"]].get("s") == "bool":
                nid = max(by_id) + 1
                nb = {"id": nid, "stmts": b["stmts"][i + 1:], "term": b["term"]}
                b["stmts"] = b["stmts"][:i + 1]
                b["term"] = {"k": "goto", "target": nid, "line": st.get("line", 0)}
                c["blocks"].append(nb)
                by_id[nid] = nb
                break
    sites = []
    for b in c["blocks"]:
        if b["term"]["k"] == "goto" and b["stmts"]:
            st = b["stmts"][-1]
            if st["k"] == "assign" and not st["dst"]["p"] and st["rv"]["k"] == "use" and st["rv"]["op"].get("k") == "const" and st["rv"]["op"].get("ck") == "bool":
                sites.append((b, st["dst"]["l"], st["rv"]["op"]["int"]))
    for b, l0, val in sites:
        start = b["term"]["target"]
        region, ms = [], []
        seen = set()
        stack = [start]
        ok = True
        tracked = {l0}
        while stack and ok:
            x = stack.pop()
            if x in seen:
                continue
            seen.add(x)
            xb = by_id.get(x)
            if xb is None or x == b["id"]:
                ok = False
                break
            t = xb["term"]
            if t["k"] == "unreachable":
                continue
            # plain moves of the tracked value
            for st in xb["stmts"]:
                if st["k"] == "assign" and not st["dst"]["p"] and st["rv"]["k"] == "use" and st["rv"]["op"].get("k") in ("copy", "move") and \
                        not st["rv"]["op"]["place"]["p"] and st["rv"]["op"]["place"]["l"] in tracked:
                    tracked.add(st["dst"]["l"])
                elif st["dst"]["l"] in tracked:
                    ok = False
            if not ok:
                break
            if t["k"] == "switch" and "discr_of" not in t and t.get("discr_ty") == "bool" and t["discr"].get("k") in ("copy", "move") and \
                    not t["discr"]["place"]["p"] and t["discr"]["place"]["l"] in tracked:
                ms.append(xb)
                continue
            if t["k"] in ("call", "return", "tailcall", "other", "switch"):
                ok = False
                break
            region.append(xb)
            if len(region) > max_region:
                ok = False
                break
            stack.extend(_succs(xb))
        if not ok or not ms:
            continue
        base = max(by_id) + 1
        idmap = {xb["id"]: base + k for k, xb in enumerate(region + ms)}

        def bm(x):
            return idmap.get(x, x)
        for xb in region + ms:
            q = copy.deepcopy(xb)
            q["id"] = idmap[xb["id"]]
            t2 = q["term"]
            k2 = t2["k"]
            if xb in ms:
                tgt = t2["otherwise"]
                for v, bb, nm in t2["targets"]:
                    if (v != 0) == bool(val):
                        tgt = bb
                q["term"] = {"k": "goto", "target": tgt, "line": t2.get("line", 0), "threaded": "bool:%s" % val}
            elif k2 in ("goto", "drop", "assert"):
                t2["target"] = bm(t2["target"])
            c["blocks"].append(q)
            by_id[q["id"]] = q
        b["term"]["target"] = bm(start)
        n += 1
    return n


def align_params(data):
    """A16: a known private function whose parameters were reordered, or that lost its `self` (method -> associated function),
    is brought back to the parameter order the rule tables were confirmed with (vlib/frozen_params.json): the parameter
    locals are renumbered in its body and the arguments permuted (a unit constant for a dropped `self`) at every call
    site.  Only when the actual parameter names are the frozen ones, possibly without `self`, in another order (renamed
    parameters are paired with the frozen names that disappeared when that pairing is forced); anything else (a new
    parameter, several renamed-and-moved ones) is left as it is."""
    from .facts import frozen_params
    fz_all = frozen_params()
    done = {}
    for d in data["functions"]:
        fz = fz_all.get(d["key"])
        if not fz or d.get("derived") or d.get("kind") not in ("fn", "assoc") or d.get("vis") == "pub":
            continue
        argc = d["arg_count"]
        actual = {}
        for n in d["names"]:
            pl = n["place"]
            if not pl["p"] and 1 <= pl["l"] <= argc:
                actual.setdefault(pl["l"], n["name"])
        names = [actual.get(i) for i in range(1, argc + 1)]
        if None in names or len(set(names)) != len(names) or names == fz:
            continue
        if len(set(fz)) != len(fz):
            continue
        # (parameters renamed on the way: the ones that keep their name anchor the order; the renamed ones are paired, in
        #  order, with the frozen names nobody has any more -- only when that pairing is forced: a single renamed
        #  parameter, or the kept ones not having moved at all)
        fresh = [x for x in names if x not in fz]
        if fresh:
            gone = [x for x in fz if x not in names and not (x == "self" and fz[0] == "self" and argc == len(fz) - 1)]
            kept = [x for x in names if x in fz]
            if len(gone) != len(fresh) or (len(fresh) > 1 and kept != [x for x in fz if x in kept]):
                continue
            ren = dict(zip(fresh, gone))
            names = [ren.get(x, x) for x in names]
            if names == fz:
                continue
        missing = [x for x in fz if x not in names]
        if set(names) - set(fz) or missing not in ([], ["self"]):
            continue
        if not missing and len(fz) != argc:
            continue
        new_of = {i + 1: fz.index(nm) + 1 for i, nm in enumerate(names)}      # old parameter local -> new parameter local
        shift = len(fz) - argc                                                 # (1 when `self` is re-inserted)

        def lm(l, new_of=new_of, argc=argc, shift=shift):
            if 1 <= l <= argc:
                return new_of[l]
            return l + shift if l > argc else l
        for b in d["blocks"]:
            _map_block(b, lm, lambda x: x, lambda c: None)
        for n in d["names"]:
            _map_place(n["place"], lm)
        old_locals = d["locals"]
        new_locals = [None] * (len(old_locals) + shift)
        for l, ty in enumerate(old_locals):
            new_locals[lm(l)] = ty
        for i in range(len(new_locals)):
            if new_locals[i] is None:
                new_locals[i] = {"s": "()"}                                    # the dropped `self`: never mentioned in the body
        d["locals"] = new_locals
        d["arg_count"] = len(fz)
        done[d["key"]] = (new_of, len(fz), argc)
    if not done:
        return []
    for d in data["functions"]:
        for b in d["blocks"]:
            t = b["term"]
            if t["k"] not in ("call", "tailcall") or t["callee"].get("key") not in done or not t["callee"].get("local"):
                continue
            new_of, n_new, argc = done[t["callee"]["key"]]
            if len(t["args"]) != argc:
                continue
            args = [{"k": "const", "ty": "()", "ck": "zst_or_other", "text": "()"} for _ in range(n_new)]
            ins = [{"s": "()"} for _ in range(n_new)]
            old_ins = t["callee"].get("inputs") or []
            for i, a in enumerate(t["args"]):
                args[new_of[i + 1] - 1] = a
                if i < len(old_ins):
                    ins[new_of[i + 1] - 1] = old_ins[i]
            t["args"] = args
            if old_ins:
                t["callee"]["inputs"] = ins
    return sorted(done)


def library_equivalents(data):
    """A17: two spellings of one library operation are brought to the one the rule tables were confirmed with:
    `d.to_uint_floor()` (cosmwasm-std `Decimal`) is `Uint128::new(1).mul_floor(d)` - both are floor(atomics / 10^18)."""
    n = 0
    for c in data["functions"]:
        if c.get("derived"):
            continue
        for blk in list(c["blocks"]):
            t = blk["term"]
            if t["k"] != "call" or t["callee"].get("key") != "cosmwasm_std::Decimal::to_uint_floor" or len(t["args"]) != 1 or t["target"] is None:
                continue
            line = t.get("line", 0)
            L = len(c["locals"])
            c["locals"].append({"s": "cosmwasm_std::Uint128", "adt": "cosmwasm_std::Uint128"})
            nb = max(b["id"] for b in c["blocks"]) + 1
            c["blocks"].append({"id": nb, "stmts": [], "term": {
                "k": "call", "callee": {"key": "cosmwasm_std::Uint128::mul_floor", "local": False, "name": "mul_floor", "gargs": ["cosmwasm_std::Decimal", "cosmwasm_std::Uint128"],
                                        "self_adt": "cosmwasm_std::Uint128", "inputs": [{"s": "cosmwasm_std::Uint128", "adt": "cosmwasm_std::Uint128"}, {"s": "F", "param": True}],
                                        "output": "cosmwasm_std::Uint128"},
                "args": [_mv(L), t["args"][0]], "dst": t["dst"], "target": t["target"], "line": line}})
            blk["term"] = {"k": "call", "callee": {"key": "cosmwasm_std::Uint128::new", "local": False, "name": "new", "gargs": [], "self_adt": "cosmwasm_std::Uint128",
                                                    "inputs": [{"s": "u128"}], "output": "cosmwasm_std::Uint128"},
                           "args": [{"k": "const", "ty": "u128", "ck": "int", "int": 1, "text": "1_u128"}], "dst": _pl(L), "target": nb, "line": line}
            n += 1
    return n


def normalise(data, known_keys):
    """splice new private helpers of data['functions'] into their callers; returns a report dict"""
    library_equivalents(data)
    renamed = match_renames(data, known_keys)
    aligned = align_params(data)
    inl = Inliner(data["functions"], known_keys)
    removed = inl.run()
    hofs = Desugarer(inl).run()
    threaded = 0
    for d in data["functions"]:
        if not d.get("derived"):
            for _ in range(4):
                k = thread_function(d) + thread_bool_temps(d)
                if k:
                    k += fold_known_switches(d)
                threaded += k
                if not k:
                    break
    rm = set(removed)
    if rm:
        for imp in data.get("impls", []):
            imp["methods"] = [m for m in imp.get("methods", []) if m.get("key") not in rm]
    rep = {}
    for h, c, line in inl.report:
        rep.setdefault(h, []).append("%s:%d" % (c, line))
    return {"spliced": rep, "removed": removed, "loops": ["%s in %s:%d" % h for h in hofs], "threaded": threaded, "renamed": renamed, "aligned": aligned}
