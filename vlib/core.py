"""Rule framework: obligations, findings, evidence, known findings."""
import hashlib
import json
import os
import re
import time

from . import extract
from .facts import Facts
from .prov import Prov

VERIF = extract.VERIF
EVIDENCE_DIR = os.path.join(VERIF, "evidence")
KNOWN = os.path.join(VERIF, "KNOWN_FINDINGS.txt")


class Finding:
    def __init__(self, prop, rule, fn_key, instance, message, file=None, line=None, config=None, details=None):
        self.prop = prop
        self.rule = rule
        self.fn_key = fn_key or "-"
        self.instance = instance
        self.message = message
        self.file = file
        self.line = line
        self.configs = [config] if config else []
        self.details = details or {}

    @property
    def key(self):
        return "%s|%s|%s" % (self.rule, self.fn_key, self.instance)

    def to_json(self):
        return {
            "property": self.prop, "rule": self.rule, "function": self.fn_key, "instance": self.instance,
            "key": self.key, "message": self.message, "file": self.file, "line": self.line,
            "configs": self.configs, "details": self.details,
        }


class Cfg:
    """one analysed feature configuration"""

    def __init__(self, name, facts):
        self.name = name
        self.facts = facts
        self.prov = Prov(facts)
        self.features = set()
        if name == "all-features":
            self.features = {"staking", "stargate", "cosmwasm_1_1", "cosmwasm_1_2", "cosmwasm_1_3", "cosmwasm_1_4",
                             "cosmwasm_2_0", "cosmwasm_2_1", "cosmwasm_2_2", "backtrace"}
        else:
            for part in name.split("-"):
                if part != "default":
                    self.features.add(part)
            chain = ["cosmwasm_1_1", "cosmwasm_1_2", "cosmwasm_1_3", "cosmwasm_1_4", "cosmwasm_2_0", "cosmwasm_2_1",
                     "cosmwasm_2_2"]
            for i, f in enumerate(chain):
                if f in self.features:
                    self.features.update(chain[:i])

    def has(self, feature):
        return feature in self.features


class Ctx:
    def __init__(self, prop, cfgs, tier):
        self.prop = prop
        self.cfgs = cfgs
        self.tier = tier
        self.obligations = 0
        self.discharged = 0
        self.findings = {}
        self.samples = []
        self.rule_counts = {}
        self.sites = 0
        self.notes = []
        self.cur = None  # current Cfg

    # ---------------------------------------------------------------- recording
    def ob(self, rule, fn_key, instance, ok, message="", fn=None, line=None, sample=None, details=None):
        """record one obligation (rule instance in the current config)"""
        self.obligations += 1
        rc = self.rule_counts.setdefault(rule, {"obligations": 0, "discharged": 0, "instances": set()})
        rc["obligations"] += 1
        rc["instances"].add((fn_key or "-", instance))
        if ok:
            self.discharged += 1
            rc["discharged"] += 1
            if sample is not None or len(self.samples) < 400:
                self.samples.append({"rule": rule, "function": fn_key, "instance": instance,
                                     "config": self.cur.name if self.cur else None,
                                     "at": ("%s:%s" % (fn.file, line or fn.line)) if fn is not None else None,
                                     "decided_by": sample if sample is not None else message})
            return True
        f = Finding(self.prop, rule, fn_key, instance, message,
                    file=fn.file if fn is not None else None,
                    line=line or (fn.line if fn is not None else None),
                    config=self.cur.name if self.cur else None, details=details)
        old = self.findings.get(f.key)
        if old is not None:
            if f.configs and f.configs[0] not in old.configs:
                old.configs.extend(f.configs)
        else:
            self.findings[f.key] = f
        return False

    def fail(self, rule, fn_key, instance, message, fn=None, line=None, details=None):
        return self.ob(rule, fn_key, instance, False, message, fn=fn, line=line, details=details)

    def floor(self, rule, what, count, expected):
        """fail closed when a rule matched fewer sites than were confirmed by hand"""
        return self.ob(rule, "-", "floor:" + what, count >= expected,
                       "%s: matched %d sites, floor %d" % (what, count, expected),
                       sample="matched %d >= floor %d" % (count, expected))

    def need_fn(self, rule, key):
        """anchor lookup; a missing anchor is a failure"""
        f = self.cur.facts.fn(key)
        if f is None:
            self.fail(rule, key, "anchor-missing", "anchor function %s not found in config %s" % (key, self.cur.name))
        return f

    def count_sites(self, n=1):
        self.sites += n

    def note(self, text):
        self.notes.append(text)


def load_cfgs(config_names, repo=None, log=None):
    cfgs = []
    for name in config_names:
        p = extract.extract(name, repo=repo, log=log)
        facts = Facts(p)
        if repo is None or repo == extract.REPO:
            msg = extract.check_size(facts)
            if msg:
                raise extract.ExtractError(msg)
        cfgs.append(Cfg(name, facts))
    return cfgs


# -------------------------------------------------------------------- known findings
def load_known():
    """returns {(property, key): text} for `finding:` lines; `fixed:` lines suppress nothing"""
    known = {}
    if not os.path.exists(KNOWN):
        return known
    with open(KNOWN) as fh:
        for line in fh:
            line = line.strip()
            if not line.startswith("finding:"):
                continue
            m = re.match(r"finding:\s+property=(\S+)\s+key=(.+?)\s+::\s+(.*)$", line)
            if m:
                known[(m.group(1), m.group(2))] = m.group(3)
    return known


def sanitize(key):
    s = re.sub(r"[^A-Za-z0-9_.-]+", "_", key)
    if len(s) > 120:
        s = s[:100] + "_" + hashlib.sha1(key.encode()).hexdigest()[:12]
    return s


def finish(ctx, level, explanation, checker_cmd, trusted_base, assumptions, t0, seed=0, extra=None):
    """write evidence, print verdict lines, return exit code"""
    known = load_known()
    os.makedirs(EVIDENCE_DIR, exist_ok=True)
    vdir = os.path.join(EVIDENCE_DIR, "violations", ctx.prop)
    if os.path.isdir(vdir):
        for f in os.listdir(vdir):
            os.remove(os.path.join(vdir, f))
    new = []
    kn = []
    for key, f in sorted(ctx.findings.items()):
        if (ctx.prop, key) in known:
            kn.append((f, known[(ctx.prop, key)]))
        else:
            new.append(f)
    for f, text in kn:
        print("KNOWN-FINDING: property=%s %s" % (ctx.prop, text))
    for f in new:
        os.makedirs(vdir, exist_ok=True)
        path = os.path.join(vdir, sanitize(f.key) + ".json")
        with open(path, "w") as fh:
            json.dump(f.to_json(), fh, indent=1)
        where = "%s:%s" % (f.file, f.line) if f.file else "-"
        print("  [%s] %s %s (%s) configs=%s: %s" % (f.rule, f.fn_key, f.instance, where, ",".join(f.configs), f.message))
        print("VIOLATION property=%s replay=%s" % (ctx.prop, path))
    rules = {}
    for r, c in sorted(ctx.rule_counts.items()):
        rules[r] = {"obligations": c["obligations"], "discharged": c["discharged"], "distinct_instances": len(c["instances"])}
    distinct = sum(len(c["instances"]) for c in ctx.rule_counts.values())
    # spread samples over rules
    samples = []
    per_rule = {}
    for sm in ctx.samples:
        if per_rule.get(sm["rule"], 0) < 3:
            per_rule[sm["rule"]] = per_rule.get(sm["rule"], 0) + 1
            samples.append(sm)
    if seed:
        import random
        random.Random(seed).shuffle(samples)
    coverage = {
        "explanation": explanation,
        "checker_cmd": checker_cmd,
        "trusted_base": trusted_base,
        "obligations": ctx.obligations,
        "discharged": ctx.discharged + len(kn) if False else ctx.discharged,
        "evaluations": max(ctx.sites, ctx.obligations),
        "distinct_nontrivial": distinct,
        "rule": "one obligation per (rule instance, feature configuration); an instance is a frozen anchor "
                "(function key + site description) from DESIGN.md §5; distinct = distinct (rule, function, instance) "
                "triples that were evaluated against the type-checked program",
        "samples": samples[:40],
        "configs": [c.name for c in ctx.cfgs],
        "functions_analysed": {c.name: len(c.facts.fns) for c in ctx.cfgs},
        "call_sites": {c.name: c.facts.n_calls() for c in ctx.cfgs},
        "rules": rules,
        "known_findings_reported": [f.key for f, _ in kn],
        "new_violations": [f.key for f in new],
        "notes": ctx.notes,
        "exhaustive": True,
    }
    if extra:
        coverage.update(extra)
    ev = {
        "property_id": ctx.prop,
        "tier": ctx.tier,
        "seed": seed,
        "level": level,
        "coverage": coverage,
        "assumptions": assumptions,
        "wall_s": round(time.time() - t0, 3),
        "violations": len(new),
    }
    with open(os.path.join(EVIDENCE_DIR, ctx.prop + ".json"), "w") as fh:
        json.dump(ev, fh, indent=1, sort_keys=True)
    print("%s: %d obligations, %d discharged, %d known findings, %d violations (%s, configs: %s)" % (
        ctx.prop, ctx.obligations, ctx.discharged, len(kn), len(new), ctx.tier, ",".join(c.name for c in ctx.cfgs)))
    return 1 if new else 0
