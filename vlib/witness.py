"""Compile-fail witnesses: runs rustdoc tests of the witness crate against /repo's current tree.

Each claim is a `compile_fail,E0xxx` doc test plus a compiling twin; both must behave as declared.
Returns [(name, ok, detail)]. Names are the doc-test item names, lower-cased, e.g.
`c10modulequerycannotwrite#compile_fail`.
"""
import os
import re
import shutil
import subprocess

from . import extract

SRC = os.path.join(extract.VERIF, "witness")


def run(groups=None, repo=None):
    repo = repo or extract.REPO
    run_dir = os.path.join(extract.WORK, "witness-run")
    os.makedirs(os.path.join(run_dir, "src"), exist_ok=True)
    with open(os.path.join(SRC, "Cargo.toml.in")) as fh:
        toml = fh.read().replace("@REPO@", repo)
    with open(os.path.join(run_dir, "Cargo.toml"), "w") as fh:
        fh.write(toml)
    shutil.copy(os.path.join(SRC, "src", "lib.rs"), os.path.join(run_dir, "src", "lib.rs"))
    shutil.copy(os.path.join(repo, "Cargo.lock"), os.path.join(run_dir, "Cargo.lock"))
    env = dict(os.environ, CARGO_NET_OFFLINE="true", CARGO_TARGET_DIR=os.path.join(extract.WORK, "target", "witness"))
    env.pop("RUSTC_WORKSPACE_WRAPPER", None)
    r = subprocess.run(["cargo", "+nightly", "test", "--doc", "--offline"], cwd=run_dir, env=env,
                       stdout=subprocess.PIPE, stderr=subprocess.STDOUT, text=True)
    out = r.stdout
    res = []
    # lines like: test src/lib.rs - C10ModuleQueryCannotWrite (line 8) - compile fail ... ok
    for m in re.finditer(r"^test src/lib\.rs - (\w+) \(line (\d+)\)( - compile fail)? \.\.\. (\w+)", out, re.M):
        name, line, cf, status = m.group(1), m.group(2), m.group(3), m.group(4)
        if groups and not any(name.lower().startswith(g.lower()) for g in groups):
            continue
        kind = "compile_fail" if cf else "twin"
        res.append(("%s#%s" % (name, kind), status == "ok",
                    "%s witness %s (line %s): %s" % (kind, name, line, status)))
    if not res:
        res.append(("witness-run", False, "no witness results parsed; cargo output tail: " + out[-1500:]))
    return res


if __name__ == "__main__":
    for r in run():
        print(r)
