"""A11: what a collection is made of, whatever the syntax that builds it.

`contents(P, F, fn, origin)` reads the origin tree of a Vec-like value and returns its contributions in build order:

    it.filter(p).map(f).collect()                      for x in it { if p(&x) { v.push(f(x)) } }
    v.extend(it.map(f))                                for x in it { v.push(f(x)) }
    vec![a, b]                                         v.push(a); v.push(b)

Each contribution says where its elements come from (`src`: the iterated collection with adapters stripped, None for a
single value), what is stored (`expr`: an origin in which ("bound","elem",src) stands for the element), under which
conditions on the element (`conds`: normalised like q.norm_cond), which order/selection adapters sit in between
(`adapters`), and where the element is processed (`body`: the function - closure or loop owner - and, for loops, the
block of the push) so that a rule can look at the statements applied to the element.
An unrecognised step yields a contribution of kind "opaque" - rules fail closed on those.
"""
from . import q
from .cfg import cfg_of
from .prov import peel, contains, strip_adapters, ELEM_PRESERVING, fmt

COLLECT = ("std::iter::Iterator::collect", "std::iter::FromIterator::from_iter")
EMPTY_CTORS = ("std::vec::Vec::new", "std::vec::Vec::with_capacity", "std::default::Default::default", "std::collections::VecDeque::new",
               "std::collections::VecDeque::with_capacity")
BULK = ("extend", "extend_from_slice", "append")


class Contribution:
    def __init__(self, kind, src=None, expr=None, conds=None, adapters=None, body=None, site=None, how=""):
        self.kind = kind            # "all-of" | "expr" | "single" | "opaque"
        self.src = src
        self.expr = expr
        self.conds = list(conds or [])
        self.adapters = list(adapters or [])
        self.body = body            # Fn in which the element is processed
        self.site = site            # (fn key, block) of the push / extend / collect
        self.how = how

    def is_identity(self):
        e = peel(self.expr) if self.expr is not None else None
        return self.kind in ("all-of", "expr") and e is not None and e[0] == "bound" and e[1] == "elem"

    def __repr__(self):
        return "<%s src=%s expr=%s conds=%s adapters=%s %s>" % (
            self.kind, fmt(self.src)[:40] if self.src else None, fmt(self.expr)[:60] if self.expr else None,
            [(p, pol) for p, a, pol in self.conds], self.adapters, self.how)


def _elem_conds(conds):
    out = []
    for e, c in conds:
        if c[0] == "bool" and not q.is_derived(c) and any(contains(x, lambda y: y[0] == "bound" and y[1] == "elem") for x in c[1][1]):
            out.append(c[1])
    return out


def iter_contribs(P, F, fn, it, site=None):
    """contributions of the elements yielded by iterator origin `it`"""
    o = peel(it)
    if o[0] == "call" and o[1] in ELEM_PRESERVING and o[2]:
        inner = iter_contribs(P, F, fn, o[2][0], site)
        name = o[1].rsplit("::", 1)[-1]
        for c in inner:
            if name == "filter":
                cl = peel(o[2][1]) if len(o[2]) > 1 else ("unknown",)
                g = F.fn(cl[1]) if cl[0] == "closure" else None
                if g is None or c.kind not in ("all-of",):
                    c.kind = "opaque"
                    c.how += " filter(?)"
                else:
                    c.conds.append(q.norm_cond(P.ret(g), True))
                    c.how += " filter"
            else:
                c.adapters.append(name)
        return inner
    if o[0] == "call" and o[1] == "std::iter::Iterator::map" and len(o[2]) == 2:
        inner = iter_contribs(P, F, fn, o[2][0], site)
        cl = peel(o[2][1])
        g = F.fn(cl[1]) if cl[0] == "closure" else None
        for c in inner:
            if g is None or not c.is_identity():
                c.kind = "opaque"
                c.how += " map(?)"
            else:
                c.kind = "expr"
                c.expr = P.ret(g)
                c.body = g
                c.how += " map"
        return inner
    if o[0] == "call" and o[1] == "std::iter::Iterator::chain" and len(o[2]) == 2:
        return iter_contribs(P, F, fn, o[2][0], site) + iter_contribs(P, F, fn, o[2][1], site)
    if o[0] == "call" and o[1].startswith("std::iter::Iterator::"):
        return [Contribution("opaque", how=o[1], site=site)]
    # a collection (value-preserving into_iter / iter already peeled)
    return contents(P, F, fn, it, site)


def contents(P, F, fn, origin, site=None, _depth=0):
    """contributions of collection origin `origin` (see module doc)"""
    if _depth > 6:
        return [Contribution("opaque", how="depth")]
    o = origin
    while o[0] == "vp":
        o = o[2]
    if o[0] == "multi":
        # an Option used as a zero-or-one element sequence (`.chain(cond.then(|| x))`, `.extend(maybe)`): the element, under
        # the conditions of the place where it is made
        al = [a for a in o[1]]
        pa = []
        for a in al:
            while a[0] == "vp":
                a = a[2]
            pa.append(a)
        somes = [a for a in pa if a[0] == "agg" and a[1].endswith("Option::Some")]
        nones = [a for a in pa if a[0] == "agg" and a[1].endswith("Option::None")]
        if len(pa) == 2 and len(somes) == 1 and len(nones) == 1:
            e = somes[0][2][0][1]
            x = e
            while x[0] == "vp":
                x = x[2]
            st = x[4] if x[0] == "call" and len(x) > 4 and isinstance(x[4], tuple) and isinstance(x[4][1], int) else None
            owner = F.fn(st[0]) if st else None
            if owner is None:
                # `cond.then_some(value)`: the value is made before the test; the conditions are those of the place where `Some(value)` is made
                from .prov import same_origin
                hits = [(b0, i0) for b0, i0, st0 in fn.stmts() if st0["k"] == "assign" and st0["rv"].get("k") == "aggregate" and st0["rv"].get("variant") == "Some" and
                        st0["rv"].get("adt") == "std::option::Option" and same_origin(P.rvalue(fn, st0["rv"], (b0, i0)), somes[0])]
                if len(hits) == 1:
                    owner, st = fn, (fn.key, hits[0][0])
            if owner is not None:
                conds = [c1[1] for ee, c1 in q.dominating_conditions(P, owner, st[1]) if c1[0] == "bool" and not q.is_derived(c1)]
                return [Contribution("single", expr=e, conds=conds, body=owner, site=st, how="option")]
        return [Contribution("opaque", how="several definitions")]
    if o[0] == "upd":
        out = contents(P, F, fn, o[1], site, _depth + 1)
        muts = []
        for path, v in o[2]:
            if not (path and path[0] == "&mut"):
                return out + [Contribution("opaque", how="field write")]
            if len(path) > 1:
                continue        # a field of the object, not its elements
            if v[0] == "mutby":
                muts.append(v)
        # build order: by dominance of the mutation sites
        owner = None
        sites = []
        for m in muts:
            fk, mb = m[3]
            g = F.fn(fk)
            if g is None:
                return out + [Contribution("opaque", how="mutation site")]
            owner = g
            sites.append((mb, m))
        if sites:
            cf = cfg_of(owner)
            ordered = []
            rest = list(sites)
            while rest:
                first = [x for x in rest if all(x is y or cf.dominates(x[0], y[0]) or not cf.can_reach(y[0], x[0]) for y in rest)]
                pick = first[0] if first else rest[0]
                ordered.append(pick)
                rest.remove(pick)
            for mb, m in ordered:
                name = m[1].rsplit("::", 1)[-1]
                if name in q.CONTENT_NEUTRAL:
                    continue
                s2 = (owner.key, mb)
                if name == "push" or name == "push_back":
                    e = m[2][0] if m[2] else ("unknown", "")
                    loops = q.enclosing_loops(P, owner, mb)
                    conds = _elem_conds(q.conditions_at(P, F, owner, mb))
                    if loops:
                        nb, lsrc = loops[-1] if len(loops) == 1 else loops[0]
                        adapters = []
                        x = peel(lsrc)
                        while x[0] == "call" and x[1] in ELEM_PRESERVING and x[2]:
                            nm = x[1].rsplit("::", 1)[-1]
                            if nm != "filter":
                                adapters.append(nm)
                            x = peel(x[2][0])
                        c = Contribution("expr", src=strip_adapters(lsrc), expr=e, conds=conds, adapters=adapters, body=owner, site=s2, how="loop push")
                        if len(loops) > 1:
                            c.kind = "opaque"
                            c.how = "nested loops"
                        out.append(c)
                    else:
                        out.append(Contribution("single", expr=e, conds=[c1 for ee, c1 in q.dominating_conditions(P, owner, mb) if c1[0] == "bool"] and
                                                [c1[1] for ee, c1 in q.dominating_conditions(P, owner, mb) if c1[0] == "bool"], body=owner, site=s2, how="push"))
                elif name == "retain":
                    # `v.retain(p)`: a filter in place on everything put in so far
                    cl = peel(m[2][0]) if m[2] else ("unknown",)
                    g = F.fn(cl[1]) if cl[0] == "closure" else None
                    if g is None or any(c.kind not in ("all-of", "expr") for c in out):
                        out.append(Contribution("opaque", site=s2, how="retain(?)"))
                    else:
                        for c in out:
                            c.conds.append(q.norm_cond(P.ret(g), True))
                            c.how += " retain"
                elif name in BULK:
                    src = m[2][0] if m[2] else ("unknown", "")
                    lp = q.enclosing_loops(P, owner, mb)
                    if lp:
                        # `for part in [a, b, c] { v.extend_from_slice(part) }`: the parts of the literal, in order
                        e = peel(src)
                        arr = peel(e[2]) if e[0] == "bound" and e[1] == "elem" else ("?",)
                        if len(lp) == 1 and arr[0] == "agg" and arr[1] in ("array", "vec") and not q.chain_adapters(lp[0][1]) and \
                                not _elem_conds(q.conditions_at(P, F, owner, mb)):
                            for k, v in arr[2]:
                                out.extend(contents(P, F, owner, v, s2, _depth + 1))
                        else:
                            out.append(Contribution("opaque", site=s2, how="bulk append inside a loop"))
                    else:
                        for c in iter_contribs(P, F, owner, src, s2):
                            if c.site is None:
                                c.site = s2
                            out.append(c)
                else:
                    out.append(Contribution("opaque", site=s2, how=name))
        return out
    if o[0] == "call":
        if o[1].rsplit("::", 1)[-1] == "concat" and ("[T]" in o[1] or "slice" in o[1]) and len(o[2]) == 1:
            # `[a, b].concat()`: the parts one after the other
            arr = peel(o[2][0])
            if arr[0] == "agg" and arr[1] in ("array", "vec"):
                out = []
                for k, v in arr[2]:
                    out.extend(contents(P, F, fn, v, site, _depth + 1))
                return out
            return [Contribution("opaque", how="concat of ?", site=site)]
        if o[1] in COLLECT and o[2]:
            s2 = o[4] if len(o) > 4 else site
            cs = iter_contribs(P, F, fn, o[2][0], s2)
            for c in cs:
                if c.site is None:
                    c.site = s2
            return cs
        if o[1] in EMPTY_CTORS:
            return []
        if o[1] == "std::iter::once" and len(o[2]) == 1:
            return [Contribution("single", expr=o[2][0], site=site, how="once")]
        return [Contribution("all-of", src=strip_adapters(o), expr=("bound", "elem", strip_adapters(o)), site=site, how="call result")]
    if o[0] == "agg" and o[1] in ("array", "vec"):
        return [Contribution("single", expr=v, site=site, how="literal") for k, v in o[2]]
    if o[0] in ("param", "field", "ok", "some", "upvar", "bound", "cparam", "item", "const"):
        return [Contribution("all-of", src=strip_adapters(o), expr=("bound", "elem", strip_adapters(o)), site=site, how="whole collection")]
    return [Contribution("opaque", how="unrecognised %s" % o[0], site=site)]


def byte_parts(P, F, fn, origin):
    """for a byte string / vector assembled from whole pieces (`a.to_vec()` + `extend_from_slice(b)`, `[a, b].concat()`,
    `Vec::with_capacity(n)` + extends): the origins of the pieces in order, or None when anything else is going on"""
    cs = contents(P, F, fn, origin)
    parts = []
    for c in cs:
        if c.kind == "all-of" and c.is_identity() and not c.conds and not [a for a in c.adapters if a not in ("copied", "cloned")]:
            parts.append(c.src)       # (`a.iter().chain(b.iter()).copied().collect()`: the same bytes)
        elif c.kind == "single" and not c.conds:
            parts.append(("byte", c.expr))
        else:
            return None
    return parts
