//! Positive examples for the rules whose expected count on /repo is zero. Analysed by the same driver
//! on every run; a rule that does not fire on its fixture fails the check ("a rule matching zero sites
//! passes vacuously forever").
#![allow(dead_code, unused)]

use std::cell::{Cell, RefCell};
use std::collections::{HashMap, HashSet};
use std::sync::atomic::{AtomicU64, Ordering};
use std::sync::Mutex;

// C19.R1: process-wide state
static COUNTER: AtomicU64 = AtomicU64::new(0);
static mut RAW: u64 = 0;
thread_local! { static TL: Cell<u64> = Cell::new(0); }

pub fn next_id_from_static() -> u64 {
    COUNTER.fetch_add(1, Ordering::SeqCst)
}

pub fn thread_local_counter() -> u64 {
    TL.with(|c| { c.set(c.get() + 1); c.get() })
}

// C19.R2: effects
pub fn wall_clock() -> u64 {
    std::time::SystemTime::now().duration_since(std::time::UNIX_EPOCH).unwrap().as_secs()
}

pub fn monotonic() -> std::time::Instant {
    std::time::Instant::now()
}

pub fn reads_env() -> Option<String> {
    std::env::var("HOME").ok()
}

pub fn pointer_as_id(x: &u64) -> usize {
    x as *const u64 as usize
}

pub fn pointer_formatting(x: &u64) -> String {
    format!("{:p}", x)
}

pub fn spawns() {
    std::thread::spawn(|| {}).join().unwrap();
}

pub fn unsafe_block() -> u64 {
    unsafe { RAW }
}

// C19.R6: `{:?}` of an error value that carries a captured backtrace (stand-in for anyhow::Error: the rule keys on
// the type path; `Wrapped` shows the transitive closure over local ADTs)
pub mod anyhow {
    #[derive(Debug)]
    pub struct Error(pub String);
}
#[derive(Debug)]
pub struct Wrapped {
    inner: anyhow::Error,
}

pub fn debug_formats_error(e: &Wrapped) -> String {
    format!("{:?}", e)
}

pub fn display_is_fine(e: &anyhow::Error) -> String {
    format!("{}", e.0)
}

pub fn debug_in_panic_only(e: &anyhow::Error) -> u64 {
    panic!("cannot happen: {:?}", e)
}

// C19.R3: hash containers (iteration order is per-process random)
pub struct Registry {
    by_name: HashMap<String, u64>,
}

pub fn hash_iteration(r: &Registry) -> Vec<u64> {
    r.by_name.values().copied().collect()
}

pub fn local_hash_set() -> usize {
    let mut s = HashSet::new();
    s.insert(1u8);
    s.len()
}

// C01.R6 / C19.R4: interior mutability in a keeper-like struct
pub struct Keeper {
    hidden: RefCell<u64>,
    guarded: Mutex<u64>,
    plain: u64,
}

// C01.R7 / A7: dropped results
fn fallible(x: u64) -> Result<u64, String> {
    if x > 3 { Err("too big".into()) } else { Ok(x) }
}

pub fn drops_result(x: u64) -> u64 {
    let _ = fallible(x);
    x
}

pub fn swallows_with_ok(x: u64) -> u64 {
    fallible(x).ok();
    x
}

pub fn propagates(x: u64) -> Result<u64, String> {
    let y = fallible(x)?;
    Ok(y + 1)
}

pub fn inspects(x: u64) -> u64 {
    match fallible(x) {
        Ok(v) => v,
        Err(_) => 0,
    }
}
