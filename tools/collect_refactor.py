#!/usr/bin/env python3
"""Collects a behaviour-preserving refactoring written by an independent sub-agent, re-verifies that the existing
suites pass with it (default and all features) and stores it under /verif/seeded/<id>/ with kind=preserve:
every property's rules must stay silent on it.

usage: collect_refactor.py <worktree> <id> "<area>"
"""
import json
import os
import re
import subprocess
import sys

wt, sid, area = sys.argv[1:4]
env = dict(os.environ, CARGO_TARGET_DIR=os.path.join(wt, "target"), CARGO_NET_OFFLINE="true")
patch = subprocess.run(["git", "diff", "--", "src"], cwd=wt, stdout=subprocess.PIPE, text=True).stdout
if not patch.strip():
    sys.exit("no src change in " + wt)


def run(cmd):
    r = subprocess.run(cmd, cwd=wt, env=env, stdout=subprocess.PIPE, stderr=subprocess.STDOUT, text=True)
    return r.returncode, re.findall(r"^test result: (\w+)\. (\d+) passed; (\d+) failed", r.stdout, re.M)


rc1, r1 = run(["cargo", "test", "--offline", "--no-fail-fast"])
rc2, r2 = run(["cargo", "test", "--offline", "--all-features", "--no-fail-fast"])
ok = rc1 == 0 and rc2 == 0 and all(x[0] == "ok" for x in r1 + r2)
print(json.dumps({"default": r1, "all_features": r2}))
print("VERIFIED" if ok else "NOT VERIFIED", sid)
if ok:
    out = os.path.join("/verif/seeded", sid)
    os.makedirs(out, exist_ok=True)
    open(os.path.join(out, "patch.diff"), "w").write(patch)
    meta = {"kind": "preserve", "property": "-", "area": area,
            "needs_to_manifest": "nothing: behaviour-preserving refactoring, every rule must stay silent",
            "source": "independent sub-agent given only the area to refactor and a scratch worktree of /repo (no access to /verif)",
            "base_commit": subprocess.run(["git", "rev-parse", "HEAD"], cwd=wt, stdout=subprocess.PIPE, text=True).stdout.strip(),
            "configs": ["default", "all-features"],
            "verified_by_me": {"commands": ["cargo test --offline --no-fail-fast", "cargo test --offline --all-features --no-fail-fast"],
                               "outcome": {"default": r1, "all_features": r2}}}
    json.dump(meta, open(os.path.join(out, "meta.json"), "w"), indent=1)
sys.exit(0 if ok else 1)
