"""debug helper: run the rules of the given properties on a scratch tree (a directory with src/, Cargo.toml, Cargo.lock)
    python3 tools/treerules.py <root> <props...>      (facts are cached in <root>/facts-<config>.json)"""
import sys, os, importlib
sys.path.insert(0, '/verif')
from vlib import extract, core
from vlib.facts import Facts
root = sys.argv[1]
props = sys.argv[2:]
cfgs = []
for cfg in ("default", "all-features"):
    out = root + "/facts-%s.json" % cfg
    if not os.path.exists(out):
        ok, log = extract.replay(cfg, root, out)
        assert ok, log[-2000:]
    cfgs.append(core.Cfg(cfg, Facts(out)))
for prop in props:
    mod = importlib.import_module("rules." + prop)
    ctx = core.Ctx(prop, cfgs, "quick")
    for c in cfgs:
        ctx.cur = c
        mod.check(ctx, c)
    print(prop, len(ctx.findings), "findings")
    for k, f in ctx.findings.items():
        print("  ", k, "::", f.message[:400])
