#!/usr/bin/env python3
"""Collects a seeded change from a sub-agent's scratch worktree, re-verifies it independently, stores it under
/verif/seeded/<id>/ and removes the worktree.

usage: collect_seed.py <worktree> <property> <seed id> "<what it needs to manifest>"
Verification (all re-run here, not taken from the agent's report):
  1. with the change: `cargo test --offline` and `cargo test --offline --all-features` (demo moved aside) pass
  2. with the change: the demo test fails
  3. without the change: the demo test passes
"""
import json
import os
import re
import shutil
import subprocess
import sys

wt, prop, sid, needs = sys.argv[1:5]
env = dict(os.environ, CARGO_TARGET_DIR=os.path.join(wt, "target"), CARGO_NET_OFFLINE="true")
out_dir = os.path.join("/verif/seeded", sid)


def run(cmd, **kw):
    r = subprocess.run(cmd, cwd=wt, env=env, stdout=subprocess.PIPE, stderr=subprocess.STDOUT, text=True, **kw)
    return r.returncode, r.stdout


def results(out):
    return re.findall(r"^test result: (\w+)\. (\d+) passed; (\d+) failed", out, re.M)


patch = subprocess.run(["git", "diff", "--", "src"], cwd=wt, stdout=subprocess.PIPE, text=True).stdout
if not patch.strip():
    sys.exit("no src change in " + wt)
demo = os.path.join(wt, "tests", "seeded_demo.rs")
if not os.path.exists(demo):
    sys.exit("no demo test in " + wt)
demo_src = open(demo).read()
feat = ["--all-features"] if "cfg(feature" in demo_src or True else []
log = {}
# 1. existing suites with the change (demo aside)
aside = demo + ".aside"
os.rename(demo, aside)
try:
    rc1, o1 = run(["cargo", "test", "--offline", "--no-fail-fast"])
    rc2, o2 = run(["cargo", "test", "--offline", "--all-features", "--no-fail-fast"])
finally:
    os.rename(aside, demo)
log["suite_default_with_change"] = {"rc": rc1, "results": results(o1)}
log["suite_all_features_with_change"] = {"rc": rc2, "results": results(o2)}
ok_suites = rc1 == 0 and rc2 == 0 and all(r[0] == "ok" for r in results(o1) + results(o2))
# 2. demo with the change
rc3, o3 = run(["cargo", "test", "--offline", "--all-features", "--test", "seeded_demo"])
log["demo_with_change"] = {"rc": rc3, "results": results(o3)}
demo_fails = rc3 != 0 and any(int(r[2]) > 0 for r in results(o3))
# 3. demo without the change
# (git stash is shared between worktrees of one repository: use checkout / apply instead)
ppath = os.path.join(wt, "target", "seed-change.patch")
with open(ppath, "w") as fh:
    fh.write(patch)
subprocess.run(["git", "checkout", "--", "src"], cwd=wt, check=True)
try:
    rc4, o4 = run(["cargo", "test", "--offline", "--all-features", "--test", "seeded_demo"])
finally:
    subprocess.run(["git", "apply", ppath], cwd=wt, check=True)
log["demo_without_change"] = {"rc": rc4, "results": results(o4)}
demo_passes = rc4 == 0 and all(r[0] == "ok" for r in results(o4)) and any(int(r[1]) > 0 for r in results(o4))
verdict = ok_suites and demo_fails and demo_passes
print(json.dumps(log, indent=1))
print("VERIFIED" if verdict else "NOT VERIFIED", sid)
if verdict:
    os.makedirs(out_dir, exist_ok=True)
    with open(os.path.join(out_dir, "patch.diff"), "w") as fh:
        fh.write(patch)
    shutil.copy(demo, os.path.join(out_dir, "seeded_demo.rs"))
    meta = {
        "property": prop,
        "needs_to_manifest": needs,
        "source": "independent sub-agent given only the property text and a scratch worktree of /repo (no access to /verif)",
        "base_commit": subprocess.run(["git", "rev-parse", "HEAD"], cwd=wt, stdout=subprocess.PIPE, text=True).stdout.strip(),
        "configs": ["default", "all-features"],
        "verified_by_me": {
            "commands": ["cargo test --offline --no-fail-fast (demo moved aside)", "cargo test --offline --all-features --no-fail-fast (demo moved aside)",
                         "cargo test --offline --all-features --test seeded_demo (with change: must fail)",
                         "git checkout -- src; cargo test --offline --all-features --test seeded_demo (must pass); git apply <patch>"],
            "outcome": log,
        },
    }
    with open(os.path.join(out_dir, "meta.json"), "w") as fh:
        json.dump(meta, fh, indent=1)
sys.exit(0 if verdict else 1)
