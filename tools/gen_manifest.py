#!/usr/bin/env python3
"""Regenerates /verif/MANIFEST.json from the rule modules (rules/Cxx.py)."""
import importlib
import json
import os
import sys

HERE = os.path.dirname(os.path.dirname(os.path.abspath(__file__)))
sys.path.insert(0, HERE)

ALL = ["C%02d" % i for i in range(1, 21)]
checks = []
na = []
for p in ALL:
    path = os.path.join(HERE, "rules", p + ".py")
    if not os.path.exists(path):
        na.append({"property_id": p, "reason": "rules for this property are not implemented yet in this revision of /verif (see DESIGN.md §5 for the planned static rules)"})
        continue
    m = importlib.import_module("rules." + p)
    if getattr(m, "NOT_APPLICABLE", None):
        na.append({"property_id": p, "reason": m.NOT_APPLICABLE})
        continue
    checks.append({
        "property_id": p,
        "quick_cmd": "./verif check %s" % p,
        "thorough_cmd": "./verif check %s --thorough" % p,
        "evidence_file": "/verif/evidence/%s.json" % p,
        "replay_cmd_template": "./verif explain {path}",
        "engine": "cwmt-static",
        "level_claimed": {"category": m.LEVEL, "text": m.LEVEL_TEXT if hasattr(m, "LEVEL_TEXT") else m.EXPLANATION,
                          "design_ref": "DESIGN.md §5 " + p},
        "level_note": "Trusted base: " + "; ".join(m.TRUSTED) + ". Assumes: " + "; ".join(m.ASSUMPTIONS),
        "technique": getattr(m, "TECHNIQUE", "static analysis of rustc MIR facts: dominance, provenance, finite-domain path enumeration, type walks"),
    })
man = {
    "version": 1,
    "setup_cmd": "./verif setup",
    "hooks": {
        "guard": "cosmwasm_cw_multi_test_verif",
        "enable": "no hooks are needed: the rustc_private driver reads private items of /repo directly; the cfg name is reserved and unused",
        "baseline_off_cmd": "cd /repo && cargo test --workspace --no-fail-fast --offline",
        "source_commits": [],
        "add_only": True,
    },
    "engines": [
        {"name": "cwmt-static", "path": "/verif/verif", "serves_properties": [c["property_id"] for c in checks],
         "kind_free_text": "rustc_private MIR/type fact extractor (driver/) + Python analysis library (vlib/: CFG+dominators, provenance, finite-domain path enumeration, type walks, effect deny-list, dropped-Result rule) + per-property frozen rule tables (rules/); compile-fail witnesses (witness/); fixture crate and mutation catalogue test the checker itself"},
    ],
    "checks": checks,
    "not_applicable": na,
    "notes": "Static analysis only. Every check re-extracts facts from /repo's current working tree (content-hash keyed cache, fingerprints deleted, nonce verified). Known findings: /verif/KNOWN_FINDINGS.txt.",
}
with open(os.path.join(HERE, "MANIFEST.json"), "w") as fh:
    json.dump(man, fh, indent=1)
print("MANIFEST.json: %d checks, %d not_applicable" % (len(checks), len(na)))
