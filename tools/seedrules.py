import sys,json,os,subprocess,shutil,importlib
sys.path.insert(0,'/verif')
from vlib import extract, core
from vlib.facts import Facts
seed=sys.argv[1]; props=sys.argv[2:]
tmp="/tmp/dbg-"+seed
cfgs=[]
meta=json.load(open("/verif/seeded/%s/meta.json"%seed))
for cfg in (meta.get("configs") or ["default","all-features"]):
    if not os.path.exists(tmp+"/facts-%s.json"%cfg):
        if not os.path.exists(tmp+"/src"):
            shutil.rmtree(tmp,ignore_errors=True); os.makedirs(tmp)
            shutil.copytree("/repo/src",tmp+"/src")
            for f in ("Cargo.toml","Cargo.lock"): shutil.copy("/repo/"+f,tmp+"/"+f)
            subprocess.run(["patch","-p1","-s","-i","/verif/seeded/%s/patch.diff"%seed],cwd=tmp,check=True)
        ok,log=extract.replay(cfg,tmp,tmp+"/facts-%s.json"%cfg)
        assert ok, log[-2000:]
    cfgs.append(core.Cfg(cfg,Facts(tmp+"/facts-%s.json"%cfg)))
for prop in props:
    mod=importlib.import_module("rules."+prop)
    ctx=core.Ctx(prop,cfgs,"thorough")
    for c in cfgs[-1:]:
        ctx.cur=c
        mod.check(ctx,c)
    for k,f in ctx.findings.items():
        print(k, "::", f.message[:500])
