#!/usr/bin/env python3
"""Systematic mutation sweep: measures the rules against *mechanical* single-line mutations of the non-test source
(statement deletion, swapped neighbours, relational / logical / arithmetic operator replacement, negated conditions,
dropped `?`, constants, Ascending/Descending, continue/break).  A measuring instrument for the checker, never part of a
verdict.

  phase 1 (static):  every mutant is compiled by the recorded rustc command (driver replay) and all 20 properties' rules
                     are run on it: killed / silent / does-not-compile
  phase 2 (tests):   silent mutants are run against the crate's own test suite (all features) in scratch copies under
                     /tmp (removed afterwards): the ones the tests catch are of no interest (the brief asks for changes
                     that pass the existing tests); the rest - "live" - are listed for triage by hand: equivalent /
                     outside every property / a hole in a rule.

A second base makes whole statements and calls reachable for the line-based operators: /repo reformatted with very wide
lines (behaviour-preserving; every rule is silent on it):
    mkdir -p /tmp/cwmt-sweep-base && cp -r /repo/src /repo/Cargo.toml /repo/Cargo.lock /tmp/cwmt-sweep-base/ &&
    (cd /tmp/cwmt-sweep-base && find src -name '*.rs' | xargs rustfmt --edition 2021 --config max_width=700,use_small_heuristics=Max,chain_width=700,fn_call_width=700,struct_lit_width=700)
    SWEEP_BASE=/tmp/cwmt-sweep-base SWEEP_TAG=wide- SWEEP_BATCH3=1 tools/sweep.py gen|static|report
(SWEEP_BATCH3 adds: a variable replaced by another one in scope in the same function, a call dropped from a method chain,
the batch-1 operators at every occurrence in the line.)

usage: sweep.py gen                      -> sweep/mutants.jsonl
       sweep.py static [N workers]       -> sweep/static.jsonl
       sweep.py tests [N workers]        -> sweep/tests.jsonl
       sweep.py report
"""
import json
import os
import re
import shutil
import subprocess
import sys
import tempfile
from concurrent.futures import ProcessPoolExecutor

sys.path.insert(0, os.path.dirname(os.path.dirname(os.path.abspath(__file__))))
from vlib import extract, mutants  # noqa: E402

OUT = os.path.join(extract.VERIF, "sweep")
# SWEEP_BASE: a source tree to mutate instead of /repo (e.g. /repo reformatted with very wide lines, so that whole statements
# and calls are single lines the line-based operators can reach); SWEEP_TAG names its result files
BASE = os.environ.get("SWEEP_BASE", extract.REPO)
TAG = os.environ.get("SWEEP_TAG", "")
FILES = ["src/wasm.rs", "src/bank.rs", "src/staking.rs", "src/transactions.rs", "src/app.rs", "src/contracts.rs", "src/executor.rs",
         "src/addresses.rs", "src/api.rs", "src/checksums.rs", "src/app_builder.rs", "src/module.rs", "src/stargate.rs", "src/ibc.rs",
         "src/gov.rs", "src/custom_handler.rs", "src/prefixed_storage/mod.rs", "src/prefixed_storage/length_prefixed.rs",
         "src/prefixed_storage/namespace_helpers.rs"]
STAKING_FILES = {"src/staking.rs"}

REPL = [
    (r" == ", " != "), (r" != ", " == "), (r" <= ", " < "), (r" >= ", " > "), (r" < ", " <= "), (r" > ", " >= "),
    (r" && ", " || "), (r" \|\| ", " && "), (r" \+ ", " - "), (r" - ", " + "), (r" \+= ", " -= "), (r" -= ", " += "),
    (r"\bAscending\b", "Descending"), (r"\bDescending\b", "Ascending"), (r"\btrue\b", "false"), (r"\bfalse\b", "true"),
    (r"\.min\(", ".max("), (r"\.max\(", ".min("), (r"\bchecked_add\b", "checked_sub"), (r"\bchecked_sub\b", "checked_add"),
    (r"\bcontinue;", "break;"), (r"\bbreak;", "continue;"), (r"\bis_some\(\)", "is_none()"), (r"\bis_none\(\)", "is_some()"),
    (r"\bis_empty\(\)", "len() == 1"), (r"\bfirst\(\)", "last()"), (r"\blast\(\)", "first()"), (r"\bpush_back\b", "push_front"),
    (r"\bpop_front\b", "pop_back"), (r"\bfront\(\)", "back()"), (r"\bis_zero\(\)", "is_zero() == false"),
    (r"\.rev\(\)", ""), (r"\bmul_floor\b", "mul_ceil"), (r"\bOk\(None\)", "Ok(Default::default())"),
    (r"\b0\b", "1"), (r"\b1\b", "2"), (r"\b2\b", "1"), (r"\binsert\(0, ", "push("),
    (r"\bReplyOn::Always\b", "ReplyOn::Never"), (r"\bReplyOn::Success\b", "ReplyOn::Error"), (r"\bReplyOn::Error\b", "ReplyOn::Success"),
    (r"\.clone\(\)\)\?;", ".clone()).ok();"), (r"\)\?;$", ").ok();"),
]


def code_lines(path):
    """(index, line) of the non-test, non-comment part of the file"""
    with open(path) as fh:
        lines = fh.read().split("\n")
    out = []
    for i, l in enumerate(lines):
        if l.startswith("#[cfg(test)]"):
            break
        s = l.strip()
        if not s or s.startswith("//") or s.startswith("#[") or s.startswith("#![") or s.startswith("use ") or s.startswith("pub use "):
            continue
        out.append((i, l))
    return lines, out


def gen():
    os.makedirs(OUT, exist_ok=True)
    ms = []
    for f in FILES:
        path = os.path.join(BASE, f)
        if not os.path.exists(path):
            continue
        lines, code = code_lines(path)
        idx = {i for i, l in code}
        for i, l in code:
            s = l.strip()
            in_string = '"' in l
            # 1. delete a single-line statement
            if s.endswith(";") and not s.startswith("let ") and not s.startswith("pub ") and not s.startswith("const ") and not s.startswith("type "):
                ms.append(dict(file=f, line=i, op="delete", new=[]))
            # 2. swap with the next single-line statement
            if s.endswith(";") and (i + 1) in idx and lines[i + 1].strip().endswith(";") and lines[i + 1].strip() != s and \
                    len(l) - len(l.lstrip()) == len(lines[i + 1]) - len(lines[i + 1].lstrip()):
                ms.append(dict(file=f, line=i, op="swap", new=[lines[i + 1], l], span=2))
            # 3. negate an `if` condition
            m = re.match(r"^(\s*(?:\} else )?if )((?!let ).+)( \{)\s*$", l)
            if m:
                ms.append(dict(file=f, line=i, op="negate", new=[m.group(1) + "!(" + m.group(2) + ")" + m.group(3)]))
            # 4. replacements (first occurrence of each pattern; not inside string literals for the numeric ones)
            for pat, rep in REPL:
                if in_string and pat in (r"\b0\b", r"\b1\b", r"\b2\b", r" - ", r" \+ ", r" < ", r" > "):
                    continue
                mm = re.search(pat, l)
                if mm:
                    nl = l[:mm.start()] + rep + l[mm.end():]
                    if nl != l:
                        ms.append(dict(file=f, line=i, op="repl:%s" % pat, new=[nl]))
    ms += gen2()
    if os.environ.get("SWEEP_BATCH3"):
        ms += gen3()
    for n, m in enumerate(ms):
        m["id"] = "s%05d" % n
    with open(os.path.join(OUT, TAG + "mutants.jsonl"), "w") as fh:
        for m in ms:
            fh.write(json.dumps(m) + "\n")
    print("generated", len(ms), "mutants over", len(FILES), "files")


def gen2():
    """second batch: multi-line expression statements deleted as a whole, neighbouring argument lines swapped, the two
    simple arguments of a one-line call swapped, `Some(x)` -> `None`, `.clone()` arguments of the same call swapped"""
    ms = []
    for f in FILES:
        path = os.path.join(BASE, f)
        if not os.path.exists(path):
            continue
        lines, code = code_lines(path)
        idx = {i for i, l in code}
        for i, l in code:
            s = l.strip()
            ind = len(l) - len(l.lstrip())
            # multi-line expression statement: starts here, ends at the first line of the same indentation ending with `;`
            if not s.endswith(";") and not s.endswith("{") and not s.startswith(("let ", "if ", "match ", "for ", "while ", "fn ", "pub ", "impl", "}", ")", ".", "//", "else", "return", "where", "const ", "type ", "struct ", "enum ", "trait ", "#")) \
                    and (s.endswith("(") or s.endswith(",") is False) and ("(" in s or s.endswith("(")):
                depth = 0
                for j in range(i, min(i + 25, len(lines))):
                    depth += lines[j].count("(") + lines[j].count("{") + lines[j].count("[") - lines[j].count(")") - lines[j].count("}") - lines[j].count("]")
                    if depth == 0 and j > i:
                        if lines[j].strip().endswith(";") and len(lines[j]) - len(lines[j].lstrip()) == ind:
                            ms.append(dict(file=f, line=i, op="delete-multiline", new=[], span=j - i + 1))
                        break
                    if depth < 0:
                        break
            # neighbouring argument lines (`    a,` / `    b,`)
            if re.match(r"^\s+[\w&.:()*]+,$", l) and (i + 1) in idx and re.match(r"^\s+[\w&.:()*]+,$", lines[i + 1]) and \
                    len(lines[i + 1]) - len(lines[i + 1].lstrip()) == ind and lines[i + 1].strip() != s:
                ms.append(dict(file=f, line=i, op="swap-args", new=[lines[i + 1], l], span=2))
            # f(a, b) with two simple arguments on one line
            mm = re.search(r"\((&?(?:mut )?[\w.]+), (&?(?:mut )?[\w.]+)\)", l)
            if mm and mm.group(1) != mm.group(2) and '"' not in l:
                ms.append(dict(file=f, line=i, op="swap-2args", new=[l[:mm.start()] + "(" + mm.group(2) + ", " + mm.group(1) + ")" + l[mm.end():]]))
            mm = re.search(r"\bSome\(([^()]*)\)", l)
            if mm and "=>" not in l.split("Some(")[0][-4:] and not re.search(r"(let|if let|while let) Some\(", l) and "=> " not in l[mm.end():mm.end() + 4] and \
                    not re.search(r"Some\([^()]*\)\s*(=>|=[^=])", l):
                ms.append(dict(file=f, line=i, op="some-to-none", new=[l[:mm.start()] + "None" + l[mm.end():]]))
    return ms


VARS = ["sender", "contract", "contract_addr", "addr", "address", "delegator", "validator", "recipient", "to_address", "from_address", "admin", "creator",
        "new_admin", "src_validator", "dst_validator", "withdraw_addr", "delegator_addr", "receiver", "account", "key", "value", "start", "end", "lkey", "rkey",
        "amount", "funds", "code_id", "new_code_id", "instance_id", "id", "payload", "data", "events", "msg", "response", "res", "namespace", "prefix", "order"]
CHAIN_DROPS = ["filter", "rev", "trim", "skip", "take", "map_err", "to_lowercase", "to_uppercase", "normalize", "sort", "dedup", "transpose", "clone"]


def fn_ranges(lines):
    """[(first line, last line)] of function bodies, by indentation"""
    out = []
    for i, l in enumerate(lines):
        m = re.match(r"^(\s*)(?:pub(?:\([a-z]+\))? )?(?:const )?fn \w+", l)
        if m:
            ind = len(m.group(1))
            for j in range(i + 1, min(i + 400, len(lines))):
                if lines[j].startswith(" " * ind + "}") and len(lines[j]) - len(lines[j].lstrip()) == ind:
                    out.append((i, j))
                    break
    return out


def gen3():
    """third batch (meant for the wide-line base): a variable replaced by another one that is in scope in the same function
    ("wrong variable of the same type" - the type checker sorts out the rest), one clause of a `&&` / `||` dropped, a call
    dropped from a method chain, and the operators of batch 1 applied to every occurrence in the line, not only the first"""
    ms = []
    for f in FILES:
        path = os.path.join(BASE, f)
        if not os.path.exists(path):
            continue
        lines, code = code_lines(path)
        codeset = {i for i, l in code}
        for a, b in fn_ranges(lines):
            body = "\n".join(lines[a:b + 1])
            present = [v for v in VARS if re.search(r"\b%s\b" % v, body)]
            for i in range(a + 1, b):
                if i not in codeset:
                    continue
                l = lines[i]
                if l.strip().startswith(("let ", "fn ", "pub fn ")) and "=" not in l:
                    continue
                for v in present:
                    occ = [m for m in re.finditer(r"(?<![\w.])%s\b(?!\s*[:(])" % v, l)]
                    # not the binding site of the variable itself
                    occ = [m for m in occ if not re.search(r"(let (mut )?|\|\s*|\(\s*|, )$", l[:m.start()]) or "=" in l[:m.start()]]
                    for m in occ[:2]:
                        for w in present:
                            if w != v:
                                ms.append(dict(file=f, line=i, op="var:%s->%s" % (v, w), new=[l[:m.start()] + w + l[m.end():]]))
                # one clause of a conjunction / disjunction dropped
                for m in re.finditer(r" (&&|\|\|) ", l):
                    left = re.search(r"([\w.!*&()\[\]:<>=' \"]+)$", l[:m.start()])
                    if left and "if " in l:
                        cond_start = l.index("if ") + 3
                        ms.append(dict(file=f, line=i, op="drop-left-clause", new=[l[:cond_start] + l[m.end():]]))
                for name in CHAIN_DROPS:
                    for m in re.finditer(r"\.%s\(" % name, l):
                        depth, j = 0, m.end() - 1
                        while j < len(l):
                            depth += (l[j] == "(") - (l[j] == ")")
                            if depth == 0:
                                break
                            j += 1
                        if j < len(l):
                            ms.append(dict(file=f, line=i, op="drop-call:%s" % name, new=[l[:m.start()] + l[j + 1:]]))
                for pat, rep in REPL:
                    for m in list(re.finditer(pat, l))[1:4]:
                        if '"' in l and pat in (r"\b0\b", r"\b1\b", r"\b2\b", r" - ", r" \+ ", r" < ", r" > "):
                            continue
                        ms.append(dict(file=f, line=i, op="repl+:%s" % pat, new=[l[:m.start()] + rep + l[m.end():]]))
    return ms


def apply(root, m):
    p = os.path.join(root, m["file"])
    with open(p) as fh:
        lines = fh.read().split("\n")
    span = m.get("span", 1)
    lines[m["line"]:m["line"] + span] = m["new"]
    with open(p, "w") as fh:
        fh.write("\n".join(lines))


def static_one(m):
    tmp = tempfile.mkdtemp(prefix="cwmt-sweep-")
    res = {"id": m["id"], "status": "?", "rules": []}
    try:
        shutil.copytree(os.path.join(BASE, "src"), os.path.join(tmp, "src"))
        for f in ("Cargo.toml", "Cargo.lock"):
            shutil.copy(os.path.join(extract.REPO, f), os.path.join(tmp, f))
        apply(tmp, m)
        import importlib
        from vlib import core
        from vlib.facts import Facts
        cfgs = []
        for cname in (["all-features", "staking"] if m["file"] in STAKING_FILES else ["default", "all-features"]):
            out = os.path.join(tmp, "facts-%s.json" % cname)
            ok, log = extract.replay(cname, tmp, out)
            if not ok:
                res["status"] = "does-not-compile"
                return res
            cfgs.append(core.Cfg(cname, Facts(out)))
        known = core.load_known()
        rdir = os.path.join(extract.VERIF, "rules")
        fired = set()
        for prop in sorted(f[:-3] for f in os.listdir(rdir) if re.match(r"C\d\d\.py$", f)):
            mod = importlib.import_module("rules." + prop)
            ctx = core.Ctx(prop, cfgs, "quick")
            for c in cfgs:
                ctx.cur = c
                try:
                    mod.check(ctx, c)
                except Exception as e:
                    ctx.fail(prop + ".R0", "-", "checker-crash", repr(e))
            fired |= {f.rule for k, f in ctx.findings.items() if (prop, k) not in known}
        res["rules"] = sorted(fired)
        res["status"] = "killed" if fired else "silent"
        return res
    except Exception as e:
        res["status"] = "error"
        res["detail"] = repr(e)
        return res
    finally:
        shutil.rmtree(tmp, ignore_errors=True)


def load(name):
    p = os.path.join(OUT, name)
    if not os.path.exists(p):
        return []
    with open(p) as fh:
        return [json.loads(l) for l in fh if l.strip()]


def static(workers):
    ms = load(TAG + "mutants.jsonl")
    done = {r["id"] for r in load(TAG + "static.jsonl")}
    todo = [m for m in ms if m["id"] not in done]
    for c in ("default", "all-features", "staking"):
        if not os.path.exists(os.path.join(extract.WORK, "cmd-%s.json" % c)):
            extract.extract(c, use_cache=False)
    with open(os.path.join(OUT, TAG + "static.jsonl"), "a") as fh, ProcessPoolExecutor(max_workers=workers) as ex:
        for n, r in enumerate(ex.map(static_one, todo, chunksize=4)):
            fh.write(json.dumps(r) + "\n")
            if n % 100 == 0:
                fh.flush()
                print(n, "/", len(todo), flush=True)


def tests_worker(args):
    wid, batch = args
    root = "/tmp/cwmt-sweep-tests-%d" % wid
    shutil.rmtree(root, ignore_errors=True)
    subprocess.run(["git", "-C", extract.REPO, "worktree", "add", "--detach", root, "HEAD"], check=True, stdout=subprocess.DEVNULL, stderr=subprocess.DEVNULL)
    env = dict(os.environ, CARGO_TARGET_DIR=os.path.join(root, "target"), CARGO_NET_OFFLINE="true")
    out = []
    try:
        for m in batch:
            subprocess.run(["git", "checkout", "--", "src"], cwd=root, check=True)
            if BASE != extract.REPO:
                shutil.rmtree(os.path.join(root, "src"))
                shutil.copytree(os.path.join(BASE, "src"), os.path.join(root, "src"))
            apply(root, m)
            try:
                r = subprocess.run(["cargo", "test", "--offline", "--all-features", "-q"], cwd=root, env=env, stdout=subprocess.PIPE, stderr=subprocess.STDOUT, text=True,
                                   timeout=900)
                failed = re.findall(r"^test (\S+) \.\.\. FAILED", r.stdout, re.M)
                st = "tests-pass" if r.returncode == 0 else "tests-fail"
                out.append({"id": m["id"], "status": st, "failed": failed[:5] or re.findall(r"^---- (\S+) stdout", r.stdout, re.M)[:5]})
            except subprocess.TimeoutExpired:
                out.append({"id": m["id"], "status": "tests-timeout", "failed": []})
            with open(os.path.join(OUT, "tests-%d.part" % wid), "a") as fh:
                fh.write(json.dumps(out[-1]) + "\n")
    finally:
        subprocess.run(["git", "-C", extract.REPO, "worktree", "remove", "--force", root], stdout=subprocess.DEVNULL, stderr=subprocess.DEVNULL)
        shutil.rmtree(root, ignore_errors=True)
    return out


def tests(workers):
    ms = {m["id"]: m for m in load(TAG + "mutants.jsonl")}
    silent = [r["id"] for r in load(TAG + "static.jsonl") if r["status"] == "silent"]
    done = {r["id"] for r in load(TAG + "tests.jsonl")}
    todo = [ms[i] for i in silent if i not in done]
    batches = [(w, todo[w::workers]) for w in range(workers)]
    with ProcessPoolExecutor(max_workers=workers) as ex:
        res = [r for b in ex.map(tests_worker, batches) for r in b]
    with open(os.path.join(OUT, TAG + "tests.jsonl"), "a") as fh:
        for r in res:
            fh.write(json.dumps(r) + "\n")
    for w in range(workers):
        p = os.path.join(OUT, "tests-%d.part" % w)
        if os.path.exists(p):
            os.remove(p)


def report():
    ms = {m["id"]: m for m in load(TAG + "mutants.jsonl")}
    st = {r["id"]: r for r in load(TAG + "static.jsonl")}
    ts = {r["id"]: r for r in load(TAG + "tests.jsonl")}
    tot = {}
    for i, r in st.items():
        tot[r["status"]] = tot.get(r["status"], 0) + 1
    print("static:", tot, "of", len(ms))
    tt = {}
    for i, r in ts.items():
        tt[r["status"]] = tt.get(r["status"], 0) + 1
    print("tests on the silent ones:", tt)
    live = [i for i, r in ts.items() if r["status"] == "tests-pass"]
    print("live (silent + tests pass):", len(live))
    srcs = {}
    for i in sorted(live):
        m = ms[i]
        if m["file"] not in srcs:
            with open(os.path.join(BASE, m["file"])) as fh:
                srcs[m["file"]] = fh.read().split("\n")
        old = srcs[m["file"]][m["line"]:m["line"] + m.get("span", 1)]
        print("%s %s:%d %s\n    - %s\n    + %s" % (i, m["file"], m["line"] + 1, m["op"], " | ".join(x.strip() for x in old), " | ".join(x.strip() for x in m["new"])))


if __name__ == "__main__":
    cmd = sys.argv[1]
    if cmd == "gen":
        gen()
    elif cmd == "static":
        static(int(sys.argv[2]) if len(sys.argv) > 2 else 14)
    elif cmd == "tests":
        tests(int(sys.argv[2]) if len(sys.argv) > 2 else 4)
    elif cmd == "report":
        report()
