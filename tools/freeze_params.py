#!/usr/bin/env python3
"""Freezes the parameter names of every local function on the current tree into vlib/frozen_params.json.

Rules refer to parameters by the names they had when the rule tables were confirmed by hand; at analysis time
the analysed function's parameters are matched to those names *by position* (when the arity is unchanged), so a
later rename of a parameter does not raise an alarm. Re-run only when rule tables are re-confirmed.
"""
import json
import os
import sys

HERE = os.path.dirname(os.path.dirname(os.path.abspath(__file__)))
sys.path.insert(0, HERE)
os.environ["CWMT_NO_FROZEN"] = "1"
from vlib import extract  # noqa: E402
from vlib.facts import Facts  # noqa: E402

table = {}
for cfg in ("default", "all-features"):
    F = Facts(extract.extract(cfg))
    for key, f in F.fns.items():
        names = [f.names.get(i) for i in range(1, f.arg_count + 1)]
        if f.arg_count and all(names):
            table.setdefault(key, names)
with open(os.path.join(HERE, "vlib", "frozen_params.json"), "w") as fh:
    json.dump(table, fh, indent=0, sort_keys=True)
print("froze parameter names of %d functions" % len(table))

# the set of functions that exist on the confirmed tree (all feature configurations): a private function that is not
# in this set is a later-extracted helper and is spliced into its callers (vlib/inline.py)
keys = set()
for cfg in extract.CONFIGS:
    with open(extract.extract(cfg)) as fh:
        for d in json.load(fh)["functions"]:
            if d["kind"] != "closure":
                keys.add(d["key"])
with open(os.path.join(HERE, "vlib", "known_fns.json"), "w") as fh:
    json.dump(sorted(keys), fh, indent=0)
print("recorded %d known functions" % len(keys))

# signatures (return type, parameter types) of the known functions: used to recognise a private function that was only
# renamed (vlib/inline.py A14)
sigs = {}
for cfg in extract.CONFIGS:
    with open(extract.extract(cfg)) as fh:
        for d in json.load(fh)["functions"]:
            if d["kind"] != "closure" and not d["derived"]:
                sigs.setdefault(d["key"], [l["s"] for l in d["locals"][:d["arg_count"] + 1]])
with open(os.path.join(HERE, "vlib", "known_sigs.json"), "w") as fh:
    json.dump(sigs, fh, indent=0, sort_keys=True)
print("recorded %d signatures" % len(sigs))

# the constants / statics that exist on the confirmed tree: a literal constant that is not in this set was introduced later
# (`const PREFIX: &[u8] = b"..";`) and is read as the literal it names (vlib/prov.py)
ck = set()
for cfg in extract.CONFIGS:
    with open(extract.extract(cfg)) as fh:
        d = json.load(fh)
        for c in d["consts"] + d["statics"]:
            ck.add(c["key"])
with open(os.path.join(HERE, "vlib", "known_consts.json"), "w") as fh:
    json.dump(sorted(ck), fh, indent=0)
print("recorded %d known constants" % len(ck))
